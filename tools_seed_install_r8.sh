#!/bin/bash
# Installs the eighth-round seeded changes (after tools_seed_eval.py and the test confirmation have been run for each).
cd "$(dirname "$0")"
I="python3 tools_seed_install.py"
$I /tmp/seed/out8_C01 C01 C01g-factory3d-drops-poisson-solver-type "create_unbounded_flow_simulator_3d with poisson_solver_type=fast_diagonalisation" "first evaluation: C16.w reported the unread parameter, C01 did not; the rule for the create_* helpers is now also C01.w"
$I /tmp/seed/out8_C06 C06 C06g-forcing-support-buffer-single-precision "VirtualBoundaryForcing (or an immersed-body interaction) constructed with real_t=float64, generic marker positions" "first evaluation: no check reported it; C06.p now constructs the forcing object in both precisions and requires every floating-point buffer it allocates to have that precision"
$I /tmp/seed/out8_C11 C11 C11g-fastdiag3d-z-decomposition-from-y-matrix "3D solver with grid_size_z != grid_size_y (the constructor raises)"
$I /tmp/seed/out8_C17 C17 C17g-load-skips-eulerian-checks-without-eulerian-section "reader with Eulerian fields registered, file written by an IO that holds bodies only" "first evaluation: no check reported it; C17.d now also loads a file that lacks a whole section (no Eulerian group / no Lagrangian group)"
$I /tmp/seed/out8_C18 C18 C18g-velocity-mismatch-rebound-not-refreshed "checkpoint of the velocity-mismatch field through the IO layer, loop calling time_step before the interaction"
$I /tmp/seed/out8_C20 C20 C20g-boundary-reset-generator-memoised-without-width "a boundary-reset kernel of another width (filter with filter_flux_buffer_boundary_width=2) generated before the 3D diffusion / stretching step in the same process" "first evaluation: C20 stopped with exit 2 (dict.setdefault); the evaluator now executes it, and C20.memo requires a generator that keeps results in a module-level container to key them on every parameter it uses"
python3 tools_seed_table.py
