#!/bin/bash
# Installs the sixth-round seeded changes (after tools_seed_eval.py and the test confirmation have been run for each).
cd "$(dirname "$0")"
I="python3 tools_seed_install.py"
$I /tmp/seed/out6_C01 C01 C01f-outplane-curl-ghost-reset-default-off "2D simulator whose velocity edge ring is non-zero at the start of a step (free stream and a second step, or a restart-like state)"
$I /tmp/seed/out6_C03 C03 C03f-solver3d-y-range-floor-division "3D solver with grid_size_y not an integer multiple of grid_size_x"
$I /tmp/seed/out6_C06 C06 C06f-support2d-nearest-index-clamped-one-cell-high "2D communicator with a marker coordinate in [2 dx, 2.5 dx) from the low x or y face"
$I /tmp/seed/out6_C07 C07 C07f-spread2d-vector-skips-markers-in-second-cell "2D vector spreading with a marker whose nearest index is exactly 1 in x or y" "first evaluation: C07 stopped with exit 2 (numpy.min, continue); the evaluator now executes continue, models the minimum of a short column and decides guards on marker indices from the admissible domain (support window inside the grid), analysing the rest both ways"
$I /tmp/seed/out6_C08 C08 C08f-rigid-load-buffers-take-body-element-type "RectangularPlane built with an integer-typed origin, coupled through RigidBodyFlowInteraction" "first evaluation: no check reported it; C08.h now derives the element type of the load buffers and, where it is inherited from a body attribute, requires every rigid body of the package to store that attribute as reals"
$I /tmp/seed/out6_C09 C09 C09f-sphere-reads-director-cached-by-overridden-parent "SphereForcingGrid whose body director changed after the grid was built, non-zero angular velocity" "first evaluation: C09 stopped with exit 2 (attribute without a model); unknown buffers now take their constructor value on construction-time body symbols, so a method that reads one without refreshing it fails the closed form"
$I /tmp/seed/out6_C10 C10 C10f-element-centric-transfer-halves-marker-force-in-place "element-centric rod grid, marker force read after compute_flow_forces_and_torques (IO dump, diagnostics)" "first evaluation: no check reported it (C08 stopped with exit 2 on the augmented product); C10.g now requires every transfer_forcing_from_grid_to_body to leave the marker force it is given untouched"
$I /tmp/seed/out6_C17 C17 C17f-rod-io-rebinds-registered-array "CosseratRodIO saving after the rod moved" "first evaluation: no check reported it; C17.c now requires arrays a derived IO class registers to be refreshed in place"
$I /tmp/seed/out6_C18 C18 C18f-load-lagrangian-section-becomes-elif "one IO object holding both Eulerian fields and Lagrangian grids"
$I /tmp/seed/out6_C19 C19 C19f-simulator-filter-work-buffers-aliased "3D simulator with filter_vorticity=True" "first evaluation: C04 and C14 reported it, C19 did not (its filter analysis hands the generator two distinct arrays); C19.e now compares the work arrays at the library's own construction sites"
$I /tmp/seed/out6_C20 C20 C20f-vector-sum-helper-declares-output-second "SSP-RK3 vortex stretching (the only out-of-place vector sum)"
if [ -f /tmp/seed/out6_C11/eval.json ]; then
$I /tmp/seed/out6_C11 C11 "$(cat /tmp/seed/out6_C11/name.txt)" "$(cat /tmp/seed/out6_C11/needs.txt)" "$(cat /tmp/seed/out6_C11/history.txt 2>/dev/null)"
fi
python3 tools_seed_table.py
