#!/bin/bash
# Installs the seventh-round seeded changes (after tools_seed_eval.py and the test confirmation have been run for each).
cd "$(dirname "$0")"
I="python3 tools_seed_install.py"
$I /tmp/seed/out7_C04 C04 C04g-advection3d-y-back-switch-reads-x-neighbour "3D ENO3 advection (passive transport) with a y velocity that changes sign between neighbouring cells"
$I /tmp/seed/out7_C05 C05 C05g-forcing-update-2d-skipped-when-x-forcing-is-zero "2D velocity-forcing update with an identically zero x component and a non-zero y component" "first evaluation: C05, C12 and C13 stopped with exit 2 (array method any); both paths of a kernel that branches on x.any() are now summarised and compared: the path for an all-zero x must give what the general path gives with x := 0"
$I /tmp/seed/out7_C07 C07 C07g-support2d-nearest-index-rounded-not-floored "2D communicator with the Peskin kernel and a marker whose offset within its cell is 0.5 or more" "first evaluation: C06 and C07 stopped with exit 2 (numpy.rint); rint / ceil / trunc are now opaque functions of their argument, equal only to themselves"
$I /tmp/seed/out7_C08 C08 C08g-interaction-forcing-field-possibly-detached-copy "flow interaction given a non-contiguous Eulerian forcing field" "first evaluation: C07.target and C10.e reported it, C08 did not; C08.target records the effect classification of the interaction instance under C08"
$I /tmp/seed/out7_C09 C09 C09g-edge-grid-right-edge-velocity-cross-product-swapped "2D edge grid on a rod element with non-zero angular velocity about z"
$I /tmp/seed/out7_C10 C10 C10g-damping-coefficient-multiplied-instead-of-raised-in-3d "3D interaction through ImmersedBodyFlowInteraction with a non-zero damping coefficient"
$I /tmp/seed/out7_C12 C12 C12g-boundary-reset-3d-z-face-start-from-y-extent "3D curl with reset_ghost_zone=True on a grid with grid_size_y < grid_size_z"
$I /tmp/seed/out7_C13 C13 C13g-diffusion-flux-2d-ghost-reset-default-off "2D diffusion time step with a flux buffer whose ring is non-zero on entry"
$I /tmp/seed/out7_C14 C14 C14g-poisson2d-padding-clear-uses-y-extent-for-x "2D simulator on a grid with more rows than columns, second and later steps" "first evaluation: C14 stopped with exit 2 (ordering of different size symbols); C14 now analyses size orderings case by case like the other simulator checks"
$I /tmp/seed/out7_C15 C15 C15g-vector-diffusion-flux-3d-z-reads-its-output "3D diffusion flux generator with field_type=vector (no library caller), output buffer non-zero on entry"
$I /tmp/seed/out7_C16 C16 C16g-factory3d-drops-cfl "create_unbounded_flow_simulator_3d with a cfl other than 0.1" "first evaluation: no check reported it; C16.w now requires the create_* helpers to read every one of their parameters and to pass each under its own name"
$I /tmp/seed/out7_C19 C19 C19g-simulator2d-zero-zone-width-replaced-by-default "2D simulator configured with penalty_zone_width=0" "first evaluation: C19 did not report it (its damping rules are per kernel); C19.f now requires each simulator to build the damping kernel with the width it was configured with"
python3 tools_seed_table.py
