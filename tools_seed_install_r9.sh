#!/bin/bash
# Installs the ninth-round seeded changes (after tools_seed_eval.py and the test confirmation have been run for each).
cd "$(dirname "$0")"
I="python3 tools_seed_install.py"
$I /tmp/seed/out9_C03 C03 C03g-greens-function-memoised-across-precisions "a float32 solver and then a float64 solver on the same grid and domain in one process, dx exactly representable in single precision" "first evaluation: C03 stopped with exit 2 (functools.lru_cache unknown to the evaluator); it now analyses a memoised function as its body, and C03.memo requires that the memo key determine the result (no dependence on an argument's type without typed=True)"
$I /tmp/seed/out9_C09 C09 C09h-surface-grid-radius-frozen-at-construction "rod whose radius changes after the grid is built (elements thinning under stretch), then positions/velocities recomputed"
$I /tmp/seed/out9_C13 C13 C13h-filter-flux-ring-cleared-on-first-call-only "second call of the same generated 3D filter kernel after another user of the shared flux buffer wrote its boundary ring" "first evaluation: no check reported it (the summary of a first call is right); C13.h now calls the same generated kernel again and, when its effects differ from the first call's, judges the second-call summary by C13.a/b/c"
$I /tmp/seed/out9_C14 C14 C14h-greens-function-reflected-about-x-range-on-every-axis "3D unbounded solver on a non-cubic grid"
python3 tools_seed_table.py
