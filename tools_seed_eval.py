#!/usr/bin/env python3
"""Evaluate one seeded change: demo before/after on /repo, then all quick checks with the patch applied.
usage: tools_seed_eval.py <seed dir with patch.diff and demo.py> [PID ...]   (default: all claimed checks)
The patch is applied to /repo and ALWAYS undone (git checkout -- .) before returning."""
import json, os, subprocess, sys, time

REPO = "/repo"
VERIF = os.path.dirname(os.path.abspath(__file__))


def sh(cmd, cwd=None, env=None, timeout=3600):
    r = subprocess.run(cmd, shell=True, cwd=cwd, env=env, capture_output=True, text=True, timeout=timeout)
    return r.returncode, (r.stdout + r.stderr)


def main():
    d = os.path.abspath(sys.argv[1])
    pids = sys.argv[2:] or [c["property_id"] for c in json.load(open(os.path.join(VERIF, "MANIFEST.json")))["checks"]]
    patch = os.path.join(d, "patch.diff")
    demo = os.path.join(d, "demo.py")
    env = dict(os.environ, PYTHONPATH=REPO + ":/tmp/seed")
    rc, out = sh("git -C %s status --porcelain" % REPO)
    if out.strip():
        print("refusing: /repo is dirty:\n" + out)
        return 2
    rc, out = sh("git -C %s apply --check %s" % (REPO, patch))
    if rc:
        print("patch does not apply to /repo:", out)
        return 2
    res = {"seed": d, "checks": {}}
    rc0, out0 = sh("/venv/bin/python %s" % demo, cwd=REPO, env=env)
    res["demo_clean_exit"] = rc0
    print("demo on clean /repo: exit", rc0)
    sh("git -C %s apply %s" % (REPO, patch))
    try:
        rc1, out1 = sh("/venv/bin/python %s" % demo, cwd=REPO, env=env)
        res["demo_patched_exit"] = rc1
        res["demo_patched_tail"] = out1.strip().splitlines()[-3:]
        print("demo with patch:     exit", rc1)
        procs = {}
        for pid in pids:
            procs[pid] = subprocess.Popen([sys.executable, "-m", "sa.check", pid, "--no-evidence"], cwd=VERIF, stdout=subprocess.PIPE,
                                          stderr=subprocess.STDOUT, text=True, env=dict(os.environ, VERIF_JOBS="2"))
        for pid, p in procs.items():
            out, _ = p.communicate()
            lines = [l for l in out.splitlines() if l.startswith(("  rule=", "ANALYSIS-ERROR"))]
            res["checks"][pid] = {"exit": p.returncode, "first": lines[:3]}
            if p.returncode:
                print("  %s exit %d  %s" % (pid, p.returncode, (lines[0].strip() if lines else "")[:160]))
    finally:
        sh("git -C %s checkout -- ." % REPO)
    rc, out = sh("git -C %s status --porcelain" % REPO)
    assert not out.strip(), "repo not clean after undo"
    fired = sorted(p for p, v in res["checks"].items() if v["exit"] == 1)
    errs = sorted(p for p, v in res["checks"].items() if v["exit"] == 2)
    print("fired:", fired, "analysis errors:", errs)
    json.dump(res, open(os.path.join(d, "eval.json"), "w"), indent=1)
    return 0


if __name__ == "__main__":
    sys.exit(main())
