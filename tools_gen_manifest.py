#!/usr/bin/env python3
"""Regenerates MANIFEST.json from the table below (run after adding a check)."""
import json, os
HERE = os.path.dirname(os.path.abspath(__file__))
props = [json.loads(l) for l in open(os.path.join(HERE, "properties.jsonl"))]

CLAIMED = {
 "C13": dict(cat="other", technique="abstract interpretation of generators -> op trace; symbolic store execution; normal-form equality with documented closed forms; region algebra with asymptotic bound ordering",
             text="For every public grid-kernel generator and option combination the resolved summary of the returned callable (wrapper plumbing inlined, arbitrary array contents, symbolic grid sizes) equals the documented closed form on the documented region, the ring/zone is as documented, and no other argument is written. Decides the property up to pystencils' own semantics.",
             note="trusted: A1 pystencils 1.x iteration-space rule, A2 exact literals, A3 numpy slicing/broadcast, A7 the analyser, A8 distinct arguments; strided-view behaviour is pystencils'", ref="5 C13"),
}
NA = {
 "C02": "convergence rates / error bounds of the assembled nonlinear scheme quantify over run-time numerical error across resolutions; no sound static argument in reach bounds global discretisation error (consistency, step-size admissibility and operator sequence are claimed under C05, C16, C01)",
}
checks = []
for pid, c in sorted(CLAIMED.items()):
    checks.append({
        "property_id": pid,
        "quick_cmd": "python3 -m sa.check %s --tier quick" % pid,
        "thorough_cmd": "python3 -m sa.check %s --tier thorough" % pid,
        "evidence_file": "evidence/%s.json" % pid,
        "replay_cmd_template": "cat {path}",
        "engine": "sa",
        "level_claimed": {"category": c["cat"], "text": c["text"], "design_ref": c["ref"]},
        "level_note": c["note"],
        "technique": c["technique"],
    })
na = []
for p in props:
    if p["id"] in CLAIMED:
        continue
    na.append({"property_id": p["id"], "reason": NA.get(p["id"], "check not built yet (work in progress); planned decision procedure in DESIGN.md section 5")})
m = {
 "version": 1,
 "setup_cmd": "python3 -m sa.selfcheck --fast",
 "hooks": {"guard": "SOPHT_VERIF", "enable": "none needed: static analysis reads /repo's source, no instrumentation is compiled in",
           "baseline_off_cmd": "cd /repo && /venv/bin/python -m pytest -ra -q -p no:cacheprovider --timeout=900 --continue-on-collection-errors",
           "source_commits": [], "add_only": True},
 "engines": [{"name": "sa", "path": "sa/", "serves_properties": sorted(CLAIMED),
              "kind_free_text": "ast-based partial evaluator + exact polynomial algebra + symbolic store executor (stdlib only, python3 >= 3.10); never imports or runs sopht"}],
 "checks": checks,
 "notes": "Static analysis only (see DESIGN.md). Exit 0 = held, 1 = VIOLATION lines, 2 = ANALYSIS-ERROR (unsupported construct / vanished anchor / inventory shortfall).",
 "not_applicable": na,
}
json.dump(m, open(os.path.join(HERE, "MANIFEST.json"), "w"), indent=1)
print("claimed:", sorted(CLAIMED), "n/a:", [x["property_id"] for x in na])
