#!/usr/bin/env python3
"""Regenerates MANIFEST.json from the table below (run after adding a check)."""
import json, os
HERE = os.path.dirname(os.path.abspath(__file__))
props = [json.loads(l) for l in open(os.path.join(HERE, "properties.jsonl"))]

CLAIMED = {
 "C01": dict(cat="other", technique="abstract interpretation of time_step per configuration -> op trace -> symbolic store stage definitions; stage-by-stage normal-form equality with the documented operator sequence; structural recognition of the Poisson chain; clock rule",
             text="For every configuration (forcing, free stream, zone width, filter type/order, Poisson solver; scalar/vector passive transport) the step is exactly the documented operator sequence: operands, prefactors as rational functions of dt, dx, nu, rho, interior/ring/zone regions, Poisson stage wired to the current vorticity, velocity = curl(psi)/(2dx) + free stream, forcing zero on return, time += dt once after the step. Decides the structural clauses; floating-point agreement with an independent reference implementation is the stated remainder.",
             note="remainder: FFT / compiled-kernel numerics; trusted A1, A2, A3, A5, A7", ref="5 C01"),
 "C03": dict(cat="other", technique="abstract instantiation of the solver classes with symbolic sizes; closed form of the sampled kernel read from the numpy expression that builds it (exact log / power / radical rules) vs the documented Green's function; symbolic-store recognition of the solve chain; dependence roots; FFT plan shapes",
             text="Decides the wiring clauses: FFTs on exactly the doubled grid in array axis order, full-axis inverse pair; sampled kernel = -ln r/(2 pi) (2D) / 1/(4 pi r) (3D) at even-reflected cell separations with the documented self-cell value, times dx^dim, axis-symmetric; solve = zero-padded copy-in -> forward FFT -> complex product with the precomputed kernel -> backward FFT -> copy-out from the same corner; solution depends on the right-hand side and the immutable kernel only (independent of earlier solves); vector solve = three solves i->i. Numerical equality with the aperiodic convolution then follows from the convolution theorem (A5); rounding is the remainder.",
             note="remainder: floating-point behaviour of FFTW; trusted A1, A3, A5, A7", ref="5 C03"),
 "C04": dict(cat="proof", technique="piecewise-polynomial identity shift(front face kernel)+back face kernel == 0; telescoping criterion on extracted flux increments; stage-by-stage increments of the symbolic step transformer",
             text="Exact conservation form of the ENO3 face kernels for every axis, dimension and upwind branch; zero coefficient sums of every linear flux (diffusion, curl-type updates, filters); every stage of the conserved field in every simulator configuration is prev + conservative/telescoping increment with homogeneous boundary pieces. Polynomial identities over Q: all field values, grid sizes and sign patterns at once.",
             note="exact arithmetic (rounding excluded, as the property states); trusted A1, A2, A7", ref="5 C04"),
 "C05": dict(cat="proof", technique="moment conditions: extracted wrapper-resolved stencils applied to generic degree<=2 (ENO3: branchwise cubic/quadratic) polynomials with symbolic coefficients vs documented continuous operators; closed form of the coordinate field",
             text="Every differential stencil equals its documented continuous operator on all polynomials of degree <= 2 (sign, axis and prefactor conventions included); ENO3 per upwind-branch combination; coordinate field axis convention from _init_domain.",
             note="trusted A1, A2, A7; continuous operators written from docstrings/comments in sa/props/c05.py", ref="5 C05"),
 "C06": dict(cat="other", technique="abstract interpretation of the numba communicator kernels as numpy code (one generic marker); closed forms of nearest index, support distances and weights as functions of symbolic cell distances; ordered-region evaluation on r in [0,1] with exact trigonometric / radical normal forms; interval sign rules",
             text="Decides the real-arithmetic clauses: nearest index = floor((x-shift)/dx); support distances, weight block (4 per direction) and both transfer windows are one index set with x on the last array axis; both kernels factor into one-directional functions whose four values at j-r sum to a constant with total 1/dx^dim (sum * cell volume = 1) for all r in [0,1] including the endpoints (rounding case), are non-negative there, and Peskin has zero first moment; default grid shift dx/2 agrees with the simulator's cell centres. Floating-point evaluation of the weights is the stated remainder.",
             note="remainder: fastmath/ulp behaviour; kernel width 2 (the only width the kernels accept); trusted A2, A4, A7", ref="5 C06"),
 "C07": dict(cat="other", technique="sibling agreement of the two transfer kernels from one abstractly interpreted generic loop iteration each: window bounds, weight views, component pairing and factors compared as normal forms; accumulate/assign classification; call-site argument identity",
             text="Interpolation is lag[c,i] = dx^dim * sum(eul[c,W_i] * w[...,i]) and spreading is eul[c,W_i] += lag[c,i] * w[...,i] with the identical window W_i, identical weight view, component c->c, the cell-volume factor exactly once, += in a serial range loop, for scalar and vector variants in 2D and 3D; in the forcing class both directions receive the same weights and index arrays with no write in between. Adjointness and force (with C06: torque) conservation follow term by term.",
             note="rounding excluded; trusted A4, A7", ref="5 C07"),
 "C08": dict(cat="other", technique="pointwise-tensor abstract interpretation of transfer_forcing_from_grid_to_body over one generic element/marker: polynomial component algebra, linear marker sums, nodal accumulation as (next-node, previous-node) contributions, frame typing; symbolic execution of the prefix-sum marker partition; AST rule on FlowForces",
             text="Decides the structural identities: per element the nodal contributions sum to minus the element's marker forces and are split 1/2-1/2; couples equal Q * sum((x_marker - centre) x (-f)) with the code's own marker positions (edge: mirrored arms; 2D cylinder: Q22 * z-couple), converted lab->material exactly once; marker slices partition the markers; rigid bodies: force = -sum f, couple about the body centre; FlowForces adds after recomputing. Net force / moment / power identities follow by summation for any element count, taper, cap option and surface density.",
             note="numerical values are the remainder; the nodal grid's end-element torque correction is outside the property; trusted A6 (PyElastica conventions), A7", ref="5 C08"),
 "C09": dict(cat="other", technique="pointwise-tensor abstract interpretation of compute_lag_grid_position_field / _velocity_field of all forcing-grid classes; polynomial identities against the documented kinematics; frame typing; typestate rule over call sites",
             text="Positions equal centre + Q^T (local offset) * radius (surface: radius * cap ratio; edge: centre +- r (z x t); sphere: centre + fixed lab offsets; nodal / element-centric: node values / element centres) and velocities equal v_centre + (Q^T omega) x (x_marker - X_centre) with the code's own marker positions, for all poses and velocities (polynomial identities); frames never mix; every velocity evaluation is immediately preceded by the position evaluation on the same grid.",
             note="the second-order pose-advance clause follows for body-fixed markers and is not separately decided; trusted A6, A7", ref="5 C09"),
 "C10": dict(cat="other", technique="abstract instantiation of the interaction class with a stub forcing grid; enumeration of all stores into the integral / flow velocity / instance attributes over the traces of every entry point; elementwise reading of the whole-array numba kernels; accumulate/assign classification of the spread; package-wide AST who-may-write scan",
             text="Single writer of the position-mismatch integral (time_step, Euler forward with the caller's dt, time += dt once); evaluation entry points never write it, the flow velocity, or instance attributes; extracted law V = u_interp - u_body, F = k P + c V; both coefficients scaled by max spacing^(dim-1) exactly once; every pipeline stage reads what the previous stage produced; reset mode = zero fill + accumulate, otherwise accumulate only. By induction over the single writer this is the property for all call histories.",
             note="body-state purity of concrete forcing grids is analysed with C08/C09; trusted A4, A7", ref="5 C10"),
 "C11": dict(cat="other", technique="closed forms of the banded operator matrices; provenance terms of the eigen arrays (sort order, shared permutation, null-mode index); index-signature evaluation of tensordot / transpose / multi_dot over the solve trace; dtype-kind flow of numpy.linalg.eig results into real out= arrays",
             text="Per axis the operator is (1/dx^2) tridiag(-1,2,-1) with both corner diagonals 1/dx^2; eigenvalues and eigenvector columns are permuted by the same sort and the infinite entry sits at the smallest eigenvalue of every axis; along each axis the field undergoes V^-1, division by the sum of that axis' eigenvalues (indexed z,y,x), V, and the axes return in order; possibly-complex eigen factors never reach a real out= array; vector solve pairs component i with i. LAPACK accuracy is the remainder.",
             note="remainder: accuracy of the eigendecomposition/inverse; trusted A3, A7", ref="5 C11"),
 "C12": dict(cat="proof", technique="composition of extracted stencils as polynomial substitution; normal form of the difference must be 0",
             text="div curl = 0, div(update-id) = 0, 2D div(curl psi) = 0, curl curl psi = wide negative Laplacian, update_from_forcing = id + library curl, penalised update = forcing update of the difference; monitor binding and write set from the simulator trace.",
             note="exact arithmetic at cells whose stencils do not touch the ring; trusted A1, A2, A7", ref="5 C12"),
 "C14": dict(cat="other", technique="sibling agreement under the grid symmetry group: generators applied to the cells (boxes, offsets, components, index and size symbols) of every stage definition and kernel summary; piecewise equality modulo ties",
             text="Every stage of the simulator step in the analysed configurations, and every axis-structured public kernel, is equivariant under axis transposition / cyclic permutation / mirrors with the proper (pseudo)tensor signs; boundary cells are compared under the property's proviso (fields vanish within reach of the boundary).",
             note="equivariance of FFTW/LAPACK trusted (A3/A5); Poisson-kernel isotropy belongs to C03/C11", ref="5 C14"),
 "C15": dict(cat="other", technique="per-stencil dependence rule on extracted IR; per-launch may-alias analysis of resolved array bindings over all op traces; AST rule for serial numba accumulation",
             text="Exactly the statement: (a) every stencil reads the fields it writes at the written cell only, (b) in every kernel launch of every generator/simulator/solver/coupling trace no written argument may-aliases a neighbour-read or differently indexed argument, (c) spreading loops are serial. Thread count and iteration order are then irrelevant.",
             note="trusted A1, A3 (overlap-safe numpy slice assignment), A4 (numba serial order), A7, A8; all 63 stencil definitions must be reached (else exit 2)", ref="5 C15"),
 "C16": dict(cat="other", technique="abstract evaluation of compute_stable_timestep; sign analysis of rational functions over positive symbols; weights of the extracted diffusion update",
             text="The returned step is min(advective, diffusive) * prefactor, positive and finite; dt*V/dx - cfl <= 0 and nu*dt/dx^2 - 0.9/(2 dim) <= 0 as sign facts for all positive parameters and V >= 0; V is the grid maximum of sum_c |u_c|; with p <= 0.9/(2 dim) the diffusion update is a convex average with centre weight >= 0.1 and the ring is unchanged.",
             note="nu = 0 is outside (remainder); trusted A2, A3, A7", ref="5 C16"),
 "C17": dict(cat="other", technique="abstract interpretation of the IO class over a symbolic HDF5 tree with arrays of distinct unknown elements; element maps compared as functions of symbolic indices; rejection cases by construction of deficient files",
             text="Symbolic round trip for 2D/3D, symbolic marker count and the N == dim corner: layout (per-component Eulerian vectors with leading singleton axis, marker-major grids and Lagrangian vectors, time attribute), save writes no registered array, load assigns every element of every registered field and grid its saved value in place and returns the saved time; files lacking any registered field or grid, or with different origin / spacing / grid size, make load raise.",
             note="trusted: h5py stores/returns data bit-exactly; np.allclose of different unknown arrays is False; convenience IO classes only register through the base methods (C17.c)", ref="5 C17"),
 "C18": dict(cat="other", technique="region-precise liveness/dependence analysis by symbolic store execution of every step/interaction trace; structured dominance rules and an idiom table on the restart helper",
             text="No hidden state: the transitive roots of every public output after a step/interaction are public state or arrays the step never writes (scratch buffers are fully overwritten before they are read, with Interior(g)+ring coverage decided by the region algebra); only `time` is assigned; restart helper picks the largest index, raises on no checkpoint / time mismatch before use, returns the checkpoint time.",
             note="remainder: PyElastica's own load_state and h5py; IO round trip is C17; trusted A1, A3, A4, A5, A7", ref="5 C18"),
 "C19": dict(cat="other", technique="sign analysis of extracted rational forms; ordered-region decomposition of the extracted piecewise Heaviside with closed-form derivative and parity; per-layer evaluation of extracted zone factors; Chebyshev conversion of extracted filter composites to Fourier multipliers; dependence roots for buffer independence",
             text="Brinkmann (2D/3D/fixed value/Lagrangian): convex combination, identity at zero indicator, target in the large-penalty limit; Heaviside: 0/blend/1 regions at +-w, exact endpoint values, non-decreasing, H(phi)+H(-phi)=1; zone damping widths 0..6: untouched outside, inner-edge value times sin(pi r), 0<=r<1/2, outermost ring 0; filters orders 1..5 both types: multiplier 1-(s_x s_y s_z)^n or prod(1-s_a^n) in [0,1], 1 at constants, 0 at the checkerboard, independent of prior buffer contents.",
             note="real arithmetic (rounding excluded); trusted A1, A2, A4, A7", ref="5 C19"),
 "C20": dict(cat="proof", technique="symbolic execution of the time-step wrappers; Euler operator A extracted from the Euler kernel and composed (A, A^2, A^3); equality of normal forms",
             text="Euler kernels equal field + step*flux(field) with the library's own flux kernels and the unscaled step; SSP-RK3 summary equals (I + A + A^2/2 + A^3/6) omega with A the extracted Euler operator for the same step.",
             note="deep-interior cells (ring handling is C13/C18); trusted A1, A2, A7", ref="5 C20"),
 "C13": dict(cat="other", technique="abstract interpretation of generators -> op trace; symbolic store execution; normal-form equality with documented closed forms; region algebra with asymptotic bound ordering; second call on the same generated object compared by effect trace, re-summarised when it differs",
             text="For every public grid-kernel generator and option combination the resolved summary of the returned callable (wrapper plumbing inlined, arbitrary array contents, symbolic grid sizes) equals the documented closed form on the documented region, the ring/zone is as documented, and no other argument is written; a second call on the same generated kernel does the same (C13.h). Decides the property up to pystencils' own semantics.",
             note="trusted: A1 pystencils 1.x iteration-space rule, A2 exact literals, A3 numpy slicing/broadcast, A7 the analyser, A8 distinct arguments; strided-view behaviour is pystencils'", ref="5 C13"),
}
NA = {
 "C02": "convergence rates / error bounds of the assembled nonlinear scheme quantify over run-time numerical error across resolutions; no sound static argument in reach bounds global discretisation error (consistency, step-size admissibility and operator sequence are claimed under C05, C16, C01)",
}
checks = []
for pid, c in sorted(CLAIMED.items()):
    checks.append({
        "property_id": pid,
        "quick_cmd": "python3 -m sa.check %s --tier quick" % pid,
        "thorough_cmd": "python3 -m sa.check %s --tier thorough" % pid,
        "evidence_file": "evidence/%s.json" % pid,
        "replay_cmd_template": "cat {path}",
        "engine": "sa",
        "level_claimed": {"category": c["cat"], "text": c["text"], "design_ref": c["ref"]},
        "level_note": c["note"],
        "technique": c["technique"],
    })
na = []
for p in props:
    if p["id"] in CLAIMED:
        continue
    na.append({"property_id": p["id"], "reason": NA.get(p["id"], "check not built yet (work in progress); planned decision procedure in DESIGN.md section 5")})
m = {
 "version": 1,
 "setup_cmd": "python3 -m sa.selfcheck --fast",
 "hooks": {"guard": "SOPHT_VERIF", "enable": "none needed: static analysis reads /repo's source, no instrumentation is compiled in",
           "baseline_off_cmd": "cd /repo && /venv/bin/python -m pytest -ra -q -p no:cacheprovider --timeout=900 --continue-on-collection-errors",
           "source_commits": [], "add_only": True},
 "engines": [{"name": "sa", "path": "sa/", "serves_properties": sorted(CLAIMED),
              "kind_free_text": "ast-based partial evaluator + exact polynomial algebra + symbolic store executor (stdlib only, python3 >= 3.10); never imports or runs sopht"}],
 "checks": checks,
 "notes": "Static analysis only (see DESIGN.md). Exit 0 = held, 1 = VIOLATION lines, 2 = ANALYSIS-ERROR (unsupported construct / vanished anchor / inventory shortfall).",
 "not_applicable": na,
}
json.dump(m, open(os.path.join(HERE, "MANIFEST.json"), "w"), indent=1)
print("claimed:", sorted(CLAIMED), "n/a:", [x["property_id"] for x in na])
