#!/usr/bin/env python3
"""Rewrite the table of seeded changes in DESIGN.md (between the SEEDED_TABLE markers) from seeded/*/meta.json."""
import glob, json, os, re

here = os.path.dirname(os.path.abspath(__file__))
rows = []
for m in sorted(glob.glob(os.path.join(here, "seeded", "*", "meta.json"))):
    d = json.load(open(m))
    name = os.path.basename(os.path.dirname(m))
    fired = d.get("checks_that_report_it", [])
    first = d.get("first_report", {})
    own = d["property_broken"]
    rule = first.get(own) or (first.get(fired[0]) if fired else "")
    rule = re.sub(r"^rule=(\S+) instance=", r"`\1` ", rule or "")
    rows.append("| `%s` | %s | %s | %s | %s |" % (name, own, d["needs_to_manifest"], ", ".join(fired) or "**none**", rule[:150].replace("|", "\\|")))
head = ("Each row is one change written by a sub-agent that saw only the property text and a scratch worktree; it compiles, keeps the 414\n"
        "pinned tests passing, and its demonstration (`demo.py`, run with the pystencils shim) exits 0 on the clean tree and 1 with the\n"
        "patch; `meta.json` records what was run.  `tools_seed_eval.py <dir>` applies the patch to /repo, runs every quick check and\n"
        "undoes it.\n\n"
        "| seeded change | property | needs, to manifest | checks that report it | first report of the property's own check |\n|---|---|---|---|---|\n")
body = head + "\n".join(rows) + "\n"
p = os.path.join(here, "DESIGN.md")
s = open(p).read()
if "<!-- SEEDED_TABLE_BEGIN -->" in s:
    s = re.sub(r"<!-- SEEDED_TABLE_BEGIN -->.*?<!-- SEEDED_TABLE_END -->", lambda m: "<!-- SEEDED_TABLE_BEGIN -->\n" + body + "<!-- SEEDED_TABLE_END -->", s, flags=re.S)
else:
    s = s.replace("SEEDED_TABLE\n", "<!-- SEEDED_TABLE_BEGIN -->\n" + body + "<!-- SEEDED_TABLE_END -->\n", 1)
open(p, "w").write(s)
print(len(rows), "rows")
