"""Structured control-flow facts for ordinary (non-generator) functions (DESIGN 4.5).

The functions analysed with it (IO, restart helper, forcing grids) are structured code without
goto-like flow; dominance is decided on the statement tree: statement A dominates statement B when A
precedes, in some enclosing block of B, the statement of that block that contains B, and A itself is
unconditional in that block."""
from __future__ import annotations

import ast


def always_raises(stmts):
    """does every path through the statement list end in raise?"""
    for st in stmts:
        if isinstance(st, ast.Raise):
            return True
        if isinstance(st, ast.If) and st.orelse and always_raises(st.body) and always_raises(st.orelse):
            return True
    return False


class FunctionFacts:
    def __init__(self, fn):
        self.fn = fn
        self.parent = {}
        self.block_of = {}
        self._index(fn.body, fn)

    def _index(self, stmts, owner):
        for i, st in enumerate(stmts):
            self.parent[id(st)] = owner
            self.block_of[id(st)] = (stmts, i)
            for field in ("body", "orelse", "finalbody"):
                sub = getattr(st, field, None)
                if isinstance(sub, list) and sub and isinstance(sub[0], ast.stmt):
                    self._index(sub, st)
            if isinstance(st, ast.Try):
                for h in st.handlers:
                    self._index(h.body, st)
            if isinstance(st, ast.Match):
                for c in st.cases:
                    self._index(c.body, st)

    # ------------------------------------------------------------ lookup
    def stmt_of(self, node):
        """innermost statement containing an expression node"""
        for st in ast.walk(self.fn):
            if isinstance(st, ast.stmt) and id(st) in self.block_of:
                for n in ast.walk(st):
                    if n is node:
                        best = st
                        # descend to innermost
                        changed = True
                        while changed:
                            changed = False
                            for field in ("body", "orelse", "finalbody"):
                                for sub in getattr(best, field, []) or []:
                                    if isinstance(sub, ast.stmt) and any(x is node for x in ast.walk(sub)):
                                        best = sub
                                        changed = True
                                        break
                                if changed:
                                    break
                        return best
        return None

    def assignments(self, name):
        out = []
        for st in ast.walk(self.fn):
            if isinstance(st, ast.Assign):
                for t in st.targets:
                    if isinstance(t, ast.Name) and t.id == name:
                        out.append(st)
            elif isinstance(st, ast.AnnAssign) and isinstance(st.target, ast.Name) and st.target.id == name and st.value is not None:
                out.append(st)
            elif isinstance(st, ast.AugAssign) and isinstance(st.target, ast.Name) and st.target.id == name:
                out.append(st)
        return out

    def single_assignment(self, name):
        a = self.assignments(name)
        if len(a) != 1 or isinstance(a[0], ast.AugAssign):
            return None
        return a[0].value

    def calls_matching(self, pred):
        return [n for n in ast.walk(self.fn) if isinstance(n, ast.Call) and pred(n)]

    def returns(self):
        return [n for n in ast.walk(self.fn) if isinstance(n, ast.Return)]

    def return_exprs(self):
        return [ast.unparse(r.value) if r.value is not None else None for r in self.returns()]

    def all_returns_are(self, name):
        rs = self.returns()
        return bool(rs) and all(isinstance(r.value, ast.Name) and r.value.id == name for r in rs)

    # ------------------------------------------------------------ dominance on the statement tree
    def dominates(self, a, b):
        """statement a dominates statement/expression b"""
        if not isinstance(b, ast.stmt):
            b = self.stmt_of(b)
        if b is None:
            return False
        blk_a, ia = self.block_of[id(a)]
        cur = b
        while cur is not None and id(cur) in self.block_of:
            blk, i = self.block_of[id(cur)]
            if blk is blk_a:
                return ia < i
            cur = self.parent.get(id(cur))
            if cur is self.fn:
                break
        return False

    def dominates_all(self, a, nodes):
        return all(self.dominates(a, n) for n in nodes)

    def guards(self, test_pred):
        """If statements whose test satisfies test_pred and whose body always raises"""
        out = []
        for st in ast.walk(self.fn):
            if isinstance(st, ast.If) and always_raises(st.body) and test_pred(st.test):
                out.append(st)
        return out

    def raise_guard_on_empty(self, name):
        def pred(t):
            s = ast.unparse(t).replace(" ", "")
            return s in ("len(%s)==0" % name, "not%s" % name, "len(%s)<1" % name, "not len(%s)" % name, "notlen(%s)" % name,
                         "%s==[]" % name, "len(%s)<=0" % name)
        g = self.guards(pred)
        return g[0] if g else None

    def raise_on_condition_dominates_returns(self, cmp_pred):
        def pred(t):
            return isinstance(t, ast.Compare) and len(t.ops) == 1 and cmp_pred(t)
        gs = self.guards(pred)
        if not gs:
            return False
        return any(all(self.dominates(g, r) for r in self.returns()) for g in gs)
