"""setup_cmd: verify the engine imports and /repo parses (no build step)."""
import ast, os, sys

def main():
    repo = os.environ.get("SOPHT_REPO", "/repo")
    n = 0
    for root, _, files in os.walk(os.path.join(repo, "sopht")):
        for f in files:
            if f.endswith(".py"):
                with open(os.path.join(root, f)) as fh:
                    ast.parse(fh.read())
                n += 1
    if n < 60:
        print(f"ANALYSIS-ERROR: only {n} source files under {repo}/sopht")
        return 2
    print(f"selfcheck: parsed {n} files under {repo}/sopht")
    return 0

if __name__ == "__main__":
    sys.exit(main())
