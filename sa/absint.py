"""Partial evaluator over /repo's syntax trees (DESIGN 4.3).

Interprets exactly the Python subset SophT's generators, simulators and solvers use,
over abstract values (sa.values), and records a flat op trace.  Nothing from sopht is
imported or executed.  Anything unknown raises Unsupported -> ANALYSIS-ERROR.
"""
from __future__ import annotations

import ast
import os
from fractions import Fraction

from . import poly
from .poly import PW, Cond, Poly, const as pconst, sym as psym, fld as pfld
from .values import *  # noqa: F401,F403
from .values import (Alloc, Arr, Bound, Class, DType, Ext, FFTPlan, Field, Func, Inst, Kernel,
                     KernelAST, KernelConfig, ModuleRef, Njit, Op, Opaque, RaisedInAnalysed, Scope,
                     SliceVal, Static, StencilAssign, StencilDef, Super, Unsupported, is_num,
                     is_scalar, simplify_scalar, to_pw)

EXTERNAL_ROOTS = {
    "numpy": "numpy", "pystencils": "pystencils", "sympy": "sympy", "numba": "numba",
    "pyfftw": "pyfftw", "scipy": "scipy", "logging": "logging", "typing": "typing",
    "typing_extensions": "typing_extensions", "collections": "collections", "abc": "abc",
    "elastica": "elastica", "h5py": "h5py", "os": "os", "pathlib": "pathlib", "re": "re",
    "matplotlib": "matplotlib", "subprocess": "subprocess", "shutil": "shutil", "glob": "glob",
    "itertools": "itertools", "math": "math", "warnings": "warnings", "sys": "sys",
}


class _Return(Exception):
    def __init__(self, value):
        self.value = value


class _Continue(Exception):
    pass


class Interp:
    def __init__(self, repo="/repo"):
        self.repo = repo
        self.modules = {}        # name -> Scope
        self.loading = set()
        self.trace = []
        self.problems = []       # definite run-time failures found while interpreting
        self.memoised = []       # (Func, typed, where) for every function wrapped in functools.cache / lru_cache
        self.stencils = []       # every StencilDef created
        self.kernels = []        # every Kernel created
        self.call_depth = 0
        self.call_stack = []
        self.alloc_labels = {}
        self.in_stencil = None
        self.files_read = set()
        self.stmt_hooks = []     # callables(kind, func, stmt)
        from . import extlib
        self.ext = extlib.ExtLib(self)

    # ------------------------------------------------------------------ modules
    def module_path(self, name):
        p = os.path.join(self.repo, *name.split("."))
        if os.path.isdir(p):
            return os.path.join(p, "__init__.py"), True
        return p + ".py", False

    def is_internal(self, name):
        return name == "sopht" or name.startswith("sopht.")

    def load_module(self, name):
        if name in self.modules:
            return self.modules[name]
        path, is_pkg = self.module_path(name)
        if not os.path.exists(path):
            raise Unsupported("module %s not found at %s" % (name, path))
        with open(path) as fh:
            src = fh.read()
        self.files_read.add(os.path.relpath(path, self.repo))
        tree = ast.parse(src, filename=path)
        scope = Scope(None, name)
        scope.vars["__name__"] = name
        scope.vars["__file__"] = path
        scope.module = name
        scope.is_pkg = is_pkg
        scope.tree = tree
        self.modules[name] = scope
        self.loading.add(name)
        try:
            self.exec_block(tree.body, scope, scope)
        finally:
            self.loading.discard(name)
        return scope

    def load_source(self, name, src):
        """evaluate analysis-side helper source (stubs standing in for user-supplied classes)"""
        tree = ast.parse(src, filename="<%s>" % name)
        scope = Scope(None, name)
        scope.vars["__name__"] = name
        scope.module = name
        scope.is_pkg = False
        scope.tree = tree
        self.modules[name] = scope
        self.exec_block(tree.body, scope, scope)
        return scope

    def resolve_relative(self, modscope, level, module):
        base = modscope.module.split(".")
        if not modscope.is_pkg:
            base = base[:-1]
        if level > 1:
            base = base[: len(base) - (level - 1)]
        if module:
            base = base + module.split(".")
        return ".".join(base)

    def module_attr(self, modname, attr):
        if self.is_internal(modname):
            # submodule?
            sub = modname + "." + attr
            scope = self.load_module(modname)
            if attr in scope.vars:
                return scope.vars[attr]
            p, _ = self.module_path(sub)
            if os.path.exists(p):
                return ModuleRef(sub)
            raise Unsupported("module %s has no attribute %s" % (modname, attr))
        return Ext(modname + "." + attr)

    # ------------------------------------------------------------------ statements
    def exec_block(self, stmts, scope, modscope):
        for st in stmts:
            self.exec_stmt(st, scope, modscope)

    def where(self, node, modscope):
        return "%s:%d" % (getattr(modscope, "module", "?"), getattr(node, "lineno", 0))

    def exec_stmt(self, st, scope, modscope):
        m = getattr(self, "st_" + type(st).__name__, None)
        if m is None:
            raise Unsupported("statement %s at %s" % (type(st).__name__, self.where(st, modscope)))
        for h in self.stmt_hooks:
            h(st, scope, modscope)
        m(st, scope, modscope)

    def st_Expr(self, st, scope, ms):
        if isinstance(st.value, ast.Constant):
            return
        self.eval(st.value, scope, ms)

    def st_Pass(self, st, scope, ms):
        pass

    def st_Continue(self, st, scope, ms):
        raise _Continue()

    def st_Import(self, st, scope, ms):
        for al in st.names:
            root = al.name.split(".")[0]
            if self.is_internal(al.name):
                val = ModuleRef(al.name)
                if al.asname:
                    scope.vars[al.asname] = val
                else:
                    scope.vars[root] = ModuleRef(root)
            else:
                if al.asname:
                    scope.vars[al.asname] = Ext(al.name)
                else:
                    scope.vars[root] = Ext(root)

    def st_ImportFrom(self, st, scope, ms):
        if st.level:
            modname = self.resolve_relative(ms, st.level, st.module)
        else:
            modname = st.module
        for al in st.names:
            nm = al.asname or al.name
            if self.is_internal(modname):
                scope.vars[nm] = self.module_attr(modname, al.name)
            else:
                scope.vars[nm] = self.ext.attr(Ext(modname), al.name)

    def make_func(self, st, scope, ms, cls=None, qual=None):
        defaults = [self.eval(d, scope, ms) for d in st.args.defaults]
        kwdefaults = [None if d is None else self.eval(d, scope, ms) for d in st.args.kw_defaults]
        q = qual or (self.qual_prefix(scope) + st.name)
        return Func(st, scope, ms, q, defaults, kwdefaults, cls)

    def qual_prefix(self, scope):
        names = []
        s = scope
        while s is not None and s.parent is not None:
            if s.name:
                names.append(s.name)
            s = s.parent
        return ".".join(reversed(names)) + ("." if names else "")

    def st_FunctionDef(self, st, scope, ms, cls=None):
        fn = self.make_func(st, scope, ms, cls)
        val = fn
        for dec in reversed(st.decorator_list):
            d = self.eval(dec, scope, ms)
            val = self.apply_decorator(d, val, st, scope, ms)
        scope.vars[st.name] = val
        return val

    def apply_decorator(self, d, val, st, scope, ms):
        if isinstance(d, Ext):
            p = d.path
            if p in ("typing_extensions.override", "typing.override", "abc.abstractmethod",
                     "typing.final", "functools.wraps"):
                return val
            if p == "pystencils.kernel":
                return self.run_stencil(val, st, ms)
            if p == "numba.njit":
                return Njit(val, {})
            if p in ("functools.cache", "functools.lru_cache") and isinstance(val, Func):
                # a memoised function is analysed as its body (what the call for a fresh key computes); that the memo key
                # determines the result is a separate obligation (props.common.memo_key_rule)
                self.memoised.append((val, False, self.where(st, ms)))
                return val
        if isinstance(d, Opaque) and d.tag == "memo-decorator" and isinstance(val, Func):
            self.memoised.append((val, bool(d.info.get("typed")), self.where(st, ms)))
            return val
        if isinstance(d, Opaque) and d.tag == "njit-decorator":
            return Njit(val, d.info)
        if isinstance(d, Opaque) and d.tag == "builtin" and d.info == "staticmethod":
            return Static(val)
        if isinstance(d, Opaque) and d.tag == "builtin" and d.info == "property":
            raise Unsupported("property decorator at %s" % self.where(st, ms))
        raise Unsupported("decorator %r at %s" % (d, self.where(st, ms)))

    def st_ClassDef(self, st, scope, ms):
        bases = [self.eval(b, scope, ms) for b in st.bases]
        cscope = Scope(scope, st.name)
        cls = Class(st.name, bases, cscope.vars, ms.module, st)
        cscope.is_class = True
        for s in st.body:
            if isinstance(s, ast.FunctionDef):
                # methods close over the *enclosing* scope, not the class body
                fn = self.make_func(s, scope, ms, cls, qual=self.qual_prefix(scope) + st.name + "." + s.name)
                val = fn
                for dec in reversed(s.decorator_list):
                    d = self.eval(dec, scope, ms)
                    val = self.apply_decorator(d, val, s, scope, ms)
                cscope.vars[s.name] = val
            elif isinstance(s, ast.Expr) and isinstance(s.value, ast.Constant):
                continue
            elif isinstance(s, (ast.Assign, ast.AnnAssign, ast.Pass)):
                self.exec_stmt(s, cscope, ms)
            else:
                raise Unsupported("class body statement %s at %s" % (type(s).__name__, self.where(s, ms)))
        scope.vars[st.name] = cls

    def st_Return(self, st, scope, ms):
        raise _Return(None if st.value is None else self.eval(st.value, scope, ms))

    def st_Raise(self, st, scope, ms):
        exc = st.exc
        et, msg = "Exception", ""
        if isinstance(exc, ast.Call):
            et = ast.unparse(exc.func)
            if exc.args:
                try:
                    msg = self.eval(exc.args[0], scope, ms)
                except Unsupported:
                    msg = ast.unparse(exc.args[0])
        elif exc is not None:
            et = ast.unparse(exc)
        raise RaisedInAnalysed(et, str(msg), self.where(st, ms))

    def st_Delete(self, st, scope, ms):
        for t in st.targets:
            if isinstance(t, ast.Name):
                scope.vars.pop(t.id, None)
            else:
                raise Unsupported("del of non-name at %s" % self.where(st, ms))

    def st_Assert(self, st, scope, ms):
        v = self.eval(st.test, scope, ms)
        if v is False:
            raise RaisedInAnalysed("AssertionError", ast.unparse(st.test), self.where(st, ms))

    def st_Assign(self, st, scope, ms):
        v = self.eval(st.value, scope, ms)
        for t in st.targets:
            self.assign(t, v, scope, ms, st)

    def st_AnnAssign(self, st, scope, ms):
        if st.value is None:
            return
        v = self.eval(st.value, scope, ms)
        self.assign(st.target, v, scope, ms, st)

    def st_AugAssign(self, st, scope, ms):
        if isinstance(st.op, ast.MatMult):
            if self.in_stencil is None:
                raise Unsupported("@= outside a stencil at %s" % self.where(st, ms))
            tgt = st.target
            if not isinstance(tgt, ast.Subscript):
                raise Unsupported("@= target at %s" % self.where(st, ms))
            f = self.eval(tgt.value, scope, ms)
            if not isinstance(f, Field):
                raise Unsupported("@= on non-field at %s" % self.where(st, ms))
            off = self.eval_offset(tgt.slice, scope, ms)
            rhs = to_pw(self.eval(st.value, scope, ms))
            if len(off) != f.rank:
                self.problem("stencil-rank", "field %s of rank %d written with %d indices" % (f.name, f.rank, len(off)), st, ms)
            self.in_stencil.assigns.append(StencilAssign(f.name, off, rhs, st.lineno))
            return
        cur = self.eval(st.target, scope, ms)
        rhs = self.eval(st.value, scope, ms)
        if isinstance(cur, Arr):
            # in-place array update: dst op= rhs
            self.emit_slice_assign(cur, rhs, st, ms, aug=type(st.op).__name__)
            return
        if isinstance(st.target, ast.Subscript):
            base = self.eval(st.target.value, scope, ms)
            if isinstance(base, Arr):
                dst = self.index_array(base, self.eval_index(st.target.slice, scope, ms), st, ms)
                if isinstance(dst, Arr):
                    self.emit_slice_assign(dst, rhs, st, ms, aug=type(st.op).__name__)
                    return
                # a single element: recorded as an element store with its operator (content closed forms are not tracked through it)
                dst2 = self.index_array(base, self.eval_index(st.target.slice, scope, ms), st, ms, for_store=True)
                if isinstance(dst2, tuple) and dst2 and dst2[0] == "elem":
                    if dst2[1].alloc.valfn is not None:
                        dst2[1].alloc.valfn = None
                        dst2[1].alloc.valfn_lost = True
                    self.emit_slice_assign(dst2, rhs, st, ms, aug=type(st.op).__name__)
                    return
                raise Unsupported("augmented element assignment at %s" % self.where(st, ms))
        val = self.binop(st.op, cur, rhs, st, ms)
        self.assign(st.target, val, scope, ms, st, aug=True)

    def assign(self, t, v, scope, ms, st, aug=False):
        if isinstance(t, ast.Name):
            if isinstance(v, Arr) and v.alloc.label.startswith("_tmp"):
                v.alloc.label = t.id
            scope.vars[t.id] = v
        elif isinstance(t, (ast.Tuple, ast.List)):
            vals = self.unpack(v, len(t.elts), st, ms)
            for e, x in zip(t.elts, vals):
                self.assign(e, x, scope, ms, st)
        elif isinstance(t, ast.Attribute):
            obj = self.eval(t.value, scope, ms)
            self.set_attr(obj, t.attr, v, st, ms, aug)
        elif isinstance(t, ast.Subscript):
            base = self.eval(t.value, scope, ms)
            idx = self.eval_index(t.slice, scope, ms)
            self.store_subscript(base, idx, v, st, ms)
        else:
            raise Unsupported("assignment target %s at %s" % (type(t).__name__, self.where(st, ms)))

    def unpack(self, v, n, st, ms):
        if isinstance(v, (tuple, list)):
            if len(v) != n:
                raise Unsupported("unpack arity at %s" % self.where(st, ms))
            return list(v)
        if isinstance(v, Arr):
            sh = v.shape
            if is_num(sh[0]) and sh[0] == n:
                return [self.index_array(v, (i,), st, ms) for i in range(n)]
        if isinstance(v, Field) and n == 1:
            return [v]
        raise Unsupported("cannot unpack %r at %s" % (v, self.where(st, ms)))

    def set_attr(self, obj, attr, v, st, ms, aug=False):
        if isinstance(obj, Inst):
            if isinstance(v, Arr) and v.alloc.label.startswith("_tmp"):
                v.alloc.label = "%s.%s" % (obj.cls.name, attr)
            old = obj.attrs.get(attr)
            obj.attrs[attr] = v
            if obj.constructed:
                self.trace.append(Op("AttrSet", inst=obj, attr=attr, value=v, old=old, aug=aug,
                                     where=self.where(st, ms), stack=tuple(self.call_stack), node=st))
            return
        if isinstance(obj, Arr) and attr == "flags":
            raise Unsupported("flags assignment")
        if isinstance(obj, Opaque) and obj.tag == "arrflags":
            self.trace.append(Op("SetFlag", arr=obj.info, flag=attr, value=v, where=self.where(st, ms)))
            return
        if isinstance(obj, Opaque) and obj.tag in ("extobj", "h5attrs"):
            self.trace.append(Op("ExtAttrSet", obj=obj, attr=attr, value=v, where=self.where(st, ms)))
            return
        raise Unsupported("attribute store on %r at %s" % (obj, self.where(st, ms)))

    def store_subscript(self, base, idx, v, st, ms):
        if isinstance(base, Arr):
            mask = idx if isinstance(idx, Arr) else (idx[0] if isinstance(idx, tuple) and len(idx) == 1 and isinstance(idx[0], Arr) else None)
            if mask is not None and mask.dtype.name == "bool":
                return self.mask_assign(base, mask, v, st, ms)
            dst = self.index_array(base, idx, st, ms, for_store=True)
            self.emit_slice_assign(dst, v, st, ms)
            return
        if isinstance(base, dict):
            base[idx if not isinstance(idx, tuple) or len(idx) != 1 else idx[0]] = v
            return
        if isinstance(base, list):
            i = idx[0] if isinstance(idx, tuple) else idx
            base[i] = v
            return
        if hasattr(base, "sa_store"):
            base.sa_store(self, idx, v, st, ms)
            return
        if isinstance(base, Opaque):
            self.trace.append(Op("ExtStore", obj=base, index=idx, value=v, where=self.where(st, ms)))
            return
        raise Unsupported("subscript store on %r at %s" % (base, self.where(st, ms)))

    def mask_assign(self, base, mask, v, st, ms):
        """a[boolean array] = scalar: cell-wise selection between the new value and the old content"""
        from .extlib import arr_valfn
        if not is_scalar(v) or tuple(map(repr, mask.shape)) != tuple(map(repr, base.shape)) or not base.is_full():
            raise Unsupported("boolean-mask assignment other than full_array[mask_of_same_shape] = scalar at %s" % self.where(st, ms))
        self.trace.append(Op("MaskAssign", dst=base, mask=mask, src=v, where=self.where(st, ms), stack=tuple(self.call_stack), node=st))
        al = base.alloc
        al.cver = getattr(al, "cver", 0) + 1
        if not hasattr(al, "content_hist"):
            al.content_hist = []
        al.content_hist.append((al.cver, None, None))
        old = arr_valfn(base) if al.valfn is not None else None
        mf = arr_valfn(mask)
        if old is None or mf is None:
            al.valfn = None
            al.valfn_lost = True
            return
        val = to_pw(v)

        def newfn(ix, old=old, mf=mf, val=val):
            m = to_pw(mf(ix))           # indicator (1 where the mask holds, 0 elsewhere)
            ms_ = simplify_scalar(m)
            if is_num(ms_):
                return val if ms_ == 1 else to_pw(old(ix))      # decided cell: the other side is not evaluated (it may be log(0))
            return m * val + (pconst(1) - m) * to_pw(old(ix))
        al.valfn = newfn

    def emit_slice_assign(self, dst, src, st, ms, aug=None):
        """dst[...] = src (numpy basic-slice assignment, broadcasting)"""
        if not isinstance(dst, Arr):
            # element store dst is a ('elem', Arr, index) marker
            if isinstance(dst, tuple) and dst and dst[0] == "elem":
                _, arr, index = dst
                self.trace.append(Op("ElemAssign", arr=arr, index=index, value=src, aug=aug,
                                     where=self.where(st, ms), stack=tuple(self.call_stack)))
                if arr.alloc.valfn is not None and aug is None and is_scalar(src):
                    old = arr.alloc.valfn
                    tgt = tuple(to_pw(i) for i in index)
                    val = to_pw(src)

                    def newfn(ix, old=old, tgt=tgt, val=val):
                        # a symbolic index denotes a generic cell, which is not the overridden one
                        if all(to_pw(a) == b for a, b in zip(ix, tgt)):
                            return val
                        return old(ix)
                    arr.alloc.valfn = newfn
                    arr.alloc.overrides = getattr(arr.alloc, "overrides", []) + [(tgt, val)]
                return
            raise Unsupported("store target %r at %s" % (dst, self.where(st, ms)))
        self.trace.append(Op("SliceAssign", dst=dst, src=src, aug=aug, where=self.where(st, ms),
                             stack=tuple(self.call_stack), node=st))
        self.update_content(dst, src, aug)

    def update_content(self, dst, src, aug):
        """keep the closed form of an array current across numpy-level whole-array assignments"""
        from .extlib import arr_valfn, broadcast_shapes
        al = dst.alloc
        al.cver = getattr(al, "cver", 0) + 1
        if not hasattr(al, "content_hist"):
            al.content_hist = []
        if dst.is_full() and isinstance(src, Arr) and aug is None:
            al.content_hist.append((al.cver, src, getattr(src.alloc, "cver", 0) if src.alloc.id != al.id else al.cver - 1))
        else:
            al.content_hist.append((al.cver, None, None))
        if not dst.is_full():
            if al.valfn is not None:
                al.valfn = None
                al.valfn_lost = True
            return
        old = arr_valfn(dst) if al.valfn is not None else None
        new = None
        if isinstance(src, Arr):
            f = arr_valfn(src)
            if f is not None:
                ssh, dsh = src.shape, dst.shape
                pad = len(dsh) - len(ssh)
                if pad >= 0:
                    def new(idx, f=f, ssh=ssh, pad=pad):
                        sub = [pconst(0) if (is_num(simplify_scalar(d)) and simplify_scalar(d) == 1) else i for i, d in zip(idx[pad:], ssh)]
                        return f(tuple(sub))
        elif is_scalar(src):
            v = to_pw(src)
            new = lambda idx, v=v: v
        if aug is not None:
            if old is None or new is None:
                al.valfn = None
                return
            opn = {"Add": "add", "Sub": "sub", "Mult": "mul", "Div": "div"}.get(aug)
            if opn is None:
                al.valfn = None
                return
            rhs = new
            new = lambda idx, old=old, rhs=rhs, opn=opn: self.ext.scalar_op(opn, [old(idx), rhs(idx)])
        al.valfn = new

    def st_If(self, st, scope, ms):
        c = self.truth(self.eval(st.test, scope, ms), st, ms)
        self.exec_block(st.body if c else st.orelse, scope, ms)

    def truth(self, v, st, ms):
        if isinstance(v, bool):
            return v
        if v is None:
            return False
        if is_num(v):
            return v != 0
        if isinstance(v, (str, tuple, list, dict)):
            return len(v) > 0
        if isinstance(v, PW):
            s = simplify_scalar(v)
            if is_num(s):
                return s != 0
        if isinstance(v, Cond):
            # the algebra treats symbols as positive, which is right for structural quantities (dx, x_range, grid sizes, eps) but
            # not for free inputs such as a penalty factor, a step size or a viscosity, which may be zero or negative: a branch of
            # the analysed code on such an input is not decided by that convention
            from .extlib import ExtLib
            if getattr(self, "elem_bounds", None) is not None:
                d = self.decide_with_bounds(v)
                if d is not None:
                    return d
            structural = {"dx", "x_range", "eps", "pi", "nx", "ny", "nz", "h", "blend_width"}
            inputs = [a for a in v.p.atoms() if a[0] == "s" and a[1] not in structural and a[1] not in ExtLib.INT_SYMBOLS and not a[1].startswith("@")]
            if not inputs or v.p.is_const():
                d = v.decided()
                if d is not None:
                    return d
                d = self.decide_cond(v)
                if d is not None:
                    return d
            # an inequality between free scalar inputs (step sizes, coefficients, tolerances): both outcomes are feasible for the
            # quantified inputs and neither pins a value, so both are analysed as separate cases; on each path the symbols stay
            # free, i.e. identities checked there must hold as polynomial identities, which is what holding on an interval means
            from .extlib import ExtLib
            ats = list(v.p.atoms())
            sizes = ("nx", "ny", "nz")
            free = [a for a in ats if a[0] == "s" and a[1] not in ExtLib.INT_SYMBOLS and not a[1].startswith("@") and a[1] not in sizes]
            # (grid sizes may occur as factors, e.g. dt*nu*nx^2/x_range^2 < tol: for any sizes the free inputs reach both outcomes)
            if free and all(a[0] == "s" and (a in free or a[1] in sizes) for a in ats):
                from .regions import CURRENT_CASE, NeedDecision
                key = repr(v)
                d = CURRENT_CASE[0].decision(key)
                if d is None:
                    raise NeedDecision(key, "%r at %s" % (v, self.where(st, ms)))
                return d
        if isinstance(v, (Inst, Func, Bound, Kernel, Class)):
            return True
        if isinstance(v, PW) and v.is_leaf() and v.leaf.is_poly():
            fz = self.free_symbol_of(v)
            if fz is not None:
                # truthiness of a free scalar input (`if not shift:`): false exactly when the input is 0, so the false outcome
                # substitutes 0 for it; both outcomes are analysed
                from .regions import CURRENT_CASE, NeedDecision
                d = CURRENT_CASE[0].decision(fz)
                if d is None:
                    raise NeedDecision(fz, "truth value of %s at %s" % (fz, self.where(st, ms)))
                return d
            # truthiness of a whole-array reduction symbol (np.max(x) / x.min() ...) of an array with >= 2 elements: both
            # outcomes are feasible and neither pins an element, so both are analysed as separate cases
            from .poly import as_poly
            p = as_poly(v.leaf)
            red = getattr(self.ext, "reductions", {})
            if len(p.t) == 1:
                (m, c), = p.t.items()
                if len(m) == 1 and m[0][1] == 1 and m[0][0][0] == "s" and m[0][0][1] in red:
                    name = m[0][0][1]
                    arr = red[name][1]
                    n_el = 1
                    for sdim in arr.shape:
                        sd = simplify_scalar(sdim)
                        n_el = n_el * sd if isinstance(sd, int) and isinstance(n_el, int) else None
                        if n_el is None:
                            break
                    if n_el is None or n_el >= 2:
                        from .regions import CURRENT_CASE, NeedDecision
                        d = CURRENT_CASE[0].decision(name)
                        if d is None:
                            raise NeedDecision(name, "%s at %s" % (name, self.where(st, ms)))
                        return d
        raise Unsupported("undecidable branch condition %r at %s" % (v, self.where(st, ms)))

    # assumptions on symbols: every symbol is positive unless listed
    def free_symbol_of(self, v):
        """name of the symbol if v is exactly one free scalar input symbol (not a size, index, reduction or structural quantity)"""
        from .extlib import ExtLib
        from .poly import as_poly
        if not (isinstance(v, PW) and v.is_leaf() and v.leaf.is_poly()):
            return None
        p = as_poly(v.leaf)
        if len(p.t) != 1:
            return None
        (m, c), = p.t.items()
        if c != 1 or len(m) != 1 or m[0][1] != 1 or m[0][0][0] != "s":
            return None
        name = m[0][0][1]
        structural = {"dx", "x_range", "eps", "pi", "nx", "ny", "nz", "h", "blend_width"}
        if name in structural or name in ExtLib.INT_SYMBOLS or name.startswith("@") or name in getattr(self.ext, "reductions", {}) \
                or "[" in name or "(" in name:
            return None
        return name

    def decide_with_bounds(self, c):
        """a comparison that is affine in ONE input element with declared bounds lo <= e <= hi (the admissible domain of the
        property, set by the check): decided when the bounds decide it, else None"""
        from .poly import Poly, as_poly
        hits = [(a, self.elem_bounds(a[1])) for a in c.p.atoms() if a[0] == "s"]
        hits = [(a, b) for a, b in hits if b is not None]
        if len(hits) != 1:
            return None
        atom, (lo, hi) = hits[0]
        k = c.p.coeff(atom, 1)
        rest = c.p - k * Poly.atom(atom)
        if not k.is_const() or atom in rest.atoms():
            return None
        kv = k.const_value()
        ends = []
        for b in (lo, hi):
            if isinstance(b, PW):
                b = b.leaf if b.is_leaf() else None
            q = None if b is None else rest + as_poly(b).scale(kv)
            ends.append(q.const_value() if q is not None and q.is_const() else None)
        pmin, pmax = (ends[0], ends[1]) if kv > 0 else (ends[1], ends[0])
        op = c.op
        if op == ">":
            return True if pmin is not None and pmin > 0 else (False if pmax is not None and pmax <= 0 else None)
        if op == ">=":
            return True if pmin is not None and pmin >= 0 else (False if pmax is not None and pmax < 0 else None)
        if op == "<":
            return True if pmax is not None and pmax < 0 else (False if pmin is not None and pmin >= 0 else None)
        if op == "<=":
            return True if pmax is not None and pmax <= 0 else (False if pmin is not None and pmin > 0 else None)
        return None

    def decide_cond(self, c):
        from .signs import sign_of_poly
        s = sign_of_poly(c.p)
        if s is None:
            return None
        return {">": s == "+", ">=": s in ("+", "0+"), "<": s == "-", "<=": s in ("-", "0-")}.get(c.op) if s in ("+", "-") else None

    def st_For(self, st, scope, ms):
        it = self.eval(st.iter, scope, ms)
        if isinstance(it, range):
            seq = list(it)
        elif isinstance(it, (list, tuple)):
            seq = list(it)
        elif isinstance(it, dict):
            seq = list(it.keys())
        elif isinstance(it, Opaque) and it.tag == "symrange" and isinstance(st.target, ast.Name):
            # loop over a symbolic count: analyse one generic iteration (the body is the same for every index)
            from .extlib import ExtLib
            var = "%s_iter" % st.target.id
            ExtLib.INT_SYMBOLS.add(var)
            self.trace.append(Op("LoopBegin", var=var, range=it.info, where=self.where(st, ms), stack=tuple(self.call_stack),
                                 iterator=ast.unparse(st.iter.func) if isinstance(st.iter, ast.Call) else ast.unparse(st.iter)))
            scope.vars[st.target.id] = psym(var)
            try:
                self.exec_block(st.body, scope, ms)
            except _Continue:
                pass            # the generic iteration ends early: what it did so far is its whole effect
            self.trace.append(Op("LoopEnd", var=var, where=self.where(st, ms)))
            return
        else:
            raise Unsupported("for over %r at %s" % (it, self.where(st, ms)))
        for x in seq:
            self.assign(st.target, x, scope, ms, st)
            try:
                self.exec_block(st.body, scope, ms)
            except _Continue:
                continue
        if st.orelse:
            self.exec_block(st.orelse, scope, ms)

    def st_With(self, st, scope, ms):
        for item in st.items:
            v = self.eval(item.context_expr, scope, ms)
            if hasattr(v, "sa_enter"):
                v = v.sa_enter()
            if item.optional_vars is not None:
                self.assign(item.optional_vars, v, scope, ms, st)
        self.exec_block(st.body, scope, ms)

    def st_Match(self, st, scope, ms):
        subj = self.eval(st.subject, scope, ms)
        subj = simplify_scalar(subj)
        if not (isinstance(subj, (str, bool, int)) or subj is None):
            raise Unsupported("match on non-constant %r at %s" % (subj, self.where(st, ms)))
        for case in st.cases:
            if case.guard is not None:
                raise Unsupported("match guard")
            p = case.pattern
            hit = False
            if isinstance(p, ast.MatchValue):
                v = self.eval(p.value, scope, ms)
                hit = (v == subj) and (isinstance(v, bool) == isinstance(subj, bool))
            elif isinstance(p, ast.MatchSingleton):
                hit = subj is p.value
            elif isinstance(p, ast.MatchAs) and p.pattern is None:
                hit = True
                if p.name:
                    scope.vars[p.name] = subj
            else:
                raise Unsupported("match pattern %s at %s" % (type(p).__name__, self.where(st, ms)))
            if hit:
                self.exec_block(case.body, scope, ms)
                return

    # ------------------------------------------------------------------ expressions
    def eval(self, e, scope, ms):
        m = getattr(self, "ex_" + type(e).__name__, None)
        if m is None:
            raise Unsupported("expression %s at %s" % (type(e).__name__, self.where(e, ms)))
        return m(e, scope, ms)

    def ex_Constant(self, e, scope, ms):
        v = e.value
        if isinstance(v, float):
            return Fraction(repr(v))
        if isinstance(v, complex):
            raise Unsupported("complex literal")
        return v

    BUILTINS = {"isinstance", "type", "int", "float", "len", "range", "min", "max", "abs", "tuple",
                "list", "str", "super", "staticmethod", "property", "print", "sum", "dict", "bool",
                "enumerate", "zip", "sorted", "ValueError", "TypeError", "round", "slice", "any", "all",
                "FileNotFoundError", "Exception", "RuntimeError", "complex", "object", "set"}

    def ex_Name(self, e, scope, ms):
        try:
            return scope.lookup(e.id)
        except KeyError:
            pass
        if e.id == "TYPE_CHECKING":
            return False
        if e.id in self.BUILTINS:
            return Opaque("builtin", e.id)
        raise Unsupported("unbound name %s at %s" % (e.id, self.where(e, ms)))

    def ex_Tuple(self, e, scope, ms):
        return tuple(self.eval_elts(e.elts, scope, ms))

    def ex_List(self, e, scope, ms):
        return list(self.eval_elts(e.elts, scope, ms))

    def eval_elts(self, elts, scope, ms):
        out = []
        for x in elts:
            if isinstance(x, ast.Starred):
                v = self.eval(x.value, scope, ms)
                if isinstance(v, Arr) and v.ndim == 1 and isinstance(simplify_scalar(v.shape[0]), int):
                    v = self.unpack(v, simplify_scalar(v.shape[0]), x, ms)
                if not isinstance(v, (tuple, list)):
                    raise Unsupported("starred non-sequence")
                out.extend(v)
            else:
                out.append(self.eval(x, scope, ms))
        return out

    def ex_Dict(self, e, scope, ms):
        d = {}
        for k, v in zip(e.keys, e.values):
            if k is None:
                d.update(self.eval(v, scope, ms))
            else:
                d[self.eval(k, scope, ms)] = self.eval(v, scope, ms)
        return d

    def ex_JoinedStr(self, e, scope, ms):
        parts = []
        for v in e.values:
            if isinstance(v, ast.Constant):
                parts.append(str(v.value))
            else:
                x = self.eval(v.value, scope, ms)
                x = simplify_scalar(x)
                parts.append(str(x))
        return "".join(parts)

    def ex_Attribute(self, e, scope, ms):
        obj = self.eval(e.value, scope, ms)
        return self.get_attr(obj, e.attr, e, ms)

    def get_attr(self, obj, attr, e, ms):
        if isinstance(obj, ModuleRef):
            return self.module_attr(obj.name, attr)
        if isinstance(obj, Ext):
            return self.ext.attr(obj, attr)
        if isinstance(obj, Inst):
            if attr in obj.attrs:
                return obj.attrs[attr]
            c, v = obj.cls.find(attr)
            if c is None:
                if attr == "__class__":
                    return obj.cls
                raise Unsupported("%r has no attribute %s at %s" % (obj, attr, self.where(e, ms)))
            return self.bind(obj, v)
        if isinstance(obj, Super):
            c, v = obj.inst.cls.find(attr, after=obj.cls)
            if c is None:
                raise Unsupported("super() has no %s" % attr)
            return self.bind(obj.inst, v)
        if isinstance(obj, Class):
            c, v = obj.find(attr)
            if c is None:
                if attr == "__name__":
                    return obj.name
                raise Unsupported("class %s has no attribute %s at %s" % (obj.name, attr, self.where(e, ms)))
            if isinstance(v, Static):
                return v.fn
            return v
        if isinstance(obj, Arr):
            return self.ext.array_attr(obj, attr, e, ms)
        if isinstance(obj, KernelAST) and attr == "compile":
            return Opaque("compile", obj)
        if isinstance(obj, Opaque):
            return self.ext.opaque_attr(obj, attr, e, ms)
        if hasattr(obj, "sa_getattr"):
            return obj.sa_getattr(self, attr, e, ms)
        if isinstance(obj, (list, dict, str, tuple)):
            return Opaque("pymethod", (obj, attr))
        if isinstance(obj, DType):
            return self.ext.dtype_attr(obj, attr)
        if isinstance(obj, PW) or is_num(obj):
            if attr in ("real",):
                return obj
            if attr == "dtype" and isinstance(obj, PW) and getattr(self.ext, "working_precision", None) is not None:
                # floating-point scalars of the analysed objects are held in the working precision (real_t(...) casts are
                # identities of the abstraction); a Python float has no .dtype, which the abstraction does not distinguish
                return self.ext.working_precision
        raise Unsupported("attribute %s of %r at %s" % (attr, obj, self.where(e, ms)))

    def bind(self, inst, v):
        if isinstance(v, Static):
            return v.fn
        if isinstance(v, Func):
            return Bound(inst, v)
        return v

    def ex_Subscript(self, e, scope, ms):
        base = self.eval(e.value, scope, ms)
        if isinstance(base, Field):
            off = self.eval_offset(e.slice, scope, ms)
            if len(off) != base.rank:
                self.problem("stencil-rank", "field %s of rank %d read with %d indices" % (base.name, base.rank, len(off)), e, ms)
            return pfld(base.name, off)
        if isinstance(base, Ext) and base.path == "pystencils.make_slice":
            idx = self.eval_index(e.slice, scope, ms)
            return Opaque("make_slice", idx)
        if isinstance(base, (Ext, Opaque)) and not hasattr(base, "sa_index") and not (isinstance(base, Opaque) and base.tag in ("extobj",)):
            # typing generics such as tuple[int, ...], Literal[...]
            return Opaque("generic", ast.unparse(e))
        idx = self.eval_index(e.slice, scope, ms)
        return self.subscript(base, idx, e, ms)

    def eval_offset(self, sl, scope, ms):
        v = self.eval(sl, scope, ms)
        if not isinstance(v, tuple):
            v = (v,)
        out = []
        for x in v:
            x = simplify_scalar(x)
            if not isinstance(x, int):
                raise Unsupported("non-integer stencil offset %r" % (x,))
            out.append(x)
        return tuple(out)

    def eval_index(self, sl, scope, ms):
        if isinstance(sl, ast.Tuple):
            return tuple(self.eval_index1(x, scope, ms) for x in sl.elts)
        return (self.eval_index1(sl, scope, ms),)

    def eval_index1(self, x, scope, ms):
        if isinstance(x, ast.Slice):
            lo = None if x.lower is None else self.eval(x.lower, scope, ms)
            hi = None if x.upper is None else self.eval(x.upper, scope, ms)
            stp = None if x.step is None else self.eval(x.step, scope, ms)
            return SliceVal(lo, hi, stp)
        return self.eval(x, scope, ms)

    def ex_Slice(self, e, scope, ms):
        return self.eval_index1(e, scope, ms)

    def subscript(self, base, idx, e, ms):
        if isinstance(base, Arr):
            return self.index_array(base, idx, e, ms)
        if isinstance(base, (tuple, list, str)):
            if len(idx) != 1:
                raise Unsupported("multi-index on sequence")
            i = idx[0]
            if isinstance(i, SliceVal):
                return base[slice(i.lo, i.hi, i.step)]
            i = simplify_scalar(i)
            if not isinstance(i, int):
                raise Unsupported("symbolic index into a python sequence at %s" % self.where(e, ms))
            try:
                return base[i]
            except IndexError:
                self.problem("index-error", "index %d out of range for sequence of length %d" % (i, len(base)), e, ms)
                raise RaisedInAnalysed("IndexError", "sequence index", self.where(e, ms))
        if isinstance(base, dict):
            k = idx[0]
            if k not in base:
                raise RaisedInAnalysed("KeyError", repr(k), self.where(e, ms))
            return base[k]
        if hasattr(base, "sa_index"):
            return base.sa_index(self, idx, e, ms)
        if isinstance(base, Opaque):
            return self.ext.opaque_index(base, idx, e, ms)
        raise Unsupported("subscript of %r at %s" % (base, self.where(e, ms)))

    # --- numpy basic indexing on abstract arrays
    def index_array(self, arr, idx, node, ms, for_store=False):
        if arr.perm is not None:
            raise Unsupported("indexing a transposed view")
        idx = list(idx)
        vaxes = [k for k, a in enumerate(arr.axes) if a[0] == "r"]
        # expand ellipsis
        n_explicit = sum(1 for i in idx if i is not Ellipsis and not (isinstance(i, Opaque) and i.tag == "newaxis"))
        if any(i is Ellipsis for i in idx):
            k = idx.index(Ellipsis)
            fill = len(vaxes) - n_explicit
            idx = idx[:k] + [SliceVal(None, None, None)] * fill + idx[k + 1:]
        if len([i for i in idx]) > len(vaxes):
            self.problem("index-error", "too many indices for array %s" % arr.describe(), node, ms)
            raise RaisedInAnalysed("IndexError", "too many indices", self.where(node, ms))
        while len(idx) < len(vaxes):
            idx.append(SliceVal(None, None, None))
        new_axes = list(arr.axes)
        fancy = False
        for k, i in zip(vaxes, idx):
            _, lo, hi = arr.axes[k]
            n = hi - lo
            if isinstance(i, SliceVal):
                if i.step is not None and simplify_scalar(i.step) != 1:
                    if simplify_scalar(i.step) == -1 and i.lo is None and i.hi is None:
                        return self.ext.derived_array("reversed", [arr], arr.shape, arr.dtype, node, ms,
                                                      meta={"axis": vaxes.index(k)})
                    raise Unsupported("strided slice at %s" % self.where(node, ms))
                a = self.norm_bound(i.lo, n, 0, node, ms)
                b = self.norm_bound(i.hi, n, None, node, ms)
                new_axes[k] = ("r", lo + a, lo + b)
            elif isinstance(i, Arr):
                fancy = True
            else:
                i = simplify_scalar(i)
                if isinstance(i, int):
                    ii = to_pw(i) if i >= 0 else n + i
                elif isinstance(i, PW):
                    ii = i
                else:
                    raise Unsupported("index %r at %s" % (i, self.where(node, ms)))
                # static bounds check where decidable
                nn = simplify_scalar(n)
                iv = simplify_scalar(ii)
                if isinstance(nn, int) and isinstance(iv, int) and not (0 <= iv < nn):
                    self.problem("index-error", "index %s out of bounds for axis of size %s in %s" % (i, nn, arr.describe()), node, ms)
                    raise RaisedInAnalysed("IndexError", "array index", self.where(node, ms))
                new_axes[k] = ("i", lo + ii)
        if fancy:
            return self.ext.derived_array("fancy_index", [arr] + [i for i in idx if isinstance(i, Arr)],
                                          arr.shape, arr.dtype, node, ms, meta={"index": idx})
        res = Arr(arr.alloc, new_axes, arr.part)
        if res.ndim == 0:
            # scalar element
            index = tuple(a[1] for a in res.axes)
            if for_store:
                return ("elem", arr_root(res), index)
            return self.ext.element_value(res, index, node, ms)
        return res

    def norm_bound(self, b, n, default, node, ms):
        """slice bound -> offset in [0, n] (symbolic sizes are assumed larger than any constant)"""
        if b is None:
            return pconst(0) if default == 0 else n
        b = simplify_scalar(b)
        if isinstance(b, int):
            nn = simplify_scalar(n)
            if isinstance(nn, int):
                if b < 0:
                    b = max(nn + b, 0)
                return pconst(min(b, nn))
            if b < 0:
                return n + b
            return pconst(b)
        if isinstance(b, PW):
            return b
        raise Unsupported("slice bound %r at %s" % (b, self.where(node, ms)))

    def ex_UnaryOp(self, e, scope, ms):
        v = self.eval(e.operand, scope, ms)
        if isinstance(e.op, ast.USub):
            if isinstance(v, Arr):
                return self.ext.elementwise("neg", [v], e, ms)
            if isinstance(v, bool):
                return -int(v)
            return -v
        if isinstance(e.op, ast.UAdd):
            return v
        if isinstance(e.op, ast.Not):
            return not self.truth(v, e, ms)
        raise Unsupported("unary op at %s" % self.where(e, ms))

    def ex_BinOp(self, e, scope, ms):
        a = self.eval(e.left, scope, ms)
        b = self.eval(e.right, scope, ms)
        return self.binop(e.op, a, b, e, ms)

    def binop(self, op, a, b, e, ms):
        name = type(op).__name__
        if isinstance(a, Arr) or isinstance(b, Arr):
            if name == "MatMult":
                return self.ext.matmul(a, b, e, ms)
            return self.ext.elementwise(name, [a, b], e, ms)
        from .extlib import MinMax, MinMaxScaled, SumAll
        if isinstance(a, SumAll) or isinstance(b, SumAll):
            sa_, other = (a, b) if isinstance(a, SumAll) else (b, a)
            if name == "Mult" and is_scalar(other):
                return sa_ * other
            raise Unsupported("operator %s on a grid sum at %s" % (name, self.where(e, ms)))
        if isinstance(a, (MinMax, MinMaxScaled)) or isinstance(b, (MinMax, MinMaxScaled)):
            mm, other = (a, b) if isinstance(a, (MinMax, MinMaxScaled)) else (b, a)
            if name == "Mult" and is_scalar(other):
                if isinstance(mm, MinMaxScaled):
                    return MinMaxScaled(mm.mm, mm.factor * to_pw(other))
                return MinMaxScaled(mm, to_pw(other))
            raise Unsupported("operator %s on a symbolic min/max at %s" % (name, self.where(e, ms)))
        if isinstance(a, Opaque) or isinstance(b, Opaque):
            if name == "BitOr":
                return Opaque("generic", "union")
            return self.ext.opaque_binop(name, a, b, e, ms)
        if isinstance(a, (list, tuple)) or isinstance(b, (list, tuple)):
            if name == "Add" and type(a) is type(b):
                return a + b
            if name == "Mult":
                seq, k = (a, b) if isinstance(a, (list, tuple)) else (b, a)
                k = simplify_scalar(k)
                if isinstance(k, int):
                    return seq * k
            raise Unsupported("sequence op %s at %s" % (name, self.where(e, ms)))
        if isinstance(a, str) or isinstance(b, str):
            if name == "Add":
                return a + b
            if name == "Mod":
                return "%s%%%s" % (a, b)
            raise Unsupported("string op")
        if isinstance(a, bool):
            a = int(a)
        if isinstance(b, bool):
            b = int(b)
        if a is None or b is None:
            raise RaisedInAnalysed("TypeError", "arithmetic on None", self.where(e, ms))
        try:
            return simplify_scalar(self.scalar_binop(name, a, b))
        except ZeroDivisionError:
            raise RaisedInAnalysed("ZeroDivisionError", "division by zero", self.where(e, ms))
        except poly.AlgebraError as ex:
            raise Unsupported("%s at %s" % (ex, self.where(e, ms)))

    def scalar_binop(self, name, a, b):
        sym = isinstance(a, PW) or isinstance(b, PW)
        if name == "Add":
            return a + b
        if name == "Sub":
            return a - b
        if name == "Mult":
            return a * b
        if name == "Div":
            if sym:
                return to_pw(a) / to_pw(b)
            return Fraction(a) / Fraction(b)
        if name == "FloorDiv":
            if sym:
                q = to_pw(a) / to_pw(b)
                if q.is_leaf() and q.leaf.is_poly():
                    p = poly.as_poly(q.leaf)
                    from .extlib import ExtLib
                    if all(c.denominator == 1 for c in p.t.values()) and all(
                            at[0] == "s" and at[1] in ExtLib.INT_SYMBOLS for at in p.atoms()):
                        return q
                return poly.fn("floor", q)
            r = Fraction(a) // Fraction(b)
            return int(r)
        if name == "Mod":
            if sym:
                raise Unsupported("symbolic modulo")
            return a % b
        if name == "Pow":
            bb = simplify_scalar(b)
            if isinstance(bb, PW):
                raise Unsupported("symbolic exponent")
            if isinstance(a, PW):
                if isinstance(bb, Fraction) and bb.denominator == 2:
                    return poly.fn("sqrt", a) ** int(bb.numerator)
                if isinstance(bb, Fraction):
                    raise Unsupported("fractional power")
                return a ** int(bb)
            if isinstance(bb, Fraction) and bb.denominator != 1:
                if bb.denominator == 2:
                    return poly.fn("sqrt", to_pw(a)) ** int(bb.numerator)
                raise Unsupported("fractional power")
            bb = int(bb)
            if bb < 0:
                return Fraction(1) / (Fraction(a) ** (-bb))
            return a ** bb
        raise Unsupported("binary operator %s" % name)

    def ex_BoolOp(self, e, scope, ms):
        if isinstance(e.op, ast.And):
            v = True
            for x in e.values:
                v = self.eval(x, scope, ms)
                if not self.truth(v, e, ms):
                    return v
            return v
        v = False
        for x in e.values:
            v = self.eval(x, scope, ms)
            if self.truth(v, e, ms):
                return v
        return v

    def ex_IfExp(self, e, scope, ms):
        c = self.eval(e.test, scope, ms)
        if isinstance(c, Cond) and c.decided() is None and self.in_stencil is not None:
            a = to_pw(self.eval(e.body, scope, ms))
            b = to_pw(self.eval(e.orelse, scope, ms))
            return PW.ite(c, a, b)
        if self.truth(c, e, ms):
            return self.eval(e.body, scope, ms)
        return self.eval(e.orelse, scope, ms)

    def ex_Compare(self, e, scope, ms):
        left = self.eval(e.left, scope, ms)
        result = True
        for op, rn in zip(e.ops, e.comparators):
            right = self.eval(rn, scope, ms)
            r = self.compare(op, left, right, e, ms)
            if isinstance(r, (Cond, Arr)):
                if len(e.ops) != 1:
                    raise Unsupported("chained symbolic comparison")
                return r
            if not r:
                return False
            left = right
        return result

    def compare(self, op, a, b, e, ms):
        name = type(op).__name__
        if name == "Is":
            return self.identical(a, b)
        if name == "IsNot":
            return not self.identical(a, b)
        if name in ("In", "NotIn"):
            if isinstance(b, (list, tuple, dict, str)):
                a = simplify_scalar(a)
                r = any(self.py_equal(a, x) for x in b) if not isinstance(b, str) else (a in b)
                return r if name == "In" else not r
            if hasattr(b, "sa_contains"):
                r = b.sa_contains(self, a)
                return r if name == "In" else not r
            if isinstance(b, Opaque):
                return self.ext.opaque_contains(b, a, name == "In", e, ms)
            raise Unsupported("membership in %r" % (b,))
        if name in ("Eq", "NotEq"):
            if isinstance(a, Arr) or isinstance(b, Arr):
                return self.ext.elementwise(name, [a, b], e, ms)
            r = None
            for x, y in ((a, b), (b, a)):
                # a free scalar input compared with 0: both outcomes are possible (the positivity convention of the algebra
                # does not apply to inputs); the equal outcome substitutes 0 for it
                fz = self.free_symbol_of(to_pw(x)) if is_scalar(x) and not isinstance(x, bool) and not is_num(simplify_scalar(x)) else None
                if fz is not None and is_num(simplify_scalar(y)) and not isinstance(y, bool) and simplify_scalar(y) == 0:
                    from .regions import CURRENT_CASE, NeedDecision
                    d = CURRENT_CASE[0].decision(fz)        # True = non-zero
                    if d is None:
                        raise NeedDecision(fz, "%s == 0 at %s" % (fz, self.where(e, ms)))
                    r = not d
                    break
            if r is None:
                r = self.py_equal(a, b)
            if r is None:
                raise Unsupported("undecidable equality %r == %r at %s" % (a, b, self.where(e, ms)))
            return r if name == "Eq" else not r
        # ordering
        if isinstance(a, Arr) or isinstance(b, Arr):
            return self.ext.elementwise(name, [a, b], e, ms)
        a, b = simplify_scalar(a), simplify_scalar(b)
        if isinstance(a, bool):
            a = int(a)
        if isinstance(b, bool):
            b = int(b)
        if is_num(a) and is_num(b):
            return {"Lt": a < b, "LtE": a <= b, "Gt": a > b, "GtE": a >= b}[name]
        if is_scalar(a) and is_scalar(b):
            d = to_pw(a) - to_pw(b)
            guard = 0
            while not d.is_leaf():
                # a piecewise operand (min / max of inputs): its own condition is decided first, like a branch of the code
                guard += 1
                if guard > 8:
                    raise Unsupported("comparison of piecewise values")
                d = d.a if self.truth(d.cond, e, ms) else d.b
            opn = {"Lt": "<", "LtE": "<=", "Gt": ">", "GtE": ">="}[name]
            # a comparison whose every term carries a free input (penalty factor, step size, viscosity ...): the Cond normal form
            # would divide by those symbols as if they were positive; the sign of such an input is not known, so the outcome is
            # analysed both ways
            from .extlib import ExtLib
            from .poly import as_poly
            structural = {"dx", "x_range", "eps", "pi", "nx", "ny", "nz", "h", "blend_width"}
            if d.leaf.is_poly():
                pp = as_poly(d.leaf)
                ats = list(pp.atoms())

                def free(a_):
                    return a_[0] == "s" and a_[1] not in structural and a_[1] not in ExtLib.INT_SYMBOLS and not a_[1].startswith("@")
                if ats and all(a_[0] == "s" for a_ in ats) and pp.t and all(any(free(a_) for a_, _ in m) for m in pp.t):
                    from .regions import CURRENT_CASE, NeedDecision
                    key = "[%r %s 0]" % (pp, opn)
                    dec = CURRENT_CASE[0].decision(key)
                    if dec is None:
                        raise NeedDecision(key, "%s at %s" % (key, self.where(e, ms)))
                    return dec
            return Cond(d.leaf, opn)
        raise Unsupported("comparison %s of %r and %r at %s" % (name, a, b, self.where(e, ms)))

    def identical(self, a, b):
        if a is None or b is None or isinstance(a, bool) or isinstance(b, bool):
            return a is b
        if isinstance(a, Opaque) and isinstance(b, Opaque):
            if a.tag == "type" or b.tag == "type" or a.tag == "generic" or b.tag == "generic":
                # type(x) is tuple[int, ...]  -- a generic alias is never a type object
                if a.tag == "generic" or b.tag == "generic":
                    return False
                return a.info == b.info
        if isinstance(a, DType) and isinstance(b, DType):
            return a == b
        return a is b

    def py_equal(self, a, b):
        a, b = simplify_scalar(a), simplify_scalar(b)
        if isinstance(a, (DType, Ext)) or isinstance(b, (DType, Ext)):
            if isinstance(a, DType) and isinstance(b, DType):
                return a == b
            if isinstance(a, Ext) and isinstance(b, Ext):
                return a.path == b.path
            return False
        if a is None or b is None:
            return a is b
        if isinstance(a, str) or isinstance(b, str):
            return a == b
        if isinstance(a, (tuple, list)) and isinstance(b, (tuple, list)):
            if type(a) is not type(b) or len(a) != len(b):
                return False
            rs = [self.py_equal(x, y) for x, y in zip(a, b)]
            if any(r is False for r in rs):
                return False
            if any(r is None for r in rs):
                return None
            return True
        if is_scalar(a) and is_scalar(b):
            if isinstance(a, PW) or isinstance(b, PW):
                d = to_pw(a) - to_pw(b)
                if d.is_leaf() and d.leaf.is_zero():
                    return True
                if d.is_leaf() and d.leaf.is_const():
                    return False
                if d.is_leaf() and d.leaf.is_poly():
                    from .extlib import ExtLib
                    ats = d.leaf.all_atoms()
                    if ats and all(a[0] == "s" and a[1] in ExtLib.INT_SYMBOLS for a in ats):
                        # symbolic sizes / counts are generic: they differ from every constant and from each other
                        # (the special values are analysed as separate concrete cases)
                        self.generic_size_decisions = getattr(self, "generic_size_decisions", 0) + 1
                        return False
                c = Cond(d.leaf, ">") if d.is_leaf() else None
                if c is not None:
                    from .signs import sign_of_poly
                    s = sign_of_poly(c.p)
                    if s in ("+", "-"):
                        return False
                return None
            return a == b
        if isinstance(a, Opaque) and isinstance(b, Opaque):
            return a is b or (a.tag == b.tag and a.info == b.info)
        return a is b

    def ex_Call(self, e, scope, ms):
        fn = self.eval(e.func, scope, ms)
        args = self.eval_elts(e.args, scope, ms)
        kwargs = {}
        for kw in e.keywords:
            if kw.arg is None:
                d = self.eval(kw.value, scope, ms)
                if not isinstance(d, dict):
                    raise Unsupported("** of non-dict at %s" % self.where(e, ms))
                kwargs.update(d)
            else:
                kwargs[kw.arg] = self.eval(kw.value, scope, ms)
        return self.call(fn, args, kwargs, e, ms, scope)

    def ex_ListComp(self, e, scope, ms):
        if len(e.generators) != 1:
            raise Unsupported("nested comprehension")
        g = e.generators[0]
        it = self.eval(g.iter, scope, ms)
        if isinstance(it, range) or isinstance(it, (list, tuple)):
            seq = list(it)
        else:
            raise Unsupported("comprehension over %r at %s" % (it, self.where(e, ms)))
        out = []
        inner = Scope(scope, "")
        for x in seq:
            self.assign(g.target, x, inner, ms, e)
            if all(self.truth(self.eval(c, inner, ms), e, ms) for c in g.ifs):
                out.append(self.eval(e.elt, inner, ms))
        return out

    # ------------------------------------------------------------------ calls
    def call(self, fn, args, kwargs, node, ms, scope=None):
        if isinstance(fn, Func):
            return self.call_func(fn, args, kwargs, node, ms)
        if isinstance(fn, Bound):
            return self.call_func(fn.fn, [fn.inst] + list(args), kwargs, node, ms, bound=fn.inst)
        if isinstance(fn, Static):
            return self.call(fn.fn, args, kwargs, node, ms)
        if isinstance(fn, Class):
            return self.instantiate(fn, args, kwargs, node, ms)
        if isinstance(fn, Kernel):
            return self.launch(fn, args, kwargs, node, ms)
        if isinstance(fn, Njit):
            return self.call_njit(fn, args, kwargs, node, ms)
        if isinstance(fn, DType):
            # a literal element type applied to a computed value (np.float32(1 / dx / dx)) fixes the precision of that value
            # whatever the working precision real_t is: in a double-precision object the value is rounded to single
            f = getattr(node, "func", None)
            if isinstance(f, ast.Attribute) and f.attr in ("float32", "float64", "single", "double", "float16", "half") and args \
                    and not isinstance(getattr(node, "args", [None])[0], ast.Constant):
                self.problem("precision", "%s(...) converts a computed value to a fixed element type instead of the working precision" % ast.unparse(f), node, ms)
            return self.ext.cast(fn, args, kwargs, node, ms)
        if isinstance(fn, FFTPlan):
            return self.ext.call_fft(fn, args, kwargs, node, ms)
        if isinstance(fn, Ext):
            if fn.path == "numba.prange":
                # same index set as range(); whether the iterations may run concurrently is C15's question (read from the AST)
                return self.call_builtin("range", args, kwargs, node, ms, scope)
            return self.ext.call(fn, args, kwargs, node, ms)
        if isinstance(fn, Opaque):
            if fn.tag == "builtin":
                return self.call_builtin(fn.info, args, kwargs, node, ms, scope)
            if fn.tag == "compile":
                k = Kernel(fn.info.stencil, fn.info.config, self.where(node, ms))
                self.kernels.append(k)
                return k
            return self.ext.call_opaque(fn, args, kwargs, node, ms)
        if hasattr(fn, "sa_call"):
            return fn.sa_call(self, args, kwargs, node, ms)
        if fn is None:
            raise RaisedInAnalysed("TypeError", "'NoneType' object is not callable", self.where(node, ms))
        raise Unsupported("call of %r at %s" % (fn, self.where(node, ms)))

    def bind_args(self, fn, args, kwargs, node, ms):
        a = fn.node.args
        params = [p.arg for p in a.posonlyargs + a.args]
        bound = {}
        if len(args) > len(params) and a.vararg is None:
            self.problem("call-arity", "%s() takes %d positional arguments but %d were given" % (fn.qualname, len(params), len(args)), node, ms)
            raise RaisedInAnalysed("TypeError", "too many positional arguments for %s" % fn.qualname, self.where(node, ms))
        for p, v in zip(params, args):
            bound[p] = v
        if a.vararg is not None:
            bound[a.vararg.arg] = tuple(args[len(params):])
        extra = {}
        kwonly = [p.arg for p in a.kwonlyargs]
        for k, v in kwargs.items():
            if k in bound:
                self.problem("call-arity", "%s() got multiple values for argument %s" % (fn.qualname, k), node, ms)
                raise RaisedInAnalysed("TypeError", "multiple values for %s" % k, self.where(node, ms))
            if k in params or k in kwonly:
                bound[k] = v
            elif a.kwarg is not None:
                extra[k] = v
            else:
                self.problem("call-arity", "%s() got an unexpected keyword argument '%s'" % (fn.qualname, k), node, ms)
                raise RaisedInAnalysed("TypeError", "unexpected keyword %s for %s" % (k, fn.qualname), self.where(node, ms))
        nd = len(fn.defaults)
        for i, p in enumerate(params):
            if p not in bound:
                j = i - (len(params) - nd)
                if j >= 0:
                    bound[p] = fn.defaults[j]
                else:
                    self.problem("call-arity", "%s() missing required argument '%s'" % (fn.qualname, p), node, ms)
                    raise RaisedInAnalysed("TypeError", "missing argument %s for %s" % (p, fn.qualname), self.where(node, ms))
        for p, d in zip(kwonly, fn.kwdefaults):
            if p not in bound:
                if d is None:
                    raise RaisedInAnalysed("TypeError", "missing kw-only %s" % p, self.where(node, ms))
                bound[p] = d
        if a.kwarg is not None:
            bound[a.kwarg.arg] = extra
        return bound

    def call_func(self, fn, args, kwargs, node, ms, bound=None):
        if fn.node.name in getattr(self, "skip_functions", ()):
            self.trace.append(Op("Skipped", fn=fn, where=self.where(node, ms) if node is not None else "?"))
            return None
        if self.call_depth > 60:
            raise Unsupported("call depth exceeded (recursion?) at %s" % self.where(node, ms))
        b = self.bind_args(fn, args, kwargs, node, ms)
        sc = Scope(fn.scope, fn.node.name)
        sc.vars.update(b)
        sc.func = fn
        if fn.cls is not None:
            sc.vars["__class__"] = fn.cls
        self.call_depth += 1
        self.call_stack.append(fn.qualname)
        self.trace.append(Op("CallBegin", fn=fn, args=b, depth=self.call_depth, where=self.where(node, ms) if node is not None else "?"))
        ret = None
        try:
            self.exec_block(fn.node.body, sc, fn.module)
        except _Return as r:
            ret = r.value
        finally:
            self.call_depth -= 1
            self.call_stack.pop()
        self.trace.append(Op("CallEnd", fn=fn, depth=self.call_depth + 1, ret=ret))
        return ret

    def instantiate(self, cls, args, kwargs, node, ms):
        inst = Inst(cls)
        c, init = cls.find("__init__")
        if init is not None:
            self.call(self.bind(inst, init), args, kwargs, node, ms)
        elif args or kwargs:
            raise RaisedInAnalysed("TypeError", "%s() takes no arguments" % cls.name, self.where(node, ms))
        inst.constructed = True
        return inst

    def call_builtin(self, name, args, kwargs, node, ms, scope):
        if name == "isinstance":
            return self.ext.isinstance_(args[0], args[1])
        if name == "type":
            return self.ext.type_of(args[0])
        if name in ("int", "float"):
            v = simplify_scalar(args[0]) if args else 0
            if isinstance(v, str):
                return int(v) if name == "int" else Fraction(v)
            if name == "int" and is_num(v):
                return int(v)
            if name == "int" and isinstance(v, PW):
                return poly.fn("floor", v)
            return v
        if name == "bool":
            return self.truth(args[0], node, ms)
        if name == "len":
            v = args[0]
            if isinstance(v, (list, tuple, dict, str)):
                return len(v)
            if isinstance(v, Arr):
                return v.shape[0]
            if isinstance(v, Opaque):
                return self.ext.opaque_len(v, node, ms)
            raise Unsupported("len of %r" % (v,))
        if name == "range":
            vals = [simplify_scalar(a) for a in args]
            if not all(isinstance(v, int) for v in vals):
                return Opaque("symrange", vals)
            return range(*vals)
        if name in ("min", "max"):
            vals = list(args[0]) if len(args) == 1 and isinstance(args[0], (list, tuple)) else list(args)
            vals = [simplify_scalar(v) for v in vals]
            if all(is_num(v) for v in vals):
                return min(vals) if name == "min" else max(vals)
            return self.ext.sym_minmax(name, vals, node, ms)
        if name == "abs":
            v = simplify_scalar(args[0])
            if is_num(v):
                return abs(v)
            if isinstance(v, PW):
                return poly.fn("abs", v)
            if isinstance(v, Arr):
                return self.ext.elementwise("abs", [v], node, ms)
            raise Unsupported("abs of %r" % (v,))
        if name == "tuple":
            if not args:
                return ()
            if isinstance(args[0], Arr):
                return tuple(self.unpack(args[0], args[0].shape[0], node, ms))
            return tuple(args[0])
        if name == "list":
            if not args:
                return []
            if isinstance(args[0], dict):
                return list(args[0].keys())
            if isinstance(args[0], Opaque):
                return self.ext.opaque_list(args[0], node, ms)
            return list(args[0])
        if name == "dict":
            d = dict(args[0]) if args else {}
            d.update(kwargs)
            return d
        if name == "str":
            return str(simplify_scalar(args[0])) if args else ""
        if name == "sum":
            vals = list(args[0])
            tot = args[1] if len(args) > 1 else 0
            for v in vals:
                tot = self.binop(ast.Add(), tot, v, node, ms)
            return tot
        if name == "enumerate":
            return list(enumerate(list(args[0]), *( [simplify_scalar(args[1])] if len(args) > 1 else [])))
        if name == "zip":
            return list(zip(*[list(a) for a in args]))
        if name == "sorted":
            return self.ext.sorted_(args, kwargs, node, ms)
        if name == "round":
            return Opaque("rounded", args)
        if name == "print":
            return None
        if name == "slice":
            a = list(args) + [None] * (3 - len(args))
            if len(args) == 1:
                return SliceVal(None, a[0], None)
            return SliceVal(a[0], a[1], a[2])
        if name == "any":
            return any(self.truth(x, node, ms) for x in args[0])
        if name == "all":
            return all(self.truth(x, node, ms) for x in args[0])
        if name == "super":
            if scope is None:
                raise Unsupported("super() without scope")
            try:
                cls = scope.lookup("__class__")
            except KeyError:
                raise Unsupported("super() outside a method")
            # first positional parameter of the enclosing function
            s = scope
            while s is not None and not hasattr(s, "func"):
                s = s.parent
            selfname = s.func.node.args.args[0].arg
            return Super(s.vars[selfname], cls)
        if name in ("ValueError", "TypeError", "FileNotFoundError", "Exception", "RuntimeError"):
            return Opaque("exception", (name, args))
        if name in ("staticmethod", "property", "object", "set", "complex"):
            raise Unsupported("builtin %s called" % name)
        raise Unsupported("builtin %s at %s" % (name, self.where(node, ms)))

    # ------------------------------------------------------------------ stencils & launches
    def run_stencil(self, fn, st, ms):
        if not isinstance(fn, Func):
            raise Unsupported("ps.kernel on non-function")
        sd = StencilDef(st.name, fn.qualname, ms.module, st.lineno)
        prev = self.in_stencil
        self.in_stencil = sd
        sc = Scope(fn.scope, st.name)
        try:
            self.exec_block(st.body, sc, ms)
        except _Return:
            raise Unsupported("return inside a stencil")
        finally:
            self.in_stencil = prev
        self.stencils.append(sd)
        return sd

    def launch(self, k, args, kwargs, node, ms):
        sd = k.stencil
        where = self.where(node, ms)
        if args:
            self.problem("kernel-call", "pystencils kernel %s called with positional arguments" % sd.name, node, ms)
            raise RaisedInAnalysed("TypeError", "kernel takes keyword arguments only", where)
        used_fields = {a.field for a in sd.assigns} | {f for f, _ in sd.accesses()}
        scalars_needed = sd.scalar_params()
        arrays, scalars = {}, {}
        for name, v in kwargs.items():
            if name in used_fields:
                if not isinstance(v, Arr):
                    self.problem("kernel-call", "kernel %s: field parameter %s bound to non-array %r" % (sd.name, name, v), node, ms)
                    raise RaisedInAnalysed("TypeError", "field parameter bound to non-array", where)
                arrays[name] = v
            elif name in scalars_needed:
                scalars[name] = v
            elif name in sd.fields or name in sd.symbols:
                # declared but unused in any assignment: pystencils drops it from the signature
                self.problem("kernel-call", "kernel %s got argument %s that its generated signature does not have" % (sd.name, name), node, ms)
            else:
                self.problem("kernel-call", "kernel %s got an unexpected argument %s" % (sd.name, name), node, ms)
                raise RaisedInAnalysed("TypeError", "unexpected kernel argument %s" % name, where)
        for f in used_fields:
            if f not in arrays:
                self.problem("kernel-call", "kernel %s: missing field argument %s" % (sd.name, f), node, ms)
                raise RaisedInAnalysed("KeyError", "missing kernel argument %s" % f, where)
        for s in scalars_needed:
            if s not in scalars:
                self.problem("kernel-call", "kernel %s: missing scalar argument %s" % (sd.name, s), node, ms)
                raise RaisedInAnalysed("KeyError", "missing kernel argument %s" % s, where)
        for f, a in arrays.items():
            rank = sd.fields[f].rank
            if a.ndim != rank:
                self.problem("kernel-call", "kernel %s: field %s declared %dD but bound to %s of %d dims" % (sd.name, f, rank, a.describe(), a.ndim), node, ms)
            # a compiled kernel accepts arrays of its declared element type only
            decl = {"double": "float64", "float": "float32"}.get(sd.fields[f].dtype or "", sd.fields[f].dtype)
            have = a.alloc.dtype.name
            if a.part is not None and have.startswith("complex"):
                have = {"complex64": "float32", "complex128": "float64"}.get(have, have)
            if decl and decl.startswith(("float", "int", "complex")) and have != decl and have != "possibly_complex":
                self.problem("kernel-call", "kernel %s: field %s is compiled for %s but bound to %s of element type %s (pystencils rejects the call)" % (
                    sd.name, f, decl, a.describe(), have), node, ms)
        self.trace.append(Op("Launch", kernel=k, arrays=arrays, scalars=scalars, where=where,
                             stack=tuple(self.call_stack), node=node))
        return None

    def call_njit(self, nj, args, kwargs, node, ms):
        if getattr(self, "inline_njit", False):
            return self.call_func(nj.fn, args, kwargs, node, ms)
        b = self.bind_args(nj.fn, args, kwargs, node, ms)
        self.trace.append(Op("NumbaCall", fn=nj, args=b, where=self.where(node, ms),
                             stack=tuple(self.call_stack), node=node))
        return None

    def problem(self, kind, msg, node, ms):
        self.problems.append(Op("Problem", pkind=kind, msg=msg, where=self.where(node, ms),
                                stack=tuple(self.call_stack)))
        self.trace.append(self.problems[-1])


def arr_root(a):
    return a


def is_const_pw(v):
    v = simplify_scalar(v)
    return is_num(v)


class Overridden:
    """element of an array whose index could not be compared with an overridden entry"""

    def __init__(self, old, tgt, val, ix):
        self.old, self.tgt, self.val, self.ix = old, tgt, val, ix
