"""Both-ways self-test of the checkers (DESIGN 9): every mutant must be reported by the listed
properties (exit 1 naming a rule), every negative control must leave them silent (exit 0).

    python3 -m sa.selftest [--jobs N] [--only substring] [--sample K]
"""
from __future__ import annotations

import argparse
import os
import random
import sys
from concurrent.futures import ProcessPoolExecutor

HERE = os.path.dirname(os.path.dirname(os.path.abspath(__file__)))
sys.path.insert(0, HERE)

E2 = "sopht/numeric/eulerian_grid_ops/stencil_ops_2d/"
E3 = "sopht/numeric/eulerian_grid_ops/stencil_ops_3d/"
P2 = "sopht/numeric/eulerian_grid_ops/poisson_solver_2d/"
P3 = "sopht/numeric/eulerian_grid_ops/poisson_solver_3d/"
NS = "sopht/simulator/flow/navier_stokes_flow_simulators.py"
IB = "sopht/numeric/immersed_boundary_ops/"
ROD = "sopht/simulator/immersed_body/cosserat_rod/cosserat_rod_forcing_grids.py"
RIG = "sopht/simulator/immersed_body/rigid_body/rigid_body_forcing_grids.py"
IBFI = "sopht/simulator/immersed_body/immersed_body_flow_interaction.py"

# (name, file, old, new, properties that must report it)
MUTANTS = [
    ("eno3-coefficient-x-front-2d", E2 + "advection_flux_2d.py", "(5 / 6) * field[0, 1] * velocity_x[0, 1]", "(4 / 6) * field[0, 1] * velocity_x[0, 1]", ["C04", "C05", "C13", "C14"]),
    ("curl-x-offset-3d", E3 + "curl_3d.py", "field_z[0, 1, 0] - field_z[0, -1, 0] - field_y[1, 0, 0]", "field_z[0, 1, 0] - field_z[0, -1, 0] - field_y[0, 0, 1]", ["C05", "C12", "C13", "C14"]),
    ("laplacian-centre-3d", E3 + "diffusion_flux_3d.py", "- 6 * field[0, 0, 0]", "- 5 * field[0, 0, 0]", ["C04", "C05", "C13", "C16"]),
    ("advection-flux-reset-dropped-2d", E2 + "advection_timestep_2d.py", "        set_fixed_val_pyst_kernel_2d(field=advection_flux, fixed_val=0)\n", "", ["C13", "C18", "C20", "C01"]),
    ("filter-buffers-aliased", NS, "field_buffer=self.buffer_vector_field[1],", "field_buffer=self.buffer_vector_field[0],", ["C15", "C04"]),
    ("ssprk3-stage-weight", E3 + "vorticity_stretching_timestep_3d.py", "field_1_prefac=0.75,", "field_1_prefac=0.5,", ["C20"]),
    ("zone-copy-off-by-one-2d", E2 + "penalise_field_boundary_2d.py", "field[:, :width] = field[:, (width - 1) : width]", "field[:, :width] = field[:, width : (width + 1)]", ["C13", "C19", "C01"]),
    ("zone-sine-prefactor-3d", E3 + "penalise_field_boundary_3d.py", "sine_prefactor = (np.pi / 2) / (width * dx)", "sine_prefactor = (np.pi) / (width * dx)", ["C13", "C19"]),
    ("spreading-window-rows-swapped-3d-assign", IB + "EulerianLagrangianGridCommunicator3D.py", "] += (\n                np.ascontiguousarray", "] = (\n                np.ascontiguousarray", ["C07", "C10"]),
    ("clock-assign-instead-of-add", "sopht/simulator/flow/flow_simulators.py", "        self.time += dt", "        self.time = dt", ["C01"]),
    ("forcing-prefactor", NS, "prefactor=self.real_t(dt / (2 * self.dx * self.flow_density)),", "prefactor=self.real_t(dt / (self.dx * self.flow_density)),", ["C01"]),
    ("poisson-rhs-velocity", NS, "            rhs_vector_field=self.vorticity_field,", "            rhs_vector_field=self.velocity_field,", ["C01"]),
    ("poisson-vector-component", P3 + "UnboundedPoissonSolverPYFFTW3D.py", "            rhs_field=rhs_vector_field[self.y_axis_idx],", "            rhs_field=rhs_vector_field[self.x_axis_idx],", ["C01", "C03"]),
    ("greens-4pi-to-2pi", P3 + "UnboundedPoissonSolverPYFFTW3D.py", "(1 / even_reflected_distance_field) / (4 * np.pi)", "(1 / even_reflected_distance_field) / (2 * np.pi)", ["C03"]),
    ("greens-meshgrid-swapped-2d", P2 + "UnboundedPoissonSolverPYFFTW2D.py", "x_grid_double, y_grid_double = np.meshgrid(x_double, y_double)", "y_grid_double, x_grid_double = np.meshgrid(x_double, y_double)", ["C03"]),
    ("doubled-buffer-not-reset", P3 + "UnboundedPoissonSolverPYFFTW3D.py", "        self.set_fixed_val_kernel_3d(field=self.domain_doubled_buffer, fixed_val=0)\n", "", ["C03", "C18", "C01"]),
    ("fastdiag-null-mode-index", P3 + "FastDiagPoissonSolver3D.py", "eig_val_matrix[-1, -1, -1] = np.inf", "eig_val_matrix[0, 0, 0] = np.inf", ["C11"]),
    ("fastdiag-corner", P3 + "FastDiagPoissonSolver3D.py", "            poisson_matrix_y[-1, -1] = inv_dx2", "            poisson_matrix_y[-1, -1] = 2 * inv_dx2", ["C11"]),
    ("fastdiag-sort-order-2d", P2 + "FastDiagPoissonSolver2D.py", "        idx = eig_vals_y.argsort()[::-1]", "        idx = eig_vals_y.argsort()", ["C11"]),
    ("fastdiag-eig-complex-2d", P2 + "FastDiagPoissonSolver2D.py", "la.eigh(poisson_matrix_x)", "la.eig(poisson_matrix_x)", ["C11"]),
    ("brinkmann-denominator-sign", E2 + "brinkmann_penalise_2d.py", ") / (1 + penalty_factor * char_field[0, 0])", ") / (1 - penalty_factor * char_field[0, 0])", ["C19", "C13"]),
    ("heaviside-sine-prefactor", E3 + "char_func_from_level_set_3d.py", "sine_prefactor = np.pi / blend_width", "sine_prefactor = 2 * np.pi / blend_width", ["C19", "C13"]),
    ("filter-stencil-weight", E3 + "laplacian_filter_3d.py", "filter_flux[0, 0, 0] @= 0.25 * (-field[0, 1, 0]", "filter_flux[0, 0, 0] @= 0.5 * (-field[0, 1, 0]", ["C19", "C13", "C05"]),
    ("timestep-tol-outside", "sopht/simulator/flow/passive_transport_flow_simulators.py", "/ (kinematic_viscosity + tol),", "/ kinematic_viscosity + tol,", ["C16"]),
    ("io-eulerian-component-reversed", "sopht/utils/io.py", 'self.eulerian_fields[field_name][idx_dim, ...] = f["Eulerian"][', 'self.eulerian_fields[field_name][self.dim - 1 - idx_dim, ...] = f["Eulerian"][', ["C17"]),
    ("io-dx-check-vacuous", "sopht/utils/io.py", 'if not np.allclose(self.eulerian_dx, f["Eulerian"]["Parameters"].attrs["dx"]):', "if not np.allclose(self.eulerian_dx, self.eulerian_dx):", ["C17"]),
    ("io-scalar-before-vector", "sopht/utils/io.py", "            if field.shape == lagrangian_grid.shape:\n                self.lagrangian_fields_type[field_name] = \"Vector\"\n            elif field.shape[0] == lagrangian_grid.shape[1]:\n                self.lagrangian_fields_type[field_name] = \"Scalar\"",
     "            if field.shape[0] == lagrangian_grid.shape[1]:\n                self.lagrangian_fields_type[field_name] = \"Scalar\"\n            elif field.shape == lagrangian_grid.shape:\n                self.lagrangian_fields_type[field_name] = \"Vector\"", ["C17"]),
    ("restart-min-instead-of-max", "sopht/utils/restart_sim.py", "latest = max(iter_num)", "latest = min(iter_num)", ["C18"]),
    ("vbf-law-coefficients-swapped", IB + "VirtualBoundaryForcing.py", "            virtual_boundary_stiffness_coeff * lag_grid_position_mismatch_field\n            + virtual_boundary_damping_coeff * lag_grid_velocity_mismatch_field",
     "            virtual_boundary_stiffness_coeff * lag_grid_velocity_mismatch_field\n            + virtual_boundary_damping_coeff * lag_grid_position_mismatch_field", ["C10"]),
    ("vbf-damping-not-scaled", "sopht/simulator/immersed_body/immersed_body_flow_interaction.py", "        virtual_boundary_damping_coeff *= max_lag_grid_dx ** (grid_dim - 1)\n", "", ["C10"]),
    ("vbf-half-dt", IB + "VirtualBoundaryForcing.py", "            dt=dt,\n        )\n        self.time += dt", "            dt=dt * 0.5,\n        )\n        self.time += dt", ["C10"]),
    ("cosine-kernel-normalisation", IB + "EulerianLagrangianGridCommunicator2D.py", "real_t((0.25 / dx) ** grid_dim)", "real_t((0.5 / dx) ** grid_dim)", ["C06"]),
    ("support-offsets-shifted-3d", IB + "EulerianLagrangianGridCommunicator3D.py", "x = np.arange(-interp_kernel_width + 1, interp_kernel_width + 1)", "x = np.arange(-interp_kernel_width, interp_kernel_width)", ["C06"]),
    ("peskin-coefficient", IB + "EulerianLagrangianGridCommunicator2D.py", "                    5.0\n                    - 2 * local_eul_grid_support_of_lag_grid[0]", "                    5.0\n                    - 2.5 * local_eul_grid_support_of_lag_grid[0]", ["C06"]),
    ("surface-omega-not-rotated", ROD, "        self.rod_element_global_frame_omega[...] = _batch_matvec(\n            self.rod_director_collection_transpose,", "        self.rod_element_global_frame_omega[...] = _batch_matvec(\n            self.cosserat_rod.director_collection,", ["C09"]),
    ("cylinder2d-velocity-sign", RIG, "            - global_frame_omega_z * self.global_frame_relative_position_field[1]", "            + global_frame_omega_z * self.global_frame_relative_position_field[1]", ["C09"]),
    ("edge-right-arm-sign", ROD, "element_velocity + _batch_cross(omega_collection, -self.moment_arm)", "element_velocity + _batch_cross(omega_collection, self.moment_arm)", ["C09"]),
    ("velocity-before-position", "sopht/simulator/immersed_body/immersed_body_flow_interaction.py",
     "        self.forcing_grid.compute_lag_grid_position_field()\n        self.forcing_grid.compute_lag_grid_velocity_field()\n        self.compute_interaction_forcing(",
     "        self.forcing_grid.compute_lag_grid_velocity_field()\n        self.forcing_grid.compute_lag_grid_position_field()\n        self.compute_interaction_forcing(", ["C09"]),
    ("surface-node-split-sign", ROD, "            body_flow_forces[:, i + 1] -= 0.5 * body_forces_on_elems", "            body_flow_forces[:, i + 1] += 0.5 * body_forces_on_elems", ["C08"]),
    ("edge-right-couple-arm", ROD, "        body_flow_torques[...] += _batch_cross(\n            -self.moment_arm, self.element_forces_right_edge_nodes\n        )", "        body_flow_torques[...] += _batch_cross(\n            self.moment_arm, self.element_forces_right_edge_nodes\n        )", ["C08"]),
    ("rigid-torque-frame", RIG, "        body_flow_torques[...] = -np.dot(\n            self.rigid_body.director_collection[:, :, 0],", "        body_flow_torques[...] = -np.dot(\n            self.rigid_body.director_collection[:, :, 0].T,", ["C08"]),
    ("flowforces-assign", "sopht/simulator/immersed_body/flow_forces.py", "system.external_forces += self.body_flow_interactor.body_flow_forces", "system.external_forces = self.body_flow_interactor.body_flow_forces", ["C08"]),
    ("position-field-not-flipped", "sopht/simulator/flow/flow_simulators.py", 'self.position_field = np.flipud(np.array(np.meshgrid(z, y, x, indexing="ij")))', 'self.position_field = np.array(np.meshgrid(z, y, x, indexing="ij"))', ["C05"]),
    ("advection-z-velocity-component", E3 + "advection_flux_3d.py", "            velocity_z=velocity[z_axis_idx],\n            inv_dx=inv_dx,\n        )\n        _advection_flux_z_back", "            velocity_z=velocity[y_axis_idx],\n            inv_dx=inv_dx,\n        )\n        _advection_flux_z_back", ["C04", "C05", "C14", "C13"]),
    ("lag-grid-eval-position-twice", IBFI, "        self.forcing_grid.compute_lag_grid_position_field()\n        self.forcing_grid.compute_lag_grid_velocity_field()\n        self.compute_interaction_force_on_lag_grid(",
     "        self.forcing_grid.compute_lag_grid_position_field()\n        self.forcing_grid.compute_lag_grid_position_field()\n        self.compute_interaction_force_on_lag_grid(", ["C10"]),
    ("lag-grid-eval-velocity-first", IBFI, "        self.forcing_grid.compute_lag_grid_position_field()\n        self.forcing_grid.compute_lag_grid_velocity_field()\n        self.compute_interaction_force_on_lag_grid(",
     "        self.forcing_grid.compute_lag_grid_velocity_field()\n        self.forcing_grid.compute_lag_grid_position_field()\n        self.compute_interaction_force_on_lag_grid(", ["C09", "C18"]),
    ("io-time-narrowed-to-real-dtype", "sopht/utils/io.py", 'f.attrs["time"] = time', 'f.attrs.create("time", data=time, dtype=self.real_dtype)', ["C17"]),
    ("diffusion-2d-flux-ring-not-reset", E2 + "diffusion_timestep_2d.py", "        num_threads=num_threads,\n    )\n\n    def diffusion_timestep_euler_forward_pyst_kernel_2d(",
     "        num_threads=num_threads,\n        reset_ghost_zone=False,\n    )\n\n    def diffusion_timestep_euler_forward_pyst_kernel_2d(", ["C20", "C13", "C16"]),
    ("convolution-filter-ring-reset-wrong-buffer", E3 + "laplacian_filter_3d.py", "        Applies convolution Laplacian filter on any scalar field.\n        \"\"\"\n        set_fixed_val_at_boundaries_3d(field=filter_flux_buffer, fixed_val=0)",
     "        Applies convolution Laplacian filter on any scalar field.\n        \"\"\"\n        set_fixed_val_at_boundaries_3d(field=field_buffer, fixed_val=0)", ["C19"]),
    ("cfl-measure-abs-of-sum", "sopht/simulator/flow/passive_transport_flow_simulators.py", "np.sum(np.fabs(velocity_field), axis=0)", "np.fabs(np.sum(velocity_field, axis=0))", ["C16"]),
    ("penalised-velocity-wrong-component-3d", E3 + "update_vorticity_from_velocity_forcing_3d.py", "            penalised_velocity_field_z=penalised_velocity_field[z_axis_idx],\n            velocity_field_x=velocity_field[x_axis_idx],",
     "            penalised_velocity_field_z=penalised_velocity_field[z_axis_idx],\n            velocity_field_x=velocity_field[y_axis_idx],", ["C12", "C13"]),
    ("poisson-2d-partial-clear-wrong-column-start", P2 + "UnboundedPoissonSolverPYFFTW2D.py", "        self.set_fixed_val_kernel_2d(field=self.domain_doubled_buffer, fixed_val=0)\n\n        self.elementwise_copy_kernel_2d(",
     "        self.set_fixed_val_kernel_2d(field=self.domain_doubled_buffer[self.grid_size_y :, :], fixed_val=0)\n        self.set_fixed_val_kernel_2d(field=self.domain_doubled_buffer[: self.grid_size_y, self.grid_size_y :], fixed_val=0)\n\n        self.elementwise_copy_kernel_2d(", ["C03", "C18", "C01"]),
    ("interp-2d-scalar-row-window-from-x-index", IB + "EulerianLagrangianGridCommunicator2D.py", "            lag_grid_field[i] = np.sum(\n                eul_grid_field[\n                    nearest_eul_grid_index_to_lag_grid[1, i]\n                    - interp_kernel_width\n                    + 1 : nearest_eul_grid_index_to_lag_grid[1, i] + interp_kernel_width + 1,",
     "            lag_grid_field[i] = np.sum(\n                eul_grid_field[\n                    nearest_eul_grid_index_to_lag_grid[0, i]\n                    - interp_kernel_width\n                    + 1 : nearest_eul_grid_index_to_lag_grid[0, i] + interp_kernel_width + 1,", ["C06", "C07"]),
    ("rigid-wrapper-swaps-reset-and-threads", "sopht/simulator/immersed_body/rigid_body/rigid_body_flow_interaction.py", "            enable_eul_grid_forcing_reset,\n            num_threads,\n            start_time,\n            **forcing_grid_kwargs,\n        )",
     "            num_threads,\n            enable_eul_grid_forcing_reset,\n            start_time,\n            **forcing_grid_kwargs,\n        )", ["C10"]),
    ("zone-width-zero-replaced-by-default", NS, 'self.penalty_zone_width = kwargs.get("penalty_zone_width", 2)', 'self.penalty_zone_width = kwargs.get("penalty_zone_width") or 2', ["C01"]),
    ("convolution-filter-z-block-uses-y-stencil", E3 + "laplacian_filter_3d.py", "            laplacian_filter_3d_z(filter_flux=filter_flux_buffer, field=field_buffer)\n            elementwise_copy_3d(field=field_buffer, rhs_field=filter_flux_buffer)\n        elementwise_saxpby_3d(",
     "            laplacian_filter_3d_y(filter_flux=filter_flux_buffer, field=field_buffer)\n            elementwise_copy_3d(field=field_buffer, rhs_field=filter_flux_buffer)\n        elementwise_saxpby_3d(", ["C05", "C13", "C19"]),
    ("fastdiag-2d-default-bc-spelling", P2 + "FastDiagPoissonSolver2D.py", 'bc_type: Literal["homogenous_neumann_along_xy"] = "homogenous_neumann_along_xy",', 'bc_type: Literal["homogeneous_neumann_along_xy"] = "homogeneous_neumann_along_xy",', ["C11"]),
    ("outplane-curl-2d-ghost-width-two", E2 + "outplane_field_curl_2d.py", "            boundary_width = 1\n", "            boundary_width = 2\n", ["C12", "C13", "C01"]),
    ("free-stream-skipped-when-max-is-zero", NS, "            ) -> None:\n                add_fixed_val(\n                    sum_field=self.velocity_field,", "            ) -> None:\n                if not np.max(free_stream_velocity):\n                    return\n                add_fixed_val(\n                    sum_field=self.velocity_field,", ["C14", "C01"]),
    ("timestep-3d-viscosity-divided-by-density", NS, "            kinematic_viscosity=self.kinematic_viscosity,\n            real_t=self.real_t,\n        )\n        return dt * dt_prefac", "            kinematic_viscosity=self.kinematic_viscosity / self.flow_density,\n            real_t=self.real_t,\n        )\n        return dt * dt_prefac", ["C16"], -1),
    ("eulerian-io-3d-origin-uses-y-for-x", "sopht/utils/io.py", "                        position_field[spu.VectorField.y_axis_idx()].min(),\n                        position_field[spu.VectorField.x_axis_idx()].min(),\n                    ]\n                )\n            case _:",
     "                        position_field[spu.VectorField.y_axis_idx()].min(),\n                        position_field[spu.VectorField.y_axis_idx()].min(),\n                    ]\n                )\n            case _:", ["C17"]),
    ("advection-3d-vector-y-advanced-twice", E3 + "advection_timestep_3d.py", "                    field=vector_field[z_axis_idx],", "                    field=vector_field[y_axis_idx],", ["C20", "C13", "C01"]),
    ("restart-max-over-strings", "sopht/utils/restart_sim.py", "iter_num = [int(filename.stem.split(\"_\")[-1]) for filename in Path.cwd().glob(\"sopht_*.h5\")]", "iter_num = [filename.stem.split(\"_\")[-1] for filename in Path.cwd().glob(\"sopht_*.h5\")]", ["C18"]),
    ("grid-constructor-velocity-before-position", RIG, "        self.compute_lag_grid_position_field()\n        self.compute_lag_grid_velocity_field()", "        self.compute_lag_grid_velocity_field()\n        self.compute_lag_grid_position_field()", ["C09", "C18"]),
    ("passive-buffer-allocated-in-default-precision", "sopht/simulator/flow/passive_transport_flow_simulators.py", "self.buffer_scalar_field = np.zeros(self.grid_size, dtype=self.real_t)", "self.buffer_scalar_field = np.zeros(self.grid_size)", ["C01"]),
    ("multiplicative-filter-loop-drops-last-copy", E3 + "laplacian_filter_3d.py", "            laplacian_filter_3d_z(filter_flux=filter_flux_buffer, field=field_buffer)\n            elementwise_copy_3d(field=field_buffer, rhs_field=filter_flux_buffer)\n\n        elementwise_saxpby_3d(",
     "            laplacian_filter_3d_z(filter_flux=filter_flux_buffer, field=field_buffer)\n\n        elementwise_saxpby_3d(", ["C13", "C19", "C01", "C14"]),
    ("greens-2d-self-cell-through-distance-guard", P2 + "UnboundedPoissonSolverPYFFTW2D.py", "greens_function_field[0, 0] = -(", "greens_function_field[even_reflected_distance_field < self.dx] = -(", ["C03"]),
    ("penalised-velocity-y-overwrites", E3 + "update_vorticity_from_velocity_forcing_3d.py", "        vorticity_field_y[0, 0, 0] @= vorticity_field_y[0, 0, 0] + prefactor * (", "        vorticity_field_y[0, 0, 0] @= prefactor * (", ["C05", "C12", "C13"], -1),
    ("interp-3d-scalar-accumulates", IB + "EulerianLagrangianGridCommunicator3D.py", "            lag_grid_field[i] = np.sum(", "            lag_grid_field[i] += np.sum(", ["C06", "C07"]),
    ("fastdiag-3d-solution-accumulated", P3 + "FastDiagPoissonSolver3D.py", "        solution_field[...] = np.tensordot(self.eig_vecs_z, self.spectral_field_buffer, axes=(1, 0))", "        solution_field[...] += np.tensordot(self.eig_vecs_z, self.spectral_field_buffer, axes=(1, 0))", ["C11", "C18"]),
    ("advection-2d-y-back-upwind-tie", E2 + "advection_flux_2d.py", "            if velocity_y[0, 0] > -velocity_y[-1, 0]", "            if velocity_y[0, 0] >= -velocity_y[-1, 0]", ["C13", "C04"]),
    ("io-registration-detaches-copy", "sopht/utils/io.py", "            self.eulerian_fields[field_name] = field", "            self.eulerian_fields[field_name] = np.asarray(field, dtype=self.real_dtype)", ["C17", "C18"]),
    ("heaviside-3d-blend-guard-inclusive", E3 + "char_func_from_level_set_3d.py", "            if abs(level_set_field[0, 0, 0]) > blend_width", "            if abs(level_set_field[0, 0, 0]) >= blend_width", ["C19", "C13"]),
    ("interaction-flow-velocity-conditional-copy", IBFI, "self.eul_grid_velocity_field = eul_grid_velocity_field.view()", "self.eul_grid_velocity_field = eul_grid_velocity_field.astype(real_t, copy=False).view()", ["C10"]),
    ("clock-increment-rounded-to-working-precision", "sopht/simulator/flow/flow_simulators.py", "        self.time += dt", "        self.time += self.real_t(dt)", ["C01"]),
    ("advection-3d-z-front-downwind-velocity-node", E3 + "advection_flux_3d.py", "                - (1 / 6) * field[2, 0, 0] * velocity_z[2, 0, 0]", "                - (1 / 6) * field[2, 0, 0] * velocity_z[1, 0, 0]", ["C04", "C13"]),
    ("simulator-z-coordinates-use-y-range", "sopht/simulator/flow/flow_simulators.py", "z = np.linspace(eul_grid_shift, self.z_range - eul_grid_shift, grid_size_z)", "z = np.linspace(eul_grid_shift, self.y_range - eul_grid_shift, grid_size_z)", ["C06"]),
    ("surface-grid-spacing-from-rest-lengths", ROD, "        return np.amax([self.cosserat_rod.lengths, self.cosserat_rod.radius * grid_angular_spacing])", "        return np.amax([self.cosserat_rod.rest_lengths, self.cosserat_rod.radius * grid_angular_spacing])", ["C10"]),
    ("fastdiag-2d-corner-coefficient-single-precision", P2 + "FastDiagPoissonSolver2D.py", "        inv_dx2 = self.real_t(1 / self.dx / self.dx)\n        if self.bc_type", "        inv_dx2 = np.float32(1 / self.dx / self.dx)\n        if self.bc_type", ["C11"]),
    ("vector-boundary-setter-misses-x-max-face", E3 + "elementwise_ops_3d.py", "vector_field=vector_field[:, :, :, -width:], fixed_vals=fixed_vals", "vector_field=vector_field[:, :, -width:], fixed_vals=fixed_vals", ["C14", "C13"]),
    ("dx-from-first-grid-axis", "sopht/simulator/flow/flow_simulators.py", "        self.dx = self.real_t(self.x_range / grid_size_x)", "        self.dx = self.real_t(self.x_range / self.grid_size[0])", ["C16"]),
    ("restart-time-guard-isclose", "sopht/utils/restart_sim.py", "    if curr_time != rod_time:", "    if not __import__(\"numpy\").isclose(curr_time, rod_time):", ["C18"]),
    ("rigid-grid-offset-buffers-aliased", RIG, "        self.local_frame_relative_position_field = np.zeros_like(self.position_field)\n        self.global_frame_relative_position_field = np.zeros_like(self.position_field)",
     "        self.local_frame_relative_position_field = self.global_frame_relative_position_field = np.zeros_like(self.position_field)", ["C09"]),
    ("surface-grid-couple-rotated-with-marker-director", ROD, "            body_flow_torques[:, i] = self.cosserat_rod.director_collection[:, :, i] @ np.sum(", "            body_flow_torques[:, i] = self.grid_point_director_transpose[:, :, i].T @ np.sum(", ["C08"]),
    ("brinkmann-vector-early-return-at-zero-penalty", E3 + "brinkmann_penalise_3d.py", "                \"\"\"Brinkmann penalises a vector field in 3D.\"\"\"\n", "                \"\"\"Brinkmann penalises a vector field in 3D.\"\"\"\n                if penalty_factor <= 0:\n                    return\n", ["C19", "C13"]),
    ("interaction-base-call-swaps-reset-and-threads", IBFI, "            enable_eul_grid_forcing_reset,\n            num_threads,\n            start_time,\n        )", "            num_threads,\n            enable_eul_grid_forcing_reset,\n            start_time,\n        )", ["C07", "C10", "C08", "C15"]),
    ("zone-damping-z-end-from-y-grid", E3 + "penalise_field_boundary_3d.py", "            z_grid_field_end = z_grid_field[-1, 0, 0]", "            z_grid_field_end = y_grid_field[0, -1, 0]", ["C01", "C13", "C19"]),
    ("lag-grid-evaluation-drops-position-refresh", IBFI, "        self.forcing_grid.compute_lag_grid_position_field()\n        self.forcing_grid.compute_lag_grid_velocity_field()\n        self.compute_interaction_force_on_lag_grid(",
     "        self.forcing_grid.compute_lag_grid_velocity_field()\n        self.compute_interaction_force_on_lag_grid(", ["C08", "C09", "C18", "C10"]),
    ("rectangular-plane-binormal-wrong-norm", "sopht/simulator/immersed_body/rigid_body/derived_rigid_bodies.py", "binormal / np.linalg.norm(binormal)", "binormal / np.linalg.norm(tangent)", ["C09"]),
    ("zero-grid-shift-replaced-by-default", IB + "VirtualBoundaryForcing.py", "        if eul_grid_coord_shift is None:", "        if not eul_grid_coord_shift:", ["C10", "C06"]),
    ("inplane-curl-accumulates", E2 + "inplane_field_curl_2d.py", "        curl[0, 0] @= (field_y[0, 1] - field_y[0, -1] - field_x[1, 0] + field_x[-1, 0]) * prefactor", "        curl[0, 0] @= curl[0, 0] + (field_y[0, 1] - field_y[0, -1] - field_x[1, 0] + field_x[-1, 0]) * prefactor", ["C12", "C13", "C05"]),
    ("advection-2d-y-back-selector-front-neighbour", E2 + "advection_flux_2d.py", "            if velocity_y[0, 0] > -velocity_y[-1, 0]", "            if velocity_y[0, 0] > -velocity_y[1, 0]", ["C14", "C04", "C13"]),
    ("interpolation-2d-compiled-parallel", IB + "EulerianLagrangianGridCommunicator2D.py", "    @njit(cache=True, fastmath=True)\n    def eulerian_to_lagrangian_grid_interpolation_kernel_2d(", "    @njit(cache=True, fastmath=True, parallel=True)\n    def eulerian_to_lagrangian_grid_interpolation_kernel_2d(", ["C15"]),
    ("diffusion-flux-2d-skipped-at-zero-prefactor", E2 + "diffusion_flux_2d.py", "                diffusion_flux_kernel_2d(\n                    diffusion_flux=diffusion_flux, field=field, prefactor=prefactor\n                )\n\n                # set boundary",
     "                if prefactor == 0:\n                    return\n                diffusion_flux_kernel_2d(\n                    diffusion_flux=diffusion_flux, field=field, prefactor=prefactor\n                )\n\n                # set boundary", ["C16", "C13"]),
    ("eulerian-registration-contiguous-copy", "sopht/utils/io.py", "            self.eulerian_fields[field_name] = field", "            self.eulerian_fields[field_name] = np.ascontiguousarray(field)", ["C17", "C18"]),
    ("unnamed-grid-counter-stuck", "sopht/utils/io.py", "            self.lagrangian_grid_count += 1", "            self.lagrangian_grid_count = +1", ["C18", "C17"]),
    ("diffusion-flux-2d-ghost-reset-on-operand", E2 + "diffusion_flux_2d.py", "                set_fixed_val_at_boundaries_2d(field=diffusion_flux, fixed_val=0)", "                set_fixed_val_at_boundaries_2d(field=field, fixed_val=0)", ["C05", "C13"]),
    # sixth-round rules
    ("filter-work-buffers-aliased-in-simulator", NS, "                field_buffer=self.buffer_vector_field[1],", "                field_buffer=self.buffer_scalar_field,", ["C19", "C04", "C14"]),
    ("element-centric-transfer-halves-marker-force-in-place", ROD, "        body_flow_forces[: self.grid_dim, 1:] -= 0.5 * lag_grid_forcing_field\n        body_flow_forces[: self.grid_dim, :-1] -= 0.5 * lag_grid_forcing_field",
     "        lag_grid_forcing_field *= 0.5\n        body_flow_forces[: self.grid_dim, 1:] -= lag_grid_forcing_field\n        body_flow_forces[: self.grid_dim, :-1] -= lag_grid_forcing_field", ["C10"]),
    ("rigid-load-buffer-takes-body-element-type", "sopht/simulator/immersed_body/rigid_body/rigid_body_flow_interaction.py", "        body_flow_forces = np.zeros((3, 1))", "        body_flow_forces = np.zeros_like(rigid_body.position_collection)", ["C08"]),
    ("rod-io-rebinds-registered-array", "sopht/utils/io.py", "        self.rod_element_position[...] = 0.5 * (", "        self.rod_element_position = 0.5 * (", ["C17"]),
    ("outplane-curl-ghost-reset-default-off", E2 + "outplane_field_curl_2d.py", "    reset_ghost_zone: bool = True,", "    reset_ghost_zone: bool = False,", ["C01"]),
    ("load-lagrangian-section-becomes-elif", "sopht/utils/io.py", "            if self.lagrangian_grids:", "            elif self.lagrangian_grids:", ["C18"]),
    ("spread2d-skips-markers-inside-the-admissible-domain", IB + "EulerianLagrangianGridCommunicator2D.py", "        for i in range(num_lag_nodes):\n            eul_grid_field[\n                ...,",
     "        for i in range(num_lag_nodes):\n            if np.min(nearest_eul_grid_index_to_lag_grid[:, i]) < interp_kernel_width:\n                continue\n            eul_grid_field[\n                ...,", ["C07"]),
    # seventh-round rules
    ("factory3d-drops-cfl", "sopht/simulator/flow/flow_simulators_3d.py", "        cfl=cfl,\n", "", ["C16"]),
    ("simulator2d-zero-zone-width-falls-back", NS, 'self.penalty_zone_width = kwargs.get("penalty_zone_width", 2)', 'self.penalty_zone_width = kwargs.get("penalty_zone_width") or 2', ["C19"]),
    ("interaction-forcing-field-contiguous-copy", IBFI, "self.eul_grid_forcing_field = eul_grid_forcing_field.view()", "self.eul_grid_forcing_field = np.ascontiguousarray(eul_grid_forcing_field).view()", ["C08", "C07", "C10"]),
    ("support2d-index-rounded", IB + "EulerianLagrangianGridCommunicator2D.py", "nearest_eul_grid_index_to_lag_grid[...] = (lag_positions - eul_grid_coord_shift) // dx", "nearest_eul_grid_index_to_lag_grid[...] = np.rint((lag_positions - eul_grid_coord_shift) / dx)", ["C07", "C06"]),
    ("forcing-update-2d-skipped-on-zero-x-forcing", E2 + "update_vorticity_from_velocity_forcing_2d.py", "        _update_vorticity_from_velocity_forcing_pyst_kernel_2d(\n", "        if not velocity_forcing_field[x_axis_idx].any():\n            return\n        _update_vorticity_from_velocity_forcing_pyst_kernel_2d(\n", ["C05"]),
    ("damping-coefficient-product-instead-of-power", IBFI, "virtual_boundary_damping_coeff *= max_lag_grid_dx ** (grid_dim - 1)", "virtual_boundary_damping_coeff *= max_lag_grid_dx * (grid_dim - 1)", ["C10"]),
    # eighth-round rules
    ("factory3d-drops-poisson-solver-type", "sopht/simulator/flow/flow_simulators_3d.py", "        poisson_solver_type=poisson_solver_type,\n", "", ["C01", "C16"]),
    ("forcing-support-buffer-single-precision", IB + "VirtualBoundaryForcing.py", "eul_grid_support_of_lag_grid_shape, dtype=real_t", "eul_grid_support_of_lag_grid_shape, dtype=np.float32", ["C06"]),
    ("load-skips-eulerian-checks-without-section", "sopht/utils/io.py", "            if self.eulerian_fields:\n                if not self.eulerian_grid_defined:", '            if self.eulerian_fields and "Eulerian" in keys:\n                if not self.eulerian_grid_defined:', ["C17"]),
    # ninth-round rule C13.h
    ("filter-ring-cleared-on-first-call-only", E3 + "laplacian_filter_3d.py", '    def scalar_field_multiplicative_filter_kernel_3d(scalar_field: np.ndarray) -> None:\n        """\n        Applies multiplicative Laplacian filter on any scalar field.\n        """\n        set_fixed_val_at_boundaries_3d(field=filter_flux_buffer, fixed_val=0)\n', '    _cleared: list = []\n\n    def scalar_field_multiplicative_filter_kernel_3d(scalar_field: np.ndarray) -> None:\n        """\n        Applies multiplicative Laplacian filter on any scalar field.\n        """\n        if not _cleared:\n            set_fixed_val_at_boundaries_3d(field=filter_flux_buffer, fixed_val=0)\n            _cleared.append(1)\n', ["C13"]),
]

# behaviour-preserving edits: every listed check must stay silent
CONTROLS = [
    ("filter-call-counter-both-paths-clear", E3 + "laplacian_filter_3d.py", '    def scalar_field_multiplicative_filter_kernel_3d(scalar_field: np.ndarray) -> None:\n        """\n        Applies multiplicative Laplacian filter on any scalar field.\n        """\n        set_fixed_val_at_boundaries_3d(field=filter_flux_buffer, fixed_val=0)\n', '    _calls: list = []\n\n    def scalar_field_multiplicative_filter_kernel_3d(scalar_field: np.ndarray) -> None:\n        """\n        Applies multiplicative Laplacian filter on any scalar field.\n        """\n        _calls.append(1)\n        if len(_calls) > 1:\n            set_fixed_val_at_boundaries_3d(fixed_val=0, field=filter_flux_buffer)\n        else:\n            set_fixed_val_at_boundaries_3d(field=filter_flux_buffer, fixed_val=0)\n', ["C13", "C19"]),
    ("reorder-laplacian-terms", E2 + "diffusion_flux_2d.py", "field[1, 0] + field[-1, 0] + field[0, 1] + field[0, -1] - 4 * field[0, 0]", "field[0, 1] + field[0, -1] - 4 * field[0, 0] + field[-1, 0] + field[1, 0]", ["C04", "C05", "C13", "C16"]),
    ("prefactor-on-the-left", E2 + "outplane_field_curl_2d.py", "curl_x[0, 0] @= (field[1, 0] - field[-1, 0]) * prefactor", "curl_x[0, 0] @= prefactor * field[1, 0] - prefactor * field[-1, 0]", ["C05", "C12", "C13", "C14"]),
    ("one-third-as-two-sixths", E2 + "advection_flux_2d.py", "(1 / 3) * field[0, 1] * velocity_x[0, 1]", "(2 / 6) * field[0, 1] * velocity_x[0, 1]", ["C04", "C05", "C13"]),
    ("rename-stencil", E3 + "divergence_3d.py", "_divergence_stencil_3d", "_div_stencil", ["C12", "C13", "C15"], 0),
    ("swap-independent-curl-launches", E3 + "curl_3d.py", "        # curl_x = df_z / dy - df_y / dz\n        _curl_x_comp_3d(\n            curl_x=curl[x_axis_idx],\n            field_z=field[z_axis_idx],\n            field_y=field[y_axis_idx],\n            prefactor=prefactor,\n        )\n        # curl_y = df_x / dz - df_z / dx\n        _curl_y_comp_3d(\n            curl_y=curl[y_axis_idx],\n            field_x=field[x_axis_idx],\n            field_z=field[z_axis_idx],\n            prefactor=prefactor,\n        )",
     "        _curl_y_comp_3d(\n            curl_y=curl[y_axis_idx],\n            field_x=field[x_axis_idx],\n            field_z=field[z_axis_idx],\n            prefactor=prefactor,\n        )\n        _curl_x_comp_3d(\n            curl_x=curl[x_axis_idx],\n            field_z=field[z_axis_idx],\n            field_y=field[y_axis_idx],\n            prefactor=prefactor,\n        )", ["C12", "C13", "C15", "C01"]),
    ("drop-writeable-flag", "sopht/simulator/immersed_body/immersed_body_flow_interaction.py", "        self.eul_grid_velocity_field.flags.writeable = False\n", "", ["C10"]),
    ("node-split-via-helper", ROD, "        body_flow_forces[...] = 0.0\n        body_flow_forces[: self.grid_dim, 1:] -= 0.5 * lag_grid_forcing_field\n        body_flow_forces[: self.grid_dim, :-1] -= 0.5 * lag_grid_forcing_field\n",
     "        body_flow_forces[...] = 0.0\n        body_flow_forces[: self.grid_dim, :-1] -= 0.5 * lag_grid_forcing_field\n        body_flow_forces[: self.grid_dim, 1:] -= 0.5 * lag_grid_forcing_field\n", ["C08"]),
    ("log-of-square", P2 + "UnboundedPoissonSolverPYFFTW2D.py", "greens_function_field = -np.log(even_reflected_distance_field) / (2 * np.pi)", "greens_function_field = -np.log(even_reflected_distance_field**2) / (4 * np.pi)", ["C03"]),
    ("restart-sorted-last", "sopht/utils/restart_sim.py", "latest = max(iter_num)", "latest = sorted(iter_num)[-1]", ["C18"]),
    ("moveaxis-equivalent-2d", "sopht/utils/io.py", "                                -1,\n                                0,\n                            )", "                                0,\n                                -1,\n                            )", ["C17"]),
    ("prefix-sum-minus-zero", ROD, "            start_idx_temp += self.surface_grid_points[i]", "            start_idx_temp += self.surface_grid_points[i] - 0", ["C08"]),
    ("time-step-prefactor-order", NS, "prefactor=self.real_t(0.5 / self.dx),\n        )\n        self._update_velocity_with_free_stream(free_stream_velocity=free_stream_velocity)\n\n    def _navier_stokes_with_forcing_time_step(\n        self, dt: float, free_stream_velocity: np.ndarray = _zeros_2",
     "prefactor=self.real_t(1.0 / (2.0 * self.dx)),\n        )\n        self._update_velocity_with_free_stream(free_stream_velocity=free_stream_velocity)\n\n    def _navier_stokes_with_forcing_time_step(\n        self, dt: float, free_stream_velocity: np.ndarray = _zeros_2", ["C01"]),
    ("euler-update-commuted", IB + "VirtualBoundaryForcing.py", "            lag_grid_position_mismatch_field + dt * lag_grid_velocity_mismatch_field", "            dt * lag_grid_velocity_mismatch_field + lag_grid_position_mismatch_field", ["C10"]),
    ("cylinder-velocity-rewritten", RIG, "            self.cylinder.velocity_collection[1]\n            + global_frame_omega_z * self.global_frame_relative_position_field[0]", "            global_frame_omega_z * self.global_frame_relative_position_field[0]\n            + self.cylinder.velocity_collection[1]", ["C09"]),
    ("io-time-explicit-float64", "sopht/utils/io.py", 'f.attrs["time"] = time', 'f.attrs.create("time", data=time, dtype=np.float64)', ["C17"]),
    ("diffusion-2d-explicit-ghost-reset", E2 + "diffusion_timestep_2d.py", "        num_threads=num_threads,\n    )\n\n    def diffusion_timestep_euler_forward_pyst_kernel_2d(",
     "        num_threads=num_threads,\n        reset_ghost_zone=True,\n    )\n\n    def diffusion_timestep_euler_forward_pyst_kernel_2d(", ["C20", "C13", "C16"]),
    ("flow-forces-inlines-lag-grid-evaluation", IBFI, "        self.compute_interaction_on_lag_grid()\n        self.forcing_grid.transfer_forcing_from_grid_to_body(",
     "        self.forcing_grid.compute_lag_grid_position_field()\n        self.forcing_grid.compute_lag_grid_velocity_field()\n        self.compute_interaction_force_on_lag_grid(\n            eul_grid_velocity_field=self.eul_grid_velocity_field,\n            lag_grid_position_field=self.forcing_grid.position_field,\n            lag_grid_velocity_field=self.forcing_grid.velocity_field,\n        )\n        self.forcing_grid.transfer_forcing_from_grid_to_body(", ["C08", "C09", "C10", "C18"]),
    ("cfl-measure-np-abs", "sopht/simulator/flow/passive_transport_flow_simulators.py", "np.sum(np.fabs(velocity_field), axis=0)", "np.sum(np.abs(velocity_field), axis=0)", ["C16"]),
    ("ssprk3-weights-as-fractions", E3 + "vorticity_stretching_timestep_3d.py", "            field_1_prefac=0.75,\n            field_2_prefac=0.25,", "            field_1_prefac=(3.0 / 4.0),\n            field_2_prefac=(1.0 / 4.0),", ["C20", "C13"]),
    ("boundary-setter-explicit-zero-start", E2 + "elementwise_ops_2d.py", "set_fixed_val_kernel_2d(field=field[:width, :], fixed_val=fixed_val)", "set_fixed_val_kernel_2d(field=field[0:width, :], fixed_val=fixed_val)", ["C13", "C15"]),
    ("brinkmann-commuted-product", E2 + "brinkmann_penalise_2d.py", "            field[0, 0] + penalty_factor * char_field[0, 0] * penalty_field[0, 0]\n        ) / (1 + penalty_factor * char_field[0, 0])",
     "            penalty_field[0, 0] * char_field[0, 0] * penalty_factor + field[0, 0]\n        ) / (char_field[0, 0] * penalty_factor + 1)", ["C19", "C13"]),
    ("fastdiag-2d-corner-order", P2 + "FastDiagPoissonSolver2D.py", "            poisson_matrix_x[0, 0] = inv_dx2\n            poisson_matrix_x[-1, -1] = inv_dx2\n            poisson_matrix_y[0, 0] = inv_dx2\n            poisson_matrix_y[-1, -1] = inv_dx2",
     "            poisson_matrix_y[-1, -1] = inv_dx2\n            poisson_matrix_y[0, 0] = inv_dx2\n            poisson_matrix_x[-1, -1] = inv_dx2\n            poisson_matrix_x[0, 0] = inv_dx2", ["C11"]),
    ("rigid-body-cross-flipped-with-sign", RIG, "        self.velocity_field[...] = self.rigid_body.velocity_collection + _batch_cross(\n            global_frame_omega * np.ones(self.num_lag_nodes),\n            self.global_frame_relative_position_field,\n        )",
     "        self.velocity_field[...] = self.rigid_body.velocity_collection - _batch_cross(\n            self.global_frame_relative_position_field,\n            global_frame_omega * np.ones(self.num_lag_nodes),\n        )", ["C09"]),
    ("poisson-2d-clear-padding-only", P2 + "UnboundedPoissonSolverPYFFTW2D.py", "        self.set_fixed_val_kernel_2d(field=self.domain_doubled_buffer, fixed_val=0)\n\n        self.elementwise_copy_kernel_2d(",
     "        self.set_fixed_val_kernel_2d(field=self.domain_doubled_buffer[self.grid_size_y :, :], fixed_val=0)\n        self.set_fixed_val_kernel_2d(field=self.domain_doubled_buffer[: self.grid_size_y, self.grid_size_x :], fixed_val=0)\n\n        self.elementwise_copy_kernel_2d(", ["C03", "C18", "C01", "C15"]),
    ("rigid-wrapper-keyword-arguments", "sopht/simulator/immersed_body/rigid_body/rigid_body_flow_interaction.py", "            enable_eul_grid_forcing_reset,\n            num_threads,\n            start_time,\n            **forcing_grid_kwargs,\n        )",
     "            num_threads=num_threads,\n            enable_eul_grid_forcing_reset=enable_eul_grid_forcing_reset,\n            start_time=start_time,\n            **forcing_grid_kwargs,\n        )", ["C10"]),
    ("restart-max-with-int-key", "sopht/utils/restart_sim.py", "    latest = max(iter_num)", "    latest = int(max(iter_num, key=int))", ["C18"]),
    ("restart-locals-renamed", "sopht/utils/restart_sim.py", '    # find latest saved data\n    iter_num = [int(filename.stem.split("_")[-1]) for filename in Path.cwd().glob("sopht_*.h5")]\n\n    if len(iter_num) == 0:\n        msg = "There is no file to load in the directory."\n        raise FileNotFoundError(msg)\n\n    latest = max(iter_num)\n    # load sopht data\n    curr_time = io.load(h5_file_name=f"sopht_{latest:04d}.h5")\n    rod_io.load(h5_file_name=f"rod_{latest:04d}.h5")\n    forcing_io.load(h5_file_name=f"forcing_grid_{latest:04d}.h5")\n    rod_time = ea.load_state(restart_simulator, restart_dir, True)\n\n    if curr_time != rod_time:\n        msg = "Simulation time of the flow is not matched with the Elastica, check your inputs!"\n        raise ValueError(msg)\n    logger.info("sopht_%04d.h5 has been loaded", latest)\n\n    return curr_time\n', '    # find newest saved data\n    indices = [int(filename.stem.split("_")[-1]) for filename in Path.cwd().glob("sopht_*.h5")]\n\n    if len(indices) == 0:\n        msg = "There is no file to load in the directory."\n        raise FileNotFoundError(msg)\n\n    newest = max(indices)\n    # load sopht data\n    flow_time = io.load(h5_file_name=f"sopht_{newest:04d}.h5")\n    rod_io.load(h5_file_name=f"rod_{newest:04d}.h5")\n    forcing_io.load(h5_file_name=f"forcing_grid_{newest:04d}.h5")\n    body_time = ea.load_state(restart_simulator, restart_dir, True)\n\n    if flow_time != body_time:\n        msg = "Simulation time of the flow is not matched with the Elastica, check your inputs!"\n        raise ValueError(msg)\n    logger.info("sopht_%04d.h5 has been loaded", newest)\n\n    return flow_time\n', ["C18"]),
    ("statement-between-position-and-velocity-refresh", IBFI, "        self.forcing_grid.compute_lag_grid_position_field()\n        self.forcing_grid.compute_lag_grid_velocity_field()\n        self.compute_interaction_forcing(",
     "        self.forcing_grid.compute_lag_grid_position_field()\n        num_markers = self.forcing_grid.num_lag_nodes\n        self.forcing_grid.compute_lag_grid_velocity_field()\n        self.compute_interaction_forcing(", ["C09", "C10", "C18"]),
    ("interaction-flow-velocity-plain-reference", IBFI, "self.eul_grid_velocity_field = eul_grid_velocity_field.view()", "self.eul_grid_velocity_field = eul_grid_velocity_field[...]", ["C10", "C18"]),
    ("forcing-update-contiguous-copy-of-read-only-input", E3 + "update_vorticity_from_velocity_forcing_3d.py", "        vorticity_field: np.ndarray,\n        velocity_forcing_field: np.ndarray,\n        prefactor: float,\n    ) -> None:",
     "        vorticity_field: np.ndarray,\n        velocity_forcing_field: np.ndarray,\n        prefactor: float,\n    ) -> None:\n        velocity_forcing_field = np.ascontiguousarray(velocity_forcing_field)", ["C12", "C13", "C05"]),
    ("clock-increment-spelled-out", "sopht/simulator/flow/flow_simulators.py", "        self.time += dt", "        self.time = self.time + dt", ["C01", "C18"]),
    ("rigid-load-buffer-explicit-float", "sopht/simulator/immersed_body/rigid_body/rigid_body_flow_interaction.py", "        body_flow_forces = np.zeros((3, 1))", "        body_flow_forces = np.zeros((3, 1), dtype=np.float64)", ["C08", "C10"]),
    ("element-centric-transfer-halves-a-local-copy", ROD, "        body_flow_forces[: self.grid_dim, 1:] -= 0.5 * lag_grid_forcing_field\n        body_flow_forces[: self.grid_dim, :-1] -= 0.5 * lag_grid_forcing_field",
     "        half = 0.5 * lag_grid_forcing_field\n        body_flow_forces[: self.grid_dim, 1:] -= half\n        body_flow_forces[: self.grid_dim, :-1] -= half", ["C10", "C08"]),
    ("filter-work-buffer-through-a-view", NS, "                field_buffer=self.buffer_vector_field[1],", "                field_buffer=self.buffer_vector_field[1].view(),", ["C19"]),
    ("spread2d-skips-markers-whose-window-leaves-the-grid", IB + "EulerianLagrangianGridCommunicator2D.py", "        for i in range(num_lag_nodes):\n            eul_grid_field[\n                ...,",
     "        for i in range(num_lag_nodes):\n            if np.min(nearest_eul_grid_index_to_lag_grid[:, i]) < interp_kernel_width - 1:\n                continue\n            eul_grid_field[\n                ...,", ["C07", "C06"]),
    ("forcing-update-2d-skipped-on-all-zero-forcing", E2 + "update_vorticity_from_velocity_forcing_2d.py", "        _update_vorticity_from_velocity_forcing_pyst_kernel_2d(\n", "        if not velocity_forcing_field.any():\n            return\n        _update_vorticity_from_velocity_forcing_pyst_kernel_2d(\n", ["C05", "C12", "C13"]),
    ("simulator2d-zone-width-explicit-none-test", NS, 'self.penalty_zone_width = kwargs.get("penalty_zone_width", 2)', 'self.penalty_zone_width = kwargs["penalty_zone_width"] if "penalty_zone_width" in kwargs else 2', ["C19", "C01"]),
]


def _run(job):
    kind, name, f, old, new, pids = job[:6]
    count = job[6] if len(job) > 6 else 1
    from tools_mutate import run_mutant
    res = run_mutant(f, old, new, pids, count)
    return kind, name, pids, res


def main(argv=None):
    ap = argparse.ArgumentParser()
    ap.add_argument("--jobs", type=int, default=min(8, os.cpu_count() or 1))
    ap.add_argument("--only", default="")
    ap.add_argument("--sample", type=int, default=0)
    args = ap.parse_args(argv)
    jobs = [("mutant",) + m for m in MUTANTS] + [("control",) + c for c in CONTROLS]
    if args.only:
        jobs = [j for j in jobs if args.only in j[1] or args.only in ",".join(j[5])]
    if args.sample:
        rnd = random.Random(int(os.environ.get("VERIF_SEED", "0") or 0))
        jobs = rnd.sample(jobs, min(args.sample, len(jobs)))
    os.environ["VERIF_JOBS"] = "2"
    bad = 0
    with ProcessPoolExecutor(max_workers=args.jobs) as ex:
        for kind, name, pids, res in ex.map(_run, jobs):
            if "error" in res:
                print("SELFTEST-ERROR %s %s: %s" % (kind, name, res["error"]))
                bad += 1
                continue
            for pid in pids:
                rc, lines, tail = res[pid]
                want = 1 if kind == "mutant" else 0
                ok = rc == want
                print("%s %-8s %-45s %s exit=%d %s" % ("ok  " if ok else "FAIL", kind, name, pid, rc, (lines[1].strip() if len(lines) > 1 else "")[:110]))
                if not ok:
                    bad += 1
                    if tail:
                        print("     " + tail.strip().splitlines()[-1][:200])
    print("selftest: %d jobs, %d failures" % (len(jobs), bad))
    return 1 if bad else 0


if __name__ == "__main__":
    sys.exit(main())
