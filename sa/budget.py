"""Resource budget of one check process: an address-space cap and a wall-clock alarm, so that a change to SophT which makes the
symbolic execution blow up (e.g. a stencil composed with itself) ends in ANALYSIS-ERROR (exit 2) instead of exhausting the
machine.  Values can be overridden with VERIF_MEM_GB / VERIF_TIME_S / VERIF_ITEM_TIME_S."""
from __future__ import annotations

import os
import resource
import signal

from .values import Unsupported

DEFAULT_MEM_GB = 3
DEFAULT_TIME_S = {"quick": 3600, "thorough": 14400}
DEFAULT_ITEM_TIME_S = {"quick": 1800, "thorough": 7200}
TIER = ["quick"]


class BudgetExceeded(Unsupported):
    pass


def _on_alarm(signum, frame):
    raise BudgetExceeded("time budget of the analysis exceeded (the analysed code makes the symbolic execution blow up)")


def install(tier, main_process=False):
    TIER[0] = tier
    gb = float(os.environ.get("VERIF_MEM_GB", DEFAULT_MEM_GB))
    try:
        soft, hard = resource.getrlimit(resource.RLIMIT_AS)
        lim = int(gb * (1 << 30))
        if hard != resource.RLIM_INFINITY:
            lim = min(lim, hard)
        resource.setrlimit(resource.RLIMIT_AS, (lim, hard))
    except (ValueError, OSError):
        pass
    if main_process:
        signal.signal(signal.SIGALRM, _on_alarm)
        signal.alarm(int(os.environ.get("VERIF_TIME_S", DEFAULT_TIME_S.get(tier, 1500))))


def start_item():
    """called at the start of one worker item (forked workers do not inherit the parent's alarm)"""
    signal.signal(signal.SIGALRM, _on_alarm)
    signal.alarm(int(os.environ.get("VERIF_ITEM_TIME_S", DEFAULT_ITEM_TIME_S.get(TIER[0], 600))))


def end_item():
    signal.alarm(0)
