"""python3 -m sa.check <ID> [--tier quick|thorough]"""
from __future__ import annotations

import argparse
import importlib
import os
import sys
import traceback

LEVELS = {"C04": "proof", "C05": "proof", "C12": "proof", "C20": "proof"}

ASSUMPTIONS = {
    "A1": "pystencils 1.x semantics: one assignment per cell, interior shrunk by max |offset| on every axis, iteration_slice exact, fields of one kernel share shape",
    "A2": "numeric literals are read as the exact rationals they denote; results are up to rounding",
    "A3": "numpy basic slicing / broadcasting / overlap-safe slice assignment",
    "A7": "the extractor and normaliser in /verif/sa (validated by the both-ways self-test)",
    "A8": "distinct parameters of a public kernel are distinct arrays unless SophT binds them",
}


def main(argv=None):
    ap = argparse.ArgumentParser()
    ap.add_argument("pid")
    ap.add_argument("--tier", default=os.environ.get("VERIF_TIER", "quick"))
    ap.add_argument("--repo", default=os.environ.get("SOPHT_REPO", "/repo"))
    ap.add_argument("--no-evidence", action="store_true", help="do not (re)write evidence/replay files (mutation self-test)")
    args = ap.parse_args(argv)
    pid = args.pid.upper()
    tier = args.tier if args.tier in ("quick", "thorough") else "quick"
    seed = int(os.environ.get("VERIF_SEED", "0") or 0)
    from .report import Report
    from .values import Unsupported
    rep = Report(pid, LEVELS.get(pid, "other"), tier, seed)
    rep.write_files = not args.no_evidence
    rep.assumptions = [ASSUMPTIONS[k] for k in ("A1", "A2", "A3", "A7", "A8")]
    from .budget import install as _install_budget
    _install_budget(tier, main_process=True)
    try:
        os.environ["SOPHT_REPO"] = args.repo
        from . import driver
        driver.REPO = args.repo
        mod = importlib.import_module("sa.props." + pid.lower())
        from .regions import run_under_size_cases
        from .props.simtools import tag_case
        files = set()

        def one(case):
            S = driver.Session(args.repo)
            r = Report(pid, LEVELS.get(pid, "other"), tier, seed)
            r.assumptions = list(rep.assumptions)
            mod.run(S, tier, r)
            files.update(S.I.files_read)
            return r
        done = run_under_size_cases(one, getattr(mod, "CASE_SPLIT", False))
        for case, r in done:
            tag_case(r.obligations, case)
            rep.obligations.extend(r.obligations)
            rep.samples.extend(s for s in r.samples if len(rep.samples) < 12)
            for k, v in r.analysed.items():
                if k == "size_cases":
                    rep.analysed.setdefault(k, [])
                    rep.analysed[k] += [c for c in v if c not in rep.analysed[k]]
                else:
                    rep.analysed.setdefault(k, v)
            for k, v in r.min_counts.items():
                rep.min_counts[k] = v
            for a in ("rule_text", "explanation", "trusted_base"):
                if getattr(r, a, None):
                    setattr(rep, a, getattr(r, a))
            rep.assumptions = r.assumptions
        if len(done) > 1:
            rep.analysed.setdefault("size_cases", [])
            rep.analysed["size_cases"] += [c.label() for c, _ in done if c.label() and c.label() not in rep.analysed["size_cases"]]
        rep.note("files_read", sorted(files))
        from .regions import Threshold
        rep.note("grid_size_threshold", str(Threshold.value))
        return rep.finish()
    except Unsupported as ex:
        print("ANALYSIS-ERROR: property=%s %s" % (pid, ex))
        traceback.print_exc()
        return 2
    except Exception as ex:  # noqa: BLE001
        print("ANALYSIS-ERROR: property=%s internal error %s: %s" % (pid, type(ex).__name__, ex))
        traceback.print_exc()
        return 2


if __name__ == "__main__":
    sys.exit(main())
