"""Effects of @njit kernels read from their bodies: which parameters are written / read."""
from __future__ import annotations

import ast


def _root_name(node):
    while isinstance(node, (ast.Subscript, ast.Attribute)):
        node = node.value
    return node.id if isinstance(node, ast.Name) else None


def numba_effects(nj):
    fn = nj.fn.node
    params = [a.arg for a in fn.args.args]
    writes, reads = set(), set()
    aliases = {}
    for st in ast.walk(fn):
        if isinstance(st, ast.Assign):
            for t in st.targets:
                if isinstance(t, ast.Subscript):
                    r = _root_name(t)
                    r = aliases.get(r, r)
                    if r in params:
                        writes.add(r)
                elif isinstance(t, ast.Name):
                    # local alias of a parameter view
                    r = _root_name(st.value) if isinstance(st.value, (ast.Subscript, ast.Name, ast.Attribute)) else None
                    if r in params:
                        aliases[t.id] = r
        elif isinstance(st, ast.AugAssign):
            r = _root_name(st.target)
            r = aliases.get(r, r)
            if r in params and isinstance(st.target, ast.Subscript):
                writes.add(r)
    for n in ast.walk(fn):
        if isinstance(n, ast.Name) and isinstance(n.ctx, ast.Load) and n.id in params:
            reads.add(n.id)
    return {"params": params, "writes": writes, "reads": reads}
