"""Effects of @njit kernels read from their bodies (assumption A4: serial program order)."""
from __future__ import annotations

import ast


def _root_name(node):
    while isinstance(node, (ast.Subscript, ast.Attribute, ast.Call)):
        if isinstance(node, ast.Call):
            node = node.func
        else:
            node = node.value
    return node.id if isinstance(node, ast.Name) else None


def _names(node):
    return {n.id for n in ast.walk(node) if isinstance(n, ast.Name)}


class WriteRec:
    def __init__(self, param, kind, comps, deps, lineno, aug):
        self.param, self.kind, self.comps, self.deps, self.lineno, self.aug = param, kind, comps, deps, lineno, aug

    def __repr__(self):
        return "Write(%s %s comps=%s deps=%s aug=%s)" % (self.param, self.kind, self.comps, sorted(self.deps), self.aug)


def _classify_index(sl, loopvars):
    """'full' for [...], ('marker', comps) for [c.., i] / [i] with i a range-loop variable, else 'partial'"""
    if isinstance(sl, ast.Constant) and sl.value is Ellipsis:
        return "full", None
    elts = sl.elts if isinstance(sl, ast.Tuple) else [sl]
    if elts and isinstance(elts[-1], ast.Name) and elts[-1].id in loopvars:
        lead = elts[:-1]
        comps = []
        for e in lead:
            if isinstance(e, ast.Constant) and isinstance(e.value, int):
                comps.append(e.value)
            elif isinstance(e, ast.Constant) and e.value is Ellipsis:
                comps.append("...")
            else:
                return "partial", None
        return "marker", tuple(comps)
    return "partial", None


def numba_effects(nj):
    fn = nj.fn.node if hasattr(nj, "fn") else nj
    params = [a.arg for a in fn.args.args]
    recs = []
    aliases = {}

    def visit(stmts, loopvars):
        for st in stmts:
            if isinstance(st, ast.For):
                lv = set(loopvars)
                if isinstance(st.target, ast.Name) and isinstance(st.iter, ast.Call) and ast.unparse(st.iter.func) == "range":
                    lv.add(st.target.id)
                visit(st.body, lv)
                continue
            if isinstance(st, (ast.If, ast.While, ast.With)):
                visit(getattr(st, "body", []), loopvars)
                visit(getattr(st, "orelse", []), loopvars)
                continue
            if isinstance(st, ast.Assign):
                for t in st.targets:
                    if isinstance(t, ast.Subscript):
                        r = _root_name(t)
                        r = aliases.get(r, r)
                        if r in params:
                            kind, comps = _classify_index(t.slice, loopvars)
                            deps = {aliases.get(n, n) for n in _names(st.value)} | ({aliases.get(n, n) for n in _names(t.slice)} - loopvars)
                            recs.append(WriteRec(r, kind, comps, deps, st.lineno, False))
                    elif isinstance(t, ast.Name):
                        r = _root_name(st.value) if isinstance(st.value, (ast.Subscript, ast.Name, ast.Attribute)) else None
                        if r in params and isinstance(st.value, (ast.Subscript, ast.Name)):
                            aliases[t.id] = r
            elif isinstance(st, ast.AugAssign):
                r = _root_name(st.target)
                r = aliases.get(r, r)
                if r in params:
                    deps = {aliases.get(n, n) for n in _names(st.value)} | {r}
                    if isinstance(st.target, ast.Subscript):
                        kind, comps = _classify_index(st.target.slice, loopvars)
                        deps |= {aliases.get(n, n) for n in _names(st.target.slice)} - loopvars
                        recs.append(WriteRec(r, "accumulate", comps, deps, st.lineno, True))
                    else:
                        recs.append(WriteRec(r, "inplace", None, deps, st.lineno, True))
    visit(fn.body, set())
    writes = {r.param for r in recs}
    reads = set()
    for n in ast.walk(fn):
        if isinstance(n, ast.Name) and isinstance(n.ctx, ast.Load) and n.id in params:
            reads.add(n.id)
    per = {}
    for p in writes:
        rs = [r for r in recs if r.param == p]
        overwrite = all((r.kind in ("full", "marker")) and not r.aug and p not in r.deps for r in rs[:1]) and rs[0].kind in ("full", "marker")
        # first write decides whether earlier content survives; later in-place updates read the new content
        first = rs[0]
        mode = "overwrite" if (first.kind in ("full", "marker") and not first.aug and p not in first.deps) else "update"
        comps = None
        if mode == "overwrite" and first.kind == "marker":
            comps = {r.comps for r in rs if r.kind == "marker" and not r.aug}
        deps = set()
        for r in rs:
            deps |= r.deps
        if mode == "overwrite":
            deps.discard(p)
        per[p] = {"mode": mode, "comps": comps, "deps": deps & set(params), "free": deps - set(params), "records": rs}
    return {"params": params, "writes": writes, "reads": reads, "per": per, "records": recs}


# ---------------------------------------------------------------------------- whole-array elementwise kernels
def elementwise_forms(fn):
    """for statements `p[...] = <arithmetic of parameters>` return {p: PW} with every name a symbol
    (arrays are combined elementwise, so the scalar identity is the cellwise identity)"""
    from fractions import Fraction
    from .poly import PW, sym, const, fn as pfn
    from .values import Unsupported
    node = fn.fn.node if hasattr(fn, "fn") and hasattr(fn.fn, "node") else (fn.node if hasattr(fn, "node") else fn)

    def conv(e):
        if isinstance(e, ast.Name):
            return sym(e.id)
        if isinstance(e, ast.Constant) and isinstance(e.value, (int, float)):
            return const(Fraction(repr(e.value)) if isinstance(e.value, float) else e.value)
        if isinstance(e, ast.BinOp):
            a, b = conv(e.left), conv(e.right)
            if isinstance(e.op, ast.Add):
                return a + b
            if isinstance(e.op, ast.Sub):
                return a - b
            if isinstance(e.op, ast.Mult):
                return a * b
            if isinstance(e.op, ast.Div):
                return a / b
            if isinstance(e.op, ast.Pow) and isinstance(e.right, ast.Constant) and isinstance(e.right.value, int):
                return a ** e.right.value
        if isinstance(e, ast.UnaryOp) and isinstance(e.op, ast.USub):
            return -conv(e.operand)
        if isinstance(e, ast.Call) and ast.unparse(e.func) in ("np.fabs", "np.abs", "abs") and len(e.args) == 1:
            return pfn("abs", conv(e.args[0]))
        raise Unsupported("elementwise numba expression %s" % ast.unparse(e))
    out = {}
    for st in node.body:
        if isinstance(st, ast.Expr) and isinstance(st.value, ast.Constant):
            continue
        if isinstance(st, ast.Assign) and len(st.targets) == 1 and isinstance(st.targets[0], ast.Subscript):
            t = st.targets[0]
            if isinstance(t.value, ast.Name) and isinstance(t.slice, ast.Constant) and t.slice.value is Ellipsis:
                out[t.value.id] = conv(st.value)
                continue
        raise Unsupported("numba kernel %s is not a sequence of whole-array assignments" % node.name)
    return out
