"""C04: transport, diffusion and forcing conserve total vorticity / transported scalar."""
from __future__ import annotations

import itertools

from ..algtools import launch_exprs, telescopes
from ..poly import PW, Poly, as_poly, const, fld, shift_atoms, sym
from ..pwtools import pw_equal, canon
from ..specs import ops
from ..specs.ops import comp, unit, zero, at
from ..store import interior_point, expr_at, deps_of, is_abstract
from ..values import Arr, Unsupported
from .common import find_entry, interiors, entry_summary, short
from .simtools import sim_configs, stepped_sim, array_attr_names

CASE_SPLIT = True     # orderings between different grid sizes are analysed case by case (regions.run_under_size_cases)


def is_zero(e):
    e = PW.of(e)
    if e.is_leaf():
        return e.leaf.is_zero()
    return all(l.is_zero() for _, l in canon(e).leaves())


def face_pairs(S, rep, dim):
    """C04.a: the 2*dim face kernels launched by the flux wrapper pair up as (front, back) per axis with
    shift(front increment, -e_axis) + back increment == 0 for every upwind branch"""
    e = find_entry("gen_advection_flux_conservative_eno3_pyst_kernel_%dd" % dim)
    _, sm = interiors(S, e)
    ls = [op for op in sm.trace if op.kind == "Launch"]
    incs = []
    for op in ls:
        (out, expr), = launch_exprs(op)
        incs.append((op, out, expr - fld(out, zero(dim))))
    outs = {o for _, o, _ in incs}
    rep.ob("C04.a", "%dD all face kernels accumulate into one array" % dim, len(outs) == 1, "outputs: %s" % sorted(outs),
           key="C04.a|%d|outputs|%s" % (dim, sorted(outs)))
    used = set()
    for a in range(dim):
        d = unit(a, dim, -1)
        found = None
        for i, j in itertools.permutations(range(len(incs)), 2):
            if i in used or j in used:
                continue
            s = shift_atoms(incs[i][2], d) + incs[j][2]
            if is_zero(s):
                found = (i, j)
                break
        ok = found is not None
        rep.ob("C04.a", "%dD axis %s face-flux identity" % (dim, "xyz"[a]), ok,
               ("no pair of face kernels satisfies flux_out(cell i-1) == flux_in(cell i) along %s for all values and upwind branches"
                % "xyz"[a]) if not ok else "front kernel %s shifted by -e_%s cancels back kernel %s in every branch" % (
                   incs[found[0]][0].kernel.stencil.name, "xyz"[a], incs[found[1]][0].kernel.stencil.name),
               key="C04.a|%d|axis%d" % (dim, a),
               sample={"dim": dim, "axis": "xyz"[a], "front": incs[found[0]][0].kernel.stencil.name if ok else None})
        if ok:
            used |= set(found)
    rep.ob("C04.a", "%dD every face kernel belongs to exactly one (front, back) pair" % dim, len(used) == len(incs) == 2 * dim,
           "%d of %d kernels paired" % (len(used), len(incs)), key="C04.a|%d|matching|%d/%d" % (dim, len(used), len(incs)))


def linear_fluxes(S, rep, tier):
    """C04.b: telescoping of the linear flux stencils"""
    def chk(inst, inc):
        ok, why = telescopes(inc)
        rep.ob("C04.b", inst, ok, "sum over cells of the increment does not vanish: %s" % (why,) if not ok else "coefficients of translate-equivalent terms sum to 0",
               key="C04.b|%s|%s" % (inst, short(why, 120)), sample={"flux": inst, "increment": short(inc, 200)})
    for dim in (2, 3):
        ex, _ = interiors(S, find_entry("gen_diffusion_flux_pyst_kernel_%dd" % dim, reset_ghost_zone=True, **({"field_type": "scalar"} if dim == 3 else {})))
        chk("diffusion_flux_%dd" % dim, ex["diffusion_flux"])
        ex, _ = interiors(S, find_entry("gen_diffusion_timestep_euler_forward_pyst_kernel_%dd" % dim, **({"field_type": "scalar"} if dim == 3 else {})))
        chk("diffusion_timestep_%dd" % dim, ex["field"] - at("field", zero(dim)))
    ex, _ = interiors(S, find_entry("gen_update_vorticity_from_velocity_forcing_pyst_kernel_2d"))
    chk("update_vorticity_from_velocity_forcing_2d", ex["vorticity_field"] - at("vorticity_field", zero(2)))
    ex, _ = interiors(S, find_entry("gen_update_vorticity_from_penalised_velocity_pyst_kernel_2d"))
    chk("update_vorticity_from_penalised_velocity_2d", ex["vorticity_field"] - at("vorticity_field", zero(2)))
    for g in ("gen_update_vorticity_from_velocity_forcing_pyst_kernel_3d", "gen_update_vorticity_from_penalised_velocity_pyst_kernel_3d"):
        ex, _ = interiors(S, find_entry(g))
        for c in range(3):
            chk("%s component %d" % (g[4:-15], c), ex[comp("vorticity_field", c)] - at(comp("vorticity_field", c), zero(3)))
    from .common import filter_orders
    orders = filter_orders(tier, "scalar")
    for ft in ("multiplicative", "convolution"):
        for o in orders:
            ex, sm = interiors(S, find_entry("gen_laplacian_filter_kernel_3d", field_type="scalar", filter_type=ft, filter_order=o))
            chk("laplacian_filter %s order %d" % (ft, o), ex["scalar_field"] - at("scalar_field", zero(3)))
            # the telescoping increment is all the filter may add: nothing of what its scratch arrays held before the call may
            # reach the field (a ring of the flux buffer that is not reset is subtracted from the field's ring, whatever it holds)
            from ..store import roots_of
            st_ = sm.store
            key_ = next(k for k in st_.meta if st_.base_name(k) == "scalar_field")
            stale = sorted(r for r in roots_of(st_, [p.expr for p in st_.pieces(key_)]) if r.split("[")[0] in ("filter_flux_buffer", "field_buffer"))
            rep.ob("C04.b", "laplacian_filter %s order %d adds nothing from its scratch arrays" % (ft, o), not stale,
                   "the filtered field depends on the prior content of %s" % stale if stale else "depends on the field only",
                   key="C04.b|filter|%s|%d|stale|%s" % (ft, o, stale), nontrivial=False)
    _, sm = interiors(S, find_entry("gen_laplacian_filter_kernel_3d", field_type="scalar", filter_type="convolution", filter_order=1))
    for op in sm.trace:
        if op.kind == "Launch" and op.kernel.stencil.reach() > 0:
            (out, expr), = launch_exprs(op)
            chk("filter stencil %s" % op.kernel.stencil.name, expr)


def step_adds_fluxes(S, rep, tier):
    """C04.c: in the step every change of the conserved field is `+ c * conservative flux`, damping is
    homogeneous, and zero data stays zero"""
    from .simtools import parallel_over
    cfgs = []
    for kind in ("2d", "3d", "passive"):
        cs = sim_configs(kind, tier)
        if tier == "quick" and kind == "3d":
            cs = [c for c in cs if c["poisson_solver_type"] == "greens_function_convolution"][:6] + \
                [c for c in cs if c["poisson_solver_type"] != "greens_function_convolution"]
        cfgs += cs
    parallel_over(S, rep, "sa.props.c04", "step_config", cfgs)


def step_config(S, cfg, rep):
    if True:
        if True:
            kind = cfg["kind"]
            run = stepped_sim(S, cfg)
            lab = run.label()
            if run.raised is not None or run.problems or run.store is None:
                rep.ob("C04.c", lab, False, "time step cannot be analysed: %s %s" % (run.raised, [p.msg for p in run.problems][:2]),
                       key="C04.c|%s|raises" % lab)
                return
            st = run.store
            cons = "primary_field" if kind == "passive" else "vorticity_field"
            for name in st.def_order:
                d = st.defs[name]
                if d["kind"] != "stage" or run.public.get(d["alloc"].id) != cons:
                    continue
                fb_ = __import__("sa.store", fromlist=["full_box"]).full_box(d["alloc"])
                e = expr_at(d["pieces"], interior_point(fb_))
                prevs = [a for a in e.all_atoms() if a[0] == "f" and a[1].split("'")[0] == name.split("'")[0]]
                base = [a for a in prevs if all(o == 0 for o in a[2])]
                verdict, why = None, ""
                if not base:
                    verdict, why = False, "stage does not keep the previous value"
                else:
                    prev_name = base[0][1]
                    inc = e - fld(prev_name, base[0][2])
                    if inc.is_leaf():
                        verdict, why = telescopes(inc)
                        if is_zero(inc):
                            verdict = True
                    else:
                        # conservative ENO3 form with some scalar factor c
                        dim = run.dim
                        vel = "velocity_field"
                        flux = ops.eno3_flux_difference(prev_name, vel, dim)
                        cfac = sym("dt") * sym("nx") / sym("x_range")
                        verdict = pw_equal(inc, -cfac * flux)
                        why = "piecewise increment is not -dt/dx * (sum of conservative ENO3 face-flux differences)"
                rep.ob("C04.c", "%s :: %s (%s)" % (lab, name, d.get("tag", "").split(".")[-1]), bool(verdict),
                       "%s: %s" % (why, short(e, 300)) if not verdict else "increment is a telescoping / conservative flux",
                       key="C04.c|%s|%s|%s" % (lab, d.get("tag", "").split(".")[-1], short(why, 100)))
                # boundary pieces: homogeneous in the conserved field and the forcing (zero stays zero)
                for p in d["pieces"]:
                    if p.box.contains(interior_point(fb_)):
                        continue
                    z = zero_when_fields_vanish(p.expr, cons_names(st, run, cons))
                    rep.ob("C04.c0", "%s :: %s piece %r" % (lab, name, p.box), z,
                           "boundary piece creates vorticity from nothing: %s" % short(p.expr, 300) if not z else "homogeneous",
                           key="C04.c0|%s|%s|%r" % (lab, d.get("tag", "").split(".")[-1], p.box), nontrivial=False)


def cons_names(st, run, cons):
    names = set()
    for n, d in st.defs.items():
        al = d.get("alloc")
        if al is not None and run.public.get(al.id) in (cons, "eul_grid_forcing_field"):
            names.add(n)
    return names


def zero_when_fields_vanish(e, names):
    """does e vanish when every atom of the given array versions (and DEP symbols made only of them) is 0?"""
    from ..store import _DEPS
    sub = {}
    for a in e.all_atoms():
        if a[0] == "f" and a[1] in names:
            sub[a] = Poly()
        elif a[0] == "s" and a[1] in _DEPS:
            # abstracted band cell of an iterated *linear homogeneous* stencil chain: it vanishes if all its
            # sources do; the chain's homogeneity is established at kernel level (C04.b)
            if _DEPS[a[1]] and all(n in names or n.split("'")[0] in {x.split("'")[0] for x in names} for n in _DEPS[a[1]]):
                sub[a] = Poly()
    r = e.subs(sub) if sub else e
    return is_zero(r)


def run(S, tier, rep):
    rep.rule_text = ("C04.a: per axis, shift(front face kernel, -e) + back face kernel == 0 as piecewise polynomials (all branches); "
                     "C04.b: translate-equivalent terms of every linear flux increment have coefficients summing to 0; "
                     "C04.c: every stage of the conserved field in every simulator configuration is prev + telescoping/conservative "
                     "increment, boundary pieces homogeneous")
    rep.explanation = "polynomial identities and a syntactic telescoping criterion; exact for all field values, grid sizes and sign patterns"
    rep.trusted_base = ["A1", "A2", "A7"]
    for dim in (2, 3):
        face_pairs(S, rep, dim)
    linear_fluxes(S, rep, tier)
    step_adds_fluxes(S, rep, tier)
    rep.require_min("C04.a", 9)
    rep.require_min("C04.b", 15)
    rep.require_min("C04.c", 20)
