"""C16: the recommended time step is stable and keeps diffusion monotone."""
from __future__ import annotations

from fractions import Fraction as Fr

from ..driver import run_store
from ..extlib import MinMax, MinMaxScaled
from ..poly import PW, Poly, Rat, as_poly, as_rat, const, fld, fn, sym
from ..signs import sign_of_rat
from ..specs.ops import comp, zero, at, unit
from ..store import interior_point
from ..values import Arr, RaisedInAnalysed, Unsupported
from .common import find_entry, interiors, short
from .simtools import FLOW, build_sim, sim_configs

CASE_SPLIT = True     # orderings between different grid sizes are analysed case by case (regions.run_under_size_cases)


def timestep_of(S, cfg, rep):
    run = build_sim(S, cfg)
    lab = run.label()
    if run.inst is None:
        rep.ob("C16.a", lab, False, "constructor raises %s" % run.raised, key="C16.a|%s|ctor" % lab)
        return
    mod = S.module(FLOW)
    n0 = len(S.I.trace)
    try:
        ret = S.I.call(S.I.get_attr(run.inst, "compute_stable_timestep", None, mod), [], dict(dt_prefac=sym("dt_prefac")), None, mod)
    except RaisedInAnalysed as ex:
        rep.ob("C16.a", lab, False, "compute_stable_timestep raises %s" % ex, key="C16.a|%s|raises" % lab)
        return
    tr = S.I.trace[n0:]
    dim = run.dim
    # ---- (a) shape of the result
    ok = isinstance(ret, MinMaxScaled) and ret.mm.name == "min" and len(ret.mm.args) == 2 and ret.factor == sym("dt_prefac")
    rep.ob("C16.a", "%s result = min(advective, diffusive) * prefactor" % lab, ok, "returns %r" % (ret,), key="C16.a|%s|%s" % (cfg["kind"], short(ret, 100)))
    if not ok:
        return
    # ---- (b) the velocity measure: amax over cells of sum_c |u_c|
    reds = getattr(S.I.ext, "reductions", {})
    amax_syms = [a for e in ret.mm.args for a in e.all_atoms() if a[0] == "s" and a[1].startswith("amax(")]
    okb, detail = False, "no maximum over the grid enters the advective limit"
    if amax_syms:
        st = run_store([op for op in tr], havoc={run.inst.attrs["velocity_field"].alloc.id, run.inst.attrs["buffer_scalar_field"].alloc.id}
                       | ({run.inst.attrs["buffer_vector_field"].alloc.id} if "buffer_vector_field" in run.inst.attrs else set()))
        kind, arr = reds[amax_syms[0][1]]
        from ..store import ViewInfo
        vi = ViewInfo(arr)
        key = st.key(vi.alloc, vi.comp_tuples()[0], None)
        pieces = st.pieces(key)
        want = const(0)
        for c in range(dim):
            want = want + fn("abs", at(comp("velocity_field", c), zero(dim)))
        okb = len(pieces) == 1 and pieces[0].expr == want
        detail = "maximum is taken over %s" % short(pieces[0].expr if pieces else None)
    rep.ob("C16.b", "%s velocity measure" % lab, okb, detail if not okb else "max over cells of sum_c |u_c|", key="C16.b|%s|%s" % (cfg["kind"], detail[:100]))
    V = PW.of(Poly.atom(amax_syms[0])) if amax_syms else None
    # ---- (c) the two limits
    assume = {amax_syms[0]: "0+"} if amax_syms else {}
    dx = sym("x_range") / sym("nx")
    adv = [e for e in ret.mm.args if amax_syms and amax_syms[0] in e.all_atoms()]
    dif = [e for e in ret.mm.args if not (amax_syms and amax_syms[0] in e.all_atoms())]
    if len(adv) != 1 or len(dif) != 1:
        rep.ob("C16.c", "%s limits" % lab, False, "cannot tell the advective from the diffusive limit: %r" % (ret.mm.args,), key="C16.c|%s|split" % cfg["kind"])
        return
    A, D = adv[0], dif[0]
    for nm, e in (("advective", A), ("diffusive", D)):
        s = sign_of_rat(e.leaf, assume)
        # finite: denominator strictly positive for every admissible input (V >= 0 including V == 0)
        sden = sign_of_rat(Rat(e.leaf.den), assume)
        rep.ob("C16.c", "%s %s limit positive and finite" % (lab, nm), s == "+" and sden == "+", "limit %r has sign %s, denominator sign %s" % (e, s, sden),
               key="C16.c|%s|%s|pos|%s" % (cfg["kind"], nm, short(e, 80)), nontrivial=False)
    excess_a = (A * V / dx - sym("cfl")).leaf
    sa = sign_of_rat(excess_a, assume)
    rep.ob("C16.c", "%s CFL limit" % lab, sa in ("-", "0-", "0"),
           "dt*V/dx - cfl = %r is not <= 0 for all admissible inputs (sign %s)" % (excess_a, sa) if sa not in ("-", "0-", "0") else "dt*V/dx - cfl = %r <= 0" % (excess_a,),
           key="C16.c|%s|cfl|%s" % (cfg["kind"], short(excess_a, 100)), sample={"config": lab, "cfl_excess": repr(excess_a)})
    excess_d = (D * sym("nu") / (dx * dx) - const(Fr(9, 10)) / const(2 * dim)).leaf
    sd = sign_of_rat(excess_d, assume)
    rep.ob("C16.c", "%s diffusion limit" % lab, sd in ("-", "0-", "0"),
           "nu*dt/dx^2 - 0.9/(2*dim) = %r exceeds 0 (sign %s): the diffusive limit is overshot by a non-rounding amount" % (excess_d, sd)
           if sd not in ("-", "0-", "0") else "nu*dt/dx^2 - 0.9/(2 dim) = %r <= 0" % (excess_d,),
           key="C16.c|compute_advection_diffusion_stable_timestep|diffusion-limit|%s" % short(excess_d.num, 60),
           sample={"config": lab, "diffusion_excess": repr(excess_d)})


def convexity(S, rep):
    """(d)+(e): with 0 <= p <= 0.9/(2 dim) the explicit diffusion step is a convex average; ring unchanged"""
    p = ("s", "nu_dt_by_dx2")
    for dim in (2, 3):
        fts = ("scalar",) if dim == 2 else ("scalar", "vector")
        for ft in fts:
            e = find_entry("gen_diffusion_timestep_euler_forward_pyst_kernel_%dd" % dim, **({} if dim == 2 else {"field_type": ft}))
            ex, sm = interiors(S, e)
            names = ["field"] if ft == "scalar" else [comp("vector_field", c) for c in range(dim)]
            for n in names:
                r = ex[n]
                inst = "%s :: %s" % (e.label(), n)
                if not r.is_leaf() or not r.leaf.is_poly():
                    rep.ob("C16.d", inst, False, "update is not a linear stencil", key="C16.d|%s|shape" % inst)
                    continue
                poly = as_poly(r.leaf)
                weights = {}
                bad = None
                for m, c in poly.t.items():
                    fa = [a for a, _ in m if a[0] == "f"]
                    if len(fa) != 1 or fa[0][1] != n:
                        bad = "term %r" % (m,)
                        continue
                    rest = tuple((a, x) for a, x in m if a != fa[0])
                    weights[fa[0][2]] = weights.get(fa[0][2], Poly()) + Poly({rest: c})
                if bad:
                    rep.ob("C16.d", inst, False, "update mixes other data: %s" % bad, key="C16.d|%s|mix" % inst)
                    continue
                centre = weights.pop(zero(dim), Poly())
                nb = len(weights)
                P = Poly.sym(p[1])            # (0 on the path of a size/decision case where the step parameter is zero)
                if P.is_zero():
                    ok_nb = nb == 0
                    ok_centre = (centre - Poly.const(1)).is_zero()
                    nb = 2 * dim
                else:
                    ok_nb = nb == 2 * dim and all((wt - P).is_zero() for wt in weights.values())
                    ok_centre = (centre - (Poly.const(1) - P.scale(nb))).is_zero()
                # centre weight at the largest admissible p
                cmin = as_poly(centre.subs({p: Poly.const(Fr(9, 10) / (2 * dim))})).const_value() if ok_centre else None
                if ok_centre and P.is_zero():
                    cmin = 1
                ok = ok_nb and ok_centre and cmin is not None and cmin >= 0
                rep.ob("C16.d", inst, ok,
                       "diffusion update is not the convex average (1 - %d p) f0 + p*sum(neighbours): centre %r, neighbours %r" % (2 * dim, centre, weights)
                       if not ok else "weights: %d neighbours p >= 0, centre 1 - %dp >= %s, sum 1" % (nb, nb, cmin),
                       key="C16.d|%s|%s" % (inst, short(centre, 60)), sample={"kernel": e.label(), "centre_weight_at_limit": str(cmin)})
                ring_ok = all(ex2 == at(n, zero(dim)) for box, ex2 in sm.final[n] if not box.contains(interior_point(sm.full[n])))
                rep.ob("C16.e", inst, ring_ok, "boundary-ring cells are modified by the diffusion step" if not ring_ok else "ring unchanged",
                       key="C16.e|%s" % inst, nontrivial=False)


def factories_forward_options(S, rep, rule="C16.w"):
    """the create_* helpers hand their arguments to a simulator class: every parameter of such a helper is read (an unread
    one is an option silently dropped, e.g. the CFL number falling back to the class default), and a parameter passed by
    keyword under the name of another parameter of the helper is a transposition"""
    import ast, os
    from .c10 import class_index
    idx = class_index(S.repo)
    base = os.path.join(S.repo, "sopht", "simulator", "flow")
    found = 0
    for f in sorted(os.listdir(base)):
        if not f.endswith(".py"):
            continue
        tree = ast.parse(open(os.path.join(base, f)).read())
        for fn in [n for n in tree.body if isinstance(n, ast.FunctionDef)]:
            calls = [c for c in ast.walk(fn) if isinstance(c, ast.Call) and isinstance(c.func, ast.Name) and c.func.id in idx]
            if not calls:
                continue
            params = [a.arg for a in fn.args.posonlyargs + fn.args.args + fn.args.kwonlyargs]
            read = {n.id for n in ast.walk(fn) if isinstance(n, ast.Name) and isinstance(n.ctx, ast.Load)}
            found += 1
            unread = [q for q in params if q not in read]
            rep.ob(rule, "%s reads every one of its parameters" % fn.name, not unread,
                   "parameter %s of %s is never used: the value the caller gives is dropped and %s runs with its own default" % (unread[0], fn.name, calls[0].func.id)
                   if unread else "%d parameters, all used" % len(params), key="%s|factory|%s|unread|%s" % (rule, fn.name, unread), nontrivial=False)
            swapped = [(k.arg, k.value.id) for c in calls for k in c.keywords
                       if k.arg and isinstance(k.value, ast.Name) and k.value.id in params and k.arg in params and k.arg != k.value.id]
            rep.ob(rule, "%s passes each parameter under its own name" % fn.name, not swapped,
                   "%s receives %s=%s" % (calls[0].func.id, swapped[0][0], swapped[0][1]) if swapped else "keywords and values agree",
                   key="%s|factory|%s|swapped|%s" % (rule, fn.name, swapped), nontrivial=False)
    if found < 2:
        raise Unsupported("expected the create_unbounded_flow_simulator_2d/3d helpers, found %d factory functions" % found)


def run(S, tier, rep):
    rep.rule_text = ("abstract evaluation of compute_stable_timestep for the three simulator classes; sign analysis (all symbols positive, "
                     "V >= 0) of the rational functions dt*V/dx - cfl and nu*dt/dx^2 - 0.9/(2 dim); weights of the extracted diffusion update")
    rep.explanation = "decides the inequalities for all positive cfl, dx, nu, tol and all V >= 0; nu = 0 is outside (remainder)"
    for cfg in (sim_configs("2d", "quick")[0], sim_configs("3d", "quick")[0]) + tuple(sim_configs("passive", "quick")):
        timestep_of(S, cfg, rep)
    convexity(S, rep)
    from .c10 import wrappers_forward_options
    wrappers_forward_options(S, rep, rule="C16.w", family_root="FlowSimulator", min_found=3)
    factories_forward_options(S, rep)
    rep.require_min("C16.c", 15)
    rep.require_min("C16.d", 5)
