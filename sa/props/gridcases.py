"""The forcing-grid classes and their documented kinematics / force transfer (oracle for C08, C09)."""
from __future__ import annotations

from fractions import Fraction as Fr

from .. import ptw
from ..gridinterp import GridInterp, ROD_FILE, RIGID_FILE, pad
from ..poly import PW, const, sym
from ..ptw import A, LAB, MAT, NodeAcc, Seg, named, scalar, zeros
from ..values import Unsupported

CASES = [
    (ROD_FILE, "CosseratRodNodalForcingGrid", 2), (ROD_FILE, "CosseratRodNodalForcingGrid", 3),
    (ROD_FILE, "CosseratRodElementCentricForcingGrid", 2), (ROD_FILE, "CosseratRodElementCentricForcingGrid", 3),
    (ROD_FILE, "CosseratRodEdgeForcingGrid", 2), (ROD_FILE, "CosseratRodSurfaceForcingGrid", 3),
    (RIGID_FILE, "TwoDimensionalCylinderForcingGrid", 2), (RIGID_FILE, "CircularCylinderForcingGrid", 2),
    (RIGID_FILE, "ThreeDimensionalRigidBodyForcingGrid", 3), (RIGID_FILE, "OpenEndCircularCylinderForcingGrid", 3),
    (RIGID_FILE, "SphereForcingGrid", 3), (RIGID_FILE, "RectangularPlaneForcingGrid", 3),
]

_cache = {}


def analysed(repo, relfile, cls, dim):
    k = (repo, relfile, cls, dim)
    if k in _cache:
        return _cache[k]
    g = GridInterp(repo, relfile, cls)
    g.dim = dim
    g.init_scalars()
    g.run("compute_lag_grid_position_field")
    g.pos_errors = list(g.frame_errors)
    g.run("compute_lag_grid_velocity_field")
    g.vel_errors = list(g.frame_errors[len(g.pos_errors):])
    g.kin = {k2: g.attrs.get(k2) for k2 in ("position_field", "velocity_field")}
    if g.is_rod:
        bf, bt = NodeAcc((3,), LAB), zeros((3,), "elem", None)
    else:
        bf, bt = zeros((3,), None, LAB), zeros((3,), None, None)
    n0 = len(g.frame_errors)
    g.run("transfer_forcing_from_grid_to_body", body_flow_forces=bf, body_flow_torques=bt,
          lag_grid_forcing_field=named("m:f", (dim,), "marker", LAB))
    g.xfer_errors = list(g.frame_errors[n0:])
    g.forces, g.torques = g.env["body_flow_forces"], g.env["body_flow_torques"]
    _cache[k] = g
    return g


# ---------------------------------------------------------------------------- documented quantities
def rod_centre(dim3=True):
    xp, xm = named("n+:X", (3,), "elem", LAB), named("n-:X", (3,), "elem", LAB)
    return ptw.mul(scalar(const(Fr(1, 2))), ptw.add(xp, xm))


def rod_elem_velocity():
    mp, mm = named("n+:m", (), "elem"), named("n-:m", (), "elem")
    vp, vm = named("n+:V", (3,), "elem", LAB), named("n-:V", (3,), "elem", LAB)
    v = ptw.div(ptw.add(ptw.mul(mp, vp), ptw.mul(mm, vm)), ptw.add(mp, mm))
    v.frame = LAB
    return v


def rod_omega_lab():
    Q = named("e:Q", (3, 3), "elem", None, "Q")
    return ptw.matvec(ptw.transpose(Q), named("e:w", (3,), "elem", MAT))


def body_omega_lab():
    Q = named("b:Q", (3, 3), None, None, "Q")
    return ptw.matvec(ptw.transpose(Q), named("b:w", (3,), None, MAT))


def trunc(v, dim):
    return A((dim,), {(i,): v.comps[(i,)] for i in range(dim)}, v.batch, v.frame)


def pieces(val):
    """list of (label, A) for an array that may be segmented"""
    if isinstance(val, Seg):
        return [("segment %d" % k, v) for k, v in sorted(val.segs.items())]
    return [("all markers", val)]


def equal(a, b):
    if a.lead != b.lead:
        return False
    return all(a.comps[k] == b.comps[k] for k in a.comps)


def diff_text(a, b):
    bad = [k for k in a.comps if not (a.comps[k] == b.comps.get(k))]
    if not bad:
        return ""
    k = bad[0]
    return "component %s: code gives %s, documented %s" % (k, str(a.comps[k])[:220], str(b.comps.get(k))[:220])
