"""The forcing-grid classes and their documented kinematics / force transfer (oracle for C08, C09)."""
from __future__ import annotations

from fractions import Fraction as Fr

from .. import ptw
from ..gridinterp import GridInterp, ROD_FILE, RIGID_FILE, pad
from ..poly import PW, const, sym
from ..ptw import A, LAB, MAT, NodeAcc, Seg, named, scalar, zeros
from ..values import Unsupported

CASES = [
    (ROD_FILE, "CosseratRodNodalForcingGrid", 2), (ROD_FILE, "CosseratRodNodalForcingGrid", 3),
    (ROD_FILE, "CosseratRodElementCentricForcingGrid", 2), (ROD_FILE, "CosseratRodElementCentricForcingGrid", 3),
    (ROD_FILE, "CosseratRodEdgeForcingGrid", 2), (ROD_FILE, "CosseratRodSurfaceForcingGrid", 3),
    (RIGID_FILE, "TwoDimensionalCylinderForcingGrid", 2), (RIGID_FILE, "CircularCylinderForcingGrid", 2),
    (RIGID_FILE, "ThreeDimensionalRigidBodyForcingGrid", 3), (RIGID_FILE, "OpenEndCircularCylinderForcingGrid", 3),
    (RIGID_FILE, "SphereForcingGrid", 3), (RIGID_FILE, "RectangularPlaneForcingGrid", 3),
]

_cache = {}


def analysed(repo, relfile, cls, dim):
    k = (repo, relfile, cls, dim)
    if k in _cache:
        return _cache[k]
    g = GridInterp(repo, relfile, cls)
    g.dim = dim
    g.init_scalars()
    g.run("compute_lag_grid_position_field")
    g.pos_errors = list(g.frame_errors)
    g.run("compute_lag_grid_velocity_field")
    g.vel_errors = list(g.frame_errors[len(g.pos_errors):])
    g.kin = {k2: g.attrs.get(k2) for k2 in ("position_field", "velocity_field")}
    if g.is_rod:
        bf, bt = NodeAcc((3,), LAB), zeros((3,), "elem", None)
    else:
        bf, bt = zeros((3,), None, LAB), zeros((3,), None, None)
    n0 = len(g.frame_errors)
    g.run("transfer_forcing_from_grid_to_body", body_flow_forces=bf, body_flow_torques=bt,
          lag_grid_forcing_field=named("m:f", (dim,), "marker", LAB))
    g.xfer_errors = list(g.frame_errors[n0:])
    g.forces, g.torques = g.env["body_flow_forces"], g.env["body_flow_torques"]
    _cache[k] = g
    return g


# ---------------------------------------------------------------------------- documented quantities
def rod_centre(dim3=True):
    xp, xm = named("n+:X", (3,), "elem", LAB), named("n-:X", (3,), "elem", LAB)
    return ptw.mul(scalar(const(Fr(1, 2))), ptw.add(xp, xm))


def rod_elem_velocity():
    mp, mm = named("n+:m", (), "elem"), named("n-:m", (), "elem")
    vp, vm = named("n+:V", (3,), "elem", LAB), named("n-:V", (3,), "elem", LAB)
    v = ptw.div(ptw.add(ptw.mul(mp, vp), ptw.mul(mm, vm)), ptw.add(mp, mm))
    v.frame = LAB
    return v


def rod_omega_lab():
    Q = named("e:Q", (3, 3), "elem", None, "Q")
    return ptw.matvec(ptw.transpose(Q), named("e:w", (3,), "elem", MAT))


def body_omega_lab():
    Q = named("b:Q", (3, 3), None, None, "Q")
    return ptw.matvec(ptw.transpose(Q), named("b:w", (3,), None, MAT))


def trunc(v, dim):
    return A((dim,), {(i,): v.comps[(i,)] for i in range(dim)}, v.batch, v.frame)


def pieces(val):
    """list of (label, A) for an array that may be segmented"""
    if isinstance(val, Seg):
        return [("segment %d" % k, v) for k, v in sorted(val.segs.items())]
    return [("all markers", val)]


def equal(a, b):
    if a.lead != b.lead:
        return False
    return all(a.comps[k] == b.comps[k] for k in a.comps)


def diff_text(a, b):
    bad = [k for k in a.comps if not (a.comps[k] == b.comps.get(k))]
    if not bad:
        return ""
    k = bad[0]
    return "component %s: code gives %s, documented %s" % (k, str(a.comps[k])[:220], str(b.comps.get(k))[:220])


# ---------------------------------------------------------------------------- derived buffers are recomputed before use
IBFI_FILE = "sopht/simulator/immersed_body/immersed_body_flow_interaction.py"
VBF_FILE = "sopht/numeric/immersed_boundary_ops/VirtualBoundaryForcing.py"
EVALUATIONS = ("__call__", "compute_interaction_on_lag_grid", "compute_flow_forces_and_torques")


def evaluation_orders(repo):
    """for every evaluation entry point of the interaction class: the forcing-grid methods it calls, in program order
    (straight-line code only; calls to the class' own methods are followed)"""
    import ast
    import os
    tree = ast.parse(open(os.path.join(repo, IBFI_FILE)).read())
    cls = next((n for n in tree.body if isinstance(n, ast.ClassDef) and n.name == "ImmersedBodyFlowInteraction"), None)
    if cls is None:
        raise Unsupported("anchor vanished: ImmersedBodyFlowInteraction")
    if "forcing_grid" in open(os.path.join(repo, VBF_FILE)).read():
        raise Unsupported("VirtualBoundaryForcing now refers to a forcing grid: the evaluation-order extraction does not follow it")
    meths = {f.name: f for f in cls.body if isinstance(f, ast.FunctionDef)}

    def calls_grid(node):
        return any(isinstance(n, ast.Attribute) and n.attr == "forcing_grid" for n in ast.walk(node))

    def flat(name, depth=0):
        if depth > 8:
            raise Unsupported("recursive evaluation methods")
        out = []
        for st in meths[name].body:
            if isinstance(st, ast.Expr) and isinstance(st.value, ast.Constant):
                continue
            calls = [n for n in ast.walk(st) if isinstance(n, ast.Call) and isinstance(n.func, ast.Attribute)]
            grid_calls = [c for c in calls if isinstance(c.func.value, ast.Attribute) and c.func.value.attr == "forcing_grid"
                          and isinstance(c.func.value.value, ast.Name) and c.func.value.value.id == "self"]
            own_calls = [c for c in calls if isinstance(c.func.value, ast.Name) and c.func.value.id == "self" and c.func.attr in meths]
            if (grid_calls or own_calls) and not isinstance(st, (ast.Expr, ast.Assign, ast.Return)):
                raise Unsupported("forcing-grid call under control flow in %s (line %d): evaluation order is not straight-line" % (name, st.lineno))
            seq = sorted(grid_calls + own_calls, key=lambda c: (c.end_lineno, c.end_col_offset))   # inner calls finish first
            for c in seq:
                if c in grid_calls:
                    out.append((c.func.attr, c.lineno))
                else:
                    out.extend(flat(c.func.attr, depth + 1))
        return out
    res = {}
    for m in EVALUATIONS:
        if m not in meths:
            raise Unsupported("anchor vanished: ImmersedBodyFlowInteraction.%s" % m)
        res[m] = flat(m)
    return res


GRID_METHODS = ("compute_lag_grid_position_field", "compute_lag_grid_velocity_field", "transfer_forcing_from_grid_to_body")


def constructor_order(g):
    """the grid methods a forcing-grid constructor calls on itself, in execution order (super().__init__ inlined)"""
    import ast

    def of_class(k):
        if k >= len(g.mro):
            return []
        init = next((f for f in g.mro[k].body if isinstance(f, ast.FunctionDef) and f.name == "__init__"), None)
        if init is None:
            return of_class(k + 1)
        out = []
        for st in init.body:
            calls = [n for n in ast.walk(st) if isinstance(n, ast.Call) and isinstance(n.func, ast.Attribute)]
            for c in sorted(calls, key=lambda c: (c.end_lineno, c.end_col_offset)):
                if ast.unparse(c.func) == "super().__init__":
                    out.extend(of_class(k + 1))
                elif isinstance(c.func.value, ast.Name) and c.func.value.id == "self" and c.func.attr in GRID_METHODS:
                    if not isinstance(st, (ast.Expr, ast.Assign)):
                        raise Unsupported("%s.__init__ calls %s under control flow" % (g.mro[k].name, c.func.attr))
                    out.append((c.func.attr, c.lineno))
        return out
    return of_class(0)


def constructor_aliases(g):
    """pairs of grid attributes that a constructor binds to ONE array object (chained assignment `self.a = self.b = f(...)`, or
    `self.a = self.b`), in any class of the grid's MRO"""
    import ast
    out = []
    for c in g.mro:
        init = next((f for f in c.body if isinstance(f, ast.FunctionDef) and f.name == "__init__"), None)
        if init is None:
            continue
        for st in ast.walk(init):
            if not isinstance(st, ast.Assign):
                continue
            tg = [t.attr for t in st.targets if isinstance(t, ast.Attribute) and isinstance(t.value, ast.Name) and t.value.id == "self"]
            if len(tg) >= 2:
                out += [(tg[i], tg[j], st.lineno, c.name) for i in range(len(tg)) for j in range(i + 1, len(tg))]
            v = st.value
            if len(tg) == 1 and isinstance(v, ast.Attribute) and isinstance(v.value, ast.Name) and v.value.id == "self":
                out.append((tg[0], v.attr, st.lineno, c.name))
    return out


def stale_reads(repo, relfile, cls, dim):
    """def-use rule: a buffer that any compute_*/transfer method of the grid (re)computes from the body state must be written in
    an evaluation before that evaluation reads it.  Returns (derived buffers, {evaluation: [stale read descriptions]})."""
    g = analysed(repo, relfile, cls, dim)
    per, cur = {}, None
    for ev in g.events:
        if ev[0] == "enter":
            cur = per.setdefault(ev[1], [])
        elif ev[0] == "exit":
            cur = None
        elif cur is not None:
            cur.append(ev)
    derived = {ev[1] for evs in per.values() for ev in evs if ev[0] == "set"}
    out = {}
    orders = dict(evaluation_orders(repo))
    orders["__init__ (fresh grid object)"] = [x for x in constructor_order(g) if x[0] in per]
    for m, seq in orders.items():
        fresh, bad = set(), []
        for meth, line in seq:
            if meth not in per:
                if g.method(meth)[0] is None:
                    continue          # not a method of the grid (e.g. an attribute access)
                raise Unsupported("forcing-grid method %s is called by the interaction but was not analysed" % meth)
            for ev in per[meth]:
                if ev[0] == "set":
                    fresh.add(ev[1])
                elif ev[0] == "get" and ev[1] in derived and ev[1] not in fresh:
                    bad.append("%s (called at line %d) reads self.%s before this evaluation recomputed it" % (meth, line, ev[1]))
        out[m] = (seq, sorted(set(bad)))
    return sorted(derived), out
