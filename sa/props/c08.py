"""C08: action equals reaction between every immersed body and the fluid."""
from __future__ import annotations

import ast
import os
from fractions import Fraction as Fr

from .. import ptw
from ..gridinterp import pad
from ..poly import PW, Poly, const, sym
from ..ptw import A, LAB, MAT, NodeAcc, Seg, named, scalar, zeros
from ..values import Unsupported
from .gridcases import CASES, analysed, diff_text, equal, pieces, rod_centre, trunc


def seg_force(dim, k=None):
    """marker force of a segment (edge grid) or of the generic marker"""
    nm = "m:f"
    f = named(nm, (dim,), "marker", LAB)
    if k is None:
        return f
    return A((dim,), {ix: sym("m:f[%d]@seg%d" % (ix[0], k)) for ix in f.comps}, "elem", LAB)


def zero_vec(lead=(3,), batch="elem", frame=LAB):
    return zeros(lead, batch, frame)


def check_case(S, rep, relfile, cls, dim):
    lab = "%s %dD" % (cls, dim)
    g = analysed(S.repo, relfile, cls, dim)
    for e in g.xfer_errors:
        rep.ob("C08.d", lab + " frame typing", False, e, key="C08.d|%s|frame|%s" % (cls, e.split(": ", 1)[-1][:80]))
    F, T = g.forces, g.torques
    pos = g.kin["position_field"]
    if g.is_rod:
        if not isinstance(F, NodeAcc):
            rep.ob("C08.a", lab + " nodal forces", False, "forces are not accumulated on the rod nodes", key="C08.a|%s|shape" % cls)
            return
        # marker forces of each element, and their arms about the element centre (from the code's own positions)
        centre = rod_centre()
        if "Nodal" in cls:
            want = ptw.neg(pad(seg_force(dim), (3,)))
            ok = F.direct is not None and equal(F.direct, want) and all(v == const(0) for v in list(F.plus.comps.values()) + list(F.minus.comps.values()))
            rep.ob("C08.a", lab + " net force", ok, "node forces are %r, documented the negative marker force on the same node" % (F.direct,),
                   key="C08.a|%s|%d|nodal" % (cls, dim), sample={"grid": lab, "node_force": "-f"})
            return
        if "Edge" in cls:
            segs = sorted(pos.segs) if isinstance(pos, Seg) else []
            rep.ob("C08.a", lab + " marker partition", segs == [0, 1, 2] and to_n(g.attrs.get("num_lag_nodes")) == 3,
                   "marker segments %s of n_elems markers each; num_lag_nodes = %r" % (segs, g.attrs.get("num_lag_nodes")), key="C08.a|%s|partition|%s" % (cls, segs))
            forces = [(k, pad(seg_force(dim, k), (3,)), pad(pos.segs[k], (3,))) for k in segs]
            total_f = zero_vec()
            couple = zero_vec()
            for k, f, p in forces:
                total_f = ptw.add(total_f, f)
                arm = pad(ptw.add(trunc(p, 2), trunc(centre, 2), -1), (3,))
                couple = ptw.add(couple, ptw.cross(arm, ptw.neg(f)))
            msum = lambda x: x
        elif "Surface" in cls:
            f = seg_force(3)
            f.markers_of_elem = True
            total_f = ptw.reduce_markers(f, "elem")
            arm = ptw.add(pos, centre, -1)
            couple = ptw.reduce_markers(ptw.cross(arm, ptw.neg(f)), "elem")
            partition_idiom(S, rep, g, lab)
        else:   # element centric: one marker per element, on the centre
            total_f = pad(seg_force(dim), (3,))
            total_f.batch = "elem"
            arm = pad(ptw.add(pos, trunc(centre, dim), -1), (3,))
            couple = ptw.cross(arm, ptw.neg(total_f))
        # (a) net force: sum over nodes = sum over elements of (plus + minus) = - sum of marker forces
        both = ptw.add(F.plus, F.minus)
        want = ptw.neg(total_f)
        ok = equal(both, want)
        rep.ob("C08.a", lab + " net force", ok, diff_text(both, want) or "each element hands exactly the negative of its markers' force to its two nodes",
               key="C08.a|%s|%d|net|%s" % (cls, dim, diff_text(both, want)[:80]), sample={"grid": lab, "per_element_nodal_force_x": str(both.comps[(0,)])[:120]})
        # (b) equal split (moment equivalence for forces acting at the element centre)
        ok = equal(F.plus, F.minus)
        rep.ob("C08.b", lab + " equal split onto the two nodes", ok, diff_text(F.plus, F.minus) or "1/2 and 1/2",
               key="C08.b|%s|%d|%s" % (cls, dim, diff_text(F.plus, F.minus)[:80]))
        rep.ob("C08.a", lab + " nothing assigned to the nodes directly", F.direct is None, "a whole-array assignment of nodal forces remains", key="C08.a|%s|direct" % cls, nontrivial=False)
        # (c) couples, rotated to the material frame exactly once
        Q = named("e:Q", (3, 3), "elem", None, "Q")
        ptw.LENIENT[0] = True
        try:
            want_t = ptw.matvec(Q, couple)
        finally:
            ptw.LENIENT[0] = False
        if "ElementCentric" in cls:
            ok = all(v == const(0) for v in T.comps.values()) and all(v == const(0) for v in couple.comps.values())
            rep.ob("C08.c", lab + " no couples (markers on the element centres)", ok, "torques %r, arm couple %r" % (T, couple), key="C08.c|%s|%d" % (cls, dim))
        else:
            ok = equal(T, want_t)
            rep.ob("C08.c", lab + " element couples = Q * sum(arm x (-f))", ok, diff_text(T, want_t) or "couple of every marker about the element centre, in the material frame",
                   key="C08.c|%s|%d|%s" % (cls, dim, diff_text(T, want_t)[:80]), sample={"grid": lab, "torque_z": str(T.comps[(2,)])[:160]})
            rep.ob("C08.d", lab + " torques are material-frame on exit", T.frame == MAT and not g.xfer_errors, "torque frame %s" % T.frame,
                   key="C08.d|%s|exit-frame|%s" % (cls, T.frame))
        return
    # ---- rigid bodies
    f = seg_force(dim)
    X = named("b:X", (3,), None, LAB)
    want_f = ptw.neg(pad(ptw.reduce_markers(f, "all"), (3,)))
    ok = equal(F, want_f)
    rep.ob("C08.a", lab + " net force", ok, diff_text(F, want_f) or "body force = - sum of marker forces", key="C08.a|%s|%d|net|%s" % (cls, dim, diff_text(F, want_f)[:80]),
           sample={"grid": lab, "force_x": str(F.comps[(0,)])[:100]})
    arm = pad(ptw.add(pos, trunc(X, dim), -1), (3,))
    couple = ptw.reduce_markers(ptw.cross(arm, ptw.neg(pad(f, (3,)))), "all")
    Q = named("b:Q", (3, 3), None, None, "Q")
    if dim == 2:
        # planar body: only the z couple, converted with Q22
        want_t = A((3,), {(0,): const(0), (1,): const(0), (2,): Q.comps[(2, 2)] * couple.comps[(2,)]}, None, MAT)
    else:
        ptw.LENIENT[0] = True
        try:
            want_t = ptw.matvec(Q, couple)
        finally:
            ptw.LENIENT[0] = False
    ok = equal(T, want_t)
    rep.ob("C08.c", lab + " body couple = Q * sum((x_marker - X) x (-f))", ok, diff_text(T, want_t) or "moment of the marker forces about the body centre, material frame",
           key="C08.c|%s|%d|%s" % (cls, dim, diff_text(T, want_t)[:80]), sample={"grid": lab, "torque_z": str(T.comps[(2,)])[:160]})
    if dim == 3:
        rep.ob("C08.d", lab + " torques are material-frame on exit", T.frame == MAT and not g.xfer_errors, "torque frame %s" % T.frame,
               key="C08.d|%s|exit-frame|%s" % (cls, T.frame))


def to_n(v):
    if v is None or not isinstance(v, A):
        return None
    q = v.comps[()] / sym("n_elems")
    if q.is_leaf() and q.leaf.is_const():
        return q.leaf.const_value()
    return None


def partition_idiom(S, rep, g, lab):
    """surface grid: start_idx / end_idx are the prefix sums of the per-element marker counts that also give num_lag_nodes"""
    init = None
    for c in g.mro:
        for f in c.body:
            if isinstance(f, ast.FunctionDef) and f.name == "__init__" and init is None:
                init = f
    src = ast.unparse(init)
    loops = [n for n in ast.walk(init) if isinstance(n, ast.For) and any(
        isinstance(x, ast.Assign) and ast.unparse(x.targets[0]).replace(" ", "").startswith("self.start_idx[") for x in ast.walk(n))]
    if len(loops) != 1:
        # accepted alternative: cumsum form
        if "cumsum" in src and "start_idx" in src and "end_idx" in src:
            raise Unsupported("prefix sums computed with cumsum: idiom not yet in the table")
        raise Unsupported("cannot find the loop that fills start_idx / end_idx")
    lp = loops[0]
    i = lp.target.id if isinstance(lp.target, ast.Name) else None
    if i is None or ast.unparse(lp.iter).replace(" ", "") not in ("range(self.n_elems)", "range(0,self.n_elems)", "range(self.cosserat_rod.n_elems)"):
        raise Unsupported("prefix-sum loop does not run over the elements: %s" % ast.unparse(lp.iter))
    # symbolic execution of one iteration: running sums are symbols at loop entry
    state = {}
    counts = set()
    rec = {}

    def ev(e):
        if isinstance(e, ast.Constant) and isinstance(e.value, int):
            return const(e.value)
        if isinstance(e, ast.Name):
            return state.setdefault(e.id, sym("entry:" + e.id))
        if isinstance(e, ast.BinOp) and isinstance(e.op, (ast.Add, ast.Sub)):
            x, y = ev(e.left), ev(e.right)
            return x + y if isinstance(e.op, ast.Add) else x - y
        if isinstance(e, ast.Subscript) and ast.unparse(e.slice) == i:
            nm = ast.unparse(e.value)
            counts.add(nm)
            return sym("count:" + nm)
        raise Unsupported("prefix-sum loop expression %s" % ast.unparse(e))
    for st in lp.body:
        if isinstance(st, ast.Assign) and len(st.targets) == 1:
            t = ast.unparse(st.targets[0]).replace(" ", "")
            if t in ("self.start_idx[%s]" % i, "self.end_idx[%s]" % i):
                rec[t.split(".")[1].split("[")[0]] = ev(st.value)
                continue
            if isinstance(st.targets[0], ast.Name):
                state[st.targets[0].id] = ev(st.value)
                continue
        if isinstance(st, ast.AugAssign) and isinstance(st.target, ast.Name) and isinstance(st.op, (ast.Add, ast.Sub)):
            cur = ev(st.target)
            d = ev(st.value)
            state[st.target.id] = cur + d if isinstance(st.op, ast.Add) else cur - d
            continue
        raise Unsupported("prefix-sum loop statement %s" % ast.unparse(st))
    if set(rec) != {"start_idx", "end_idx"} or len(counts) != 1:
        raise Unsupported("prefix-sum loop does not set start_idx and end_idx from one count array")
    cnt = next(iter(counts))
    c = sym("count:" + cnt)
    running = [v for v in state if not (state[v] == sym("entry:" + v))]
    # all running variables start at 0 before the loop (so they are equal at entry of every iteration by induction)
    def starts_at_zero(v):
        for st in init.body:
            if st is lp:
                break
            tgt = st.targets[0] if isinstance(st, ast.Assign) and len(st.targets) == 1 else st.target if isinstance(st, ast.AnnAssign) else None
            if isinstance(tgt, ast.Name) and tgt.id == v:
                val = st.value
                return isinstance(val, ast.Constant) and val.value == 0 and not isinstance(val.value, bool)
        return False
    if lp not in init.body:
        raise Unsupported("prefix-sum loop is nested in other control flow")
    zero_init = all(starts_at_zero(v) for v in running)
    entry = {("s", "entry:" + v): Poly.sym("entry:P") for v in running}
    start = rec["start_idx"].subs(entry)
    end = rec["end_idx"].subs(entry)
    P = sym("entry:P")
    ok = zero_init and start == P and end == P + c and all(state[v].subs(entry) == P + c for v in running) and bool(running)
    # the marker count handed to the base class is the total of the same count array
    def total_of(e):
        """name of the array whose total the expression is, for the accepted spellings"""
        if isinstance(e, ast.Call) and ast.unparse(e.func) == "int" and len(e.args) == 1:
            return total_of(e.args[0])
        if isinstance(e, ast.Call) and isinstance(e.func, ast.Attribute) and e.func.attr == "sum" and not e.args and not e.keywords:
            return ast.unparse(e.func.value)
        if isinstance(e, ast.Call) and ast.unparse(e.func) in ("np.sum", "sum", "numpy.sum") and len(e.args) == 1 and not e.keywords:
            return ast.unparse(e.args[0])
        return None
    nl = []
    for n_ in ast.walk(init):
        if isinstance(n_, ast.Call):
            nl += [k.value for k in n_.keywords if k.arg == "num_lag_nodes"]
        if isinstance(n_, ast.Assign) and any(ast.unparse(t) in ("num_lag_nodes", "self.num_lag_nodes") for t in n_.targets):
            nl.append(n_.value)
    resolved = []
    for e in nl:
        if isinstance(e, ast.Name):
            a = [x.value for x in ast.walk(init) if isinstance(x, ast.Assign) and any(ast.unparse(t) == e.id for t in x.targets)]
            resolved += a if a else [e]
        else:
            resolved.append(e)
    tot = {total_of(e) for e in resolved}
    if not resolved or None in tot:
        raise Unsupported("cannot read how num_lag_nodes is computed: %s" % [ast.unparse(e) for e in resolved])
    total_ok = tot == {cnt}
    rep.ob("C08.a", lab + " marker partition (prefix sums of the per-element counts)", bool(ok and total_ok),
           "per iteration: start_idx[i] = %r, end_idx[i] = %r, running sums -> %s (entry value P, count c = %s[i]); num_lag_nodes = %s.sum(): %s" % (
               start, end, {v: repr(state[v].subs(entry)) for v in running}, cnt, cnt, total_ok),
           key="C08.a|%s|partition|%r|%r" % (g.clsname, start, end))


def flow_forces(S, rep):
    p = os.path.join(S.repo, "sopht", "simulator", "immersed_body", "flow_forces.py")
    tree = ast.parse(open(p).read())
    fn = next((n for n in ast.walk(tree) if isinstance(n, ast.FunctionDef) and n.name == "apply_forces"), None)
    if fn is None:
        raise Unsupported("anchor vanished: FlowForces.apply_forces")
    stmts = [s for s in fn.body if not (isinstance(s, ast.Expr) and isinstance(s.value, ast.Constant))]
    texts = [ast.unparse(s).replace(" ", "") for s in stmts]
    comp = [i for i, t in enumerate(texts) if t.endswith(".compute_flow_forces_and_torques()")]
    adds = {}
    for i, s in enumerate(stmts):
        if isinstance(s, ast.AugAssign):
            adds[ast.unparse(s.target).split(".")[-1]] = (i, type(s.op).__name__, ast.unparse(s.value).split(".")[-1])
    okf = "external_forces" in adds and adds["external_forces"][1] == "Add" and adds["external_forces"][2] == "body_flow_forces"
    okt = "external_torques" in adds and adds["external_torques"][1] == "Add" and adds["external_torques"][2] == "body_flow_torques"
    order = bool(comp) and all(comp[0] < v[0] for v in adds.values())
    rep.ob("C08.e", "FlowForces adds the recomputed forces to the body", okf and okt and order and len(comp) == 1,
           "apply_forces: %s" % texts, key="C08.e|%s" % texts)


FLOAT_NAMES = {"float", "np.float64", "np.float32", "numpy.float64", "numpy.float32", "np.double", "np.single", "real_t", "self.real_t", "np.floating"}
ALLOC = {"zeros", "empty", "ones"}
ALLOC_LIKE = {"zeros_like", "empty_like", "ones_like"}


def _local_value(fn, name, before):
    """the last expression assigned to a local name before a line (straight-line constructors)"""
    val = None
    for st in ast.walk(fn):
        if isinstance(st, ast.Assign) and st.lineno < before and any(isinstance(t, ast.Name) and t.id == name for t in st.targets):
            if val is None or st.lineno > val.lineno:
                val = st
    return val.value if val is not None else None


def element_type_of(fn, e, params, line, depth=0):
    """('float', why) | ('caller', expr text) | ('unknown', why): the element type of the array an expression of a
    constructor evaluates to, from the allocation idioms the package uses"""
    if depth > 6:
        return "unknown", "too deep"
    if isinstance(e, ast.Name):
        v = _local_value(fn, e.id, line)
        if v is not None:
            return element_type_of(fn, v, params, v.lineno, depth + 1)
        if e.id in params:
            return "caller", e.id
        return "unknown", e.id
    if isinstance(e, ast.Attribute):
        r = e
        while isinstance(r, (ast.Attribute, ast.Subscript)):
            r = r.value
        if isinstance(r, ast.Name) and r.id in params and _local_value(fn, r.id, line) is None:
            return "caller", ast.unparse(e)
        return "unknown", ast.unparse(e)
    if isinstance(e, ast.Subscript):
        return element_type_of(fn, e.value, params, line, depth + 1)
    if isinstance(e, ast.Constant):
        return ("float", "float literal") if isinstance(e.value, float) else ("unknown", repr(e.value))
    if isinstance(e, ast.UnaryOp):
        return element_type_of(fn, e.operand, params, line, depth + 1)
    if isinstance(e, ast.BinOp):
        if isinstance(e.op, ast.Div):
            return "float", "true division"
        a = element_type_of(fn, e.left, params, line, depth + 1)
        b = element_type_of(fn, e.right, params, line, depth + 1)
        if a[0] == "float" or b[0] == "float":
            return "float", "arithmetic with a real operand"
        return a if a[0] == "caller" else b
    if isinstance(e, ast.Call):
        f = e.func
        name = f.attr if isinstance(f, ast.Attribute) else (f.id if isinstance(f, ast.Name) else "")
        dt = next((k.value for k in e.keywords if k.arg == "dtype"), None)
        if name in ALLOC or name in ALLOC_LIKE or name in ("array", "asarray", "full", "full_like", "astype", "ascontiguousarray"):
            if name == "astype" and e.args:
                dt = e.args[0]
            if name in ALLOC and dt is None and len(e.args) >= 2:
                dt = e.args[1]
            if dt is not None:
                t = ast.unparse(dt)
                return ("float", "dtype=%s" % t) if t in FLOAT_NAMES else ("unknown", "dtype=%s" % t)
            if name in ALLOC:
                return "float", "numpy.%s default element type" % name
            if name == "astype":
                return "unknown", "astype without a type"
            if e.args:
                return element_type_of(fn, e.args[0], params, line, depth + 1)
        if isinstance(f, ast.Attribute) and name in ("reshape", "copy", "view", "ravel", "squeeze", "transpose", "flatten"):
            return element_type_of(fn, f.value, params, line, depth + 1)
        if name in ("norm", "sqrt", "sin", "cos", "mean", "linspace"):
            return "float", "numpy.%s returns reals" % name
        if name in ("cross", "dot", "matmul", "add", "subtract", "multiply") and e.args:
            rs = [element_type_of(fn, a, params, line, depth + 1) for a in e.args[:2]]
            if any(r[0] == "float" for r in rs):
                return "float", "arithmetic with a real operand"
            return next((r for r in rs if r[0] == "caller"), rs[0])
    if isinstance(e, (ast.List, ast.Tuple)):
        rs = [element_type_of(fn, a, params, line, depth + 1) for a in e.elts]
        if any(r[0] == "float" for r in rs):
            return "float", "a real entry"
        return next((r for r in rs if r[0] == "caller"), ("unknown", "literal list"))
    return "unknown", ast.unparse(e)[:60]


def own_body_attribute_types(S):
    """attribute -> [(class, kind, why)] for the rigid bodies the package defines itself"""
    path = os.path.join(S.repo, "sopht", "simulator", "immersed_body", "rigid_body", "derived_rigid_bodies.py")
    tree = ast.parse(open(path).read())
    out = {}
    for cls in [c for c in tree.body if isinstance(c, ast.ClassDef)]:
        init = next((f for f in cls.body if isinstance(f, ast.FunctionDef) and f.name == "__init__"), None)
        if init is None:
            continue
        params = {a.arg for a in init.args.args + init.args.kwonlyargs} - {"self"}
        for st in ast.walk(init):
            if isinstance(st, ast.Assign) and len(st.targets) == 1 and isinstance(st.targets[0], ast.Attribute) \
                    and isinstance(st.targets[0].value, ast.Name) and st.targets[0].value.id == "self":
                kind, why = element_type_of(init, st.value, params, st.lineno)
                out.setdefault(st.targets[0].attr, []).append((cls.name, kind, "%s (line %d: %s)" % (why, st.lineno, ast.unparse(st)[:80])))
    return out


def load_buffers_hold_reals(S, rep):
    """the net force is written into body_flow_forces / body_flow_torques by assignment, which converts to the buffer's
    element type: the buffers the interaction classes allocate must hold reals whatever the body's own arrays hold (an
    integer-typed buffer truncates the force, and fluid + body no longer balance)"""
    from .c10 import class_index
    idx = class_index(S.repo)
    own = None
    base = idx.get("ImmersedBodyFlowInteraction")
    if base is None:
        raise Unsupported("anchor vanished: ImmersedBodyFlowInteraction")
    binit = next(f for f in base[0].body if isinstance(f, ast.FunctionDef) and f.name == "__init__")
    bparams = [a.arg for a in binit.args.args][1:]
    found = 0
    for name in sorted(idx):
        cls, rel = idx[name]
        if not any(ast.unparse(b).split(".")[-1] == "ImmersedBodyFlowInteraction" for b in cls.bases):
            continue
        init = next((f for f in cls.body if isinstance(f, ast.FunctionDef) and f.name == "__init__"), None)
        if init is None:
            continue
        params = {a.arg for a in init.args.args + init.args.kwonlyargs} - {"self"}
        sup = next((c for c in ast.walk(init) if isinstance(c, ast.Call) and isinstance(c.func, ast.Attribute) and c.func.attr == "__init__"
                    and isinstance(c.func.value, ast.Call) and ast.unparse(c.func.value.func) == "super"), None)
        if sup is None:
            continue
        bound = dict(zip(bparams, sup.args))
        bound.update({k.arg: k.value for k in sup.keywords if k.arg})
        for buf in ("body_flow_forces", "body_flow_torques"):
            if buf not in bound:
                raise Unsupported("%s.__init__ does not pass %s to the base constructor" % (name, buf))
            kind, why = element_type_of(init, bound[buf], params, sup.lineno)
            found += 1
            ok, detail = True, "holds reals: %s" % why
            if kind == "caller":
                if own is None:
                    own = own_body_attribute_types(S)
                attr = why.split(".")[-1]
                loose = [(c, w) for c, k, w in own.get(attr, []) if k != "float"]
                if loose:
                    ok = False
                    detail = ("takes its element type from %s, and %s stores that array as the caller gave it: %s; with an integer-typed "
                              "array the net force is truncated on assignment" % (why, loose[0][0], loose[0][1]))
                else:
                    detail = "takes its element type from %s, which every rigid body of the package stores as reals" % why
            elif kind == "unknown":
                raise Unsupported("%s.__init__: element type of %s cannot be determined (%s)" % (name, buf, why))
            rep.ob("C08.h", "%s allocates %s for reals" % (name, buf), ok, detail, key="C08.h|%s|%s|%s" % (name, buf, kind), nontrivial=False)
    rep.note("load_buffers", found)


def run_wrappers(S, rep):
    """fluid + body forces balance only if the interaction the user configured is the one that runs: the body-specific
    interaction classes must forward the reset / accumulate option (and every other argument) to the base unchanged"""
    from .c10 import wrappers_forward_options
    wrappers_forward_options(S, rep, rule="C08.f")


def run(S, tier, rep):
    rep.rule_text = ("transfer_forcing_from_grid_to_body of every forcing grid is interpreted over one generic element / marker with linear "
                     "marker sums; nodal forces are tracked as (contribution to next node, contribution to previous node): their sum must be "
                     "minus the element's marker forces and the two halves equal; couples must equal Q * sum((x_marker - centre) x (-f)) with "
                     "the code's own marker positions; frames are typed (torques material-frame on exit); FlowForces adds")
    rep.explanation = ("summing the per-element identity over elements gives the net-force and net-moment identities for any element count, "
                       "taper and surface density; with C07 the grid integral of the applied force density plus the body force vanishes")
    rep.assumptions = rep.assumptions + ["A6 PyElastica conventions incl. _elements_to_nodes_inplace adds half of each element value to both nodes"]
    for relfile, cls, dim in CASES:
        check_case(S, rep, relfile, cls, dim)
    flow_forces(S, rep)
    run_wrappers(S, rep)
    # the reaction is computed from the forces at the markers AS THEY ARE NOW and transferred with the current arms: the body-side
    # evaluation path must refresh positions, velocities, arms and directors before it uses them (def-use rule shared with C09)
    from .c09 import freshness
    freshness(S, rep, "C08.g")
    load_buffers_hold_reals(S, rep)
    rep.require_min("C08.h", 4)
    # "fluid + body balance": the force density must land in the array the flow solver reads (the caller's forcing field), not in
    # a private copy of it; decided by C10's effect classification of the interaction instance (C10.e) and its alias rule (C10.f)
    from ..report import Report as _R
    from .c10 import check_instance
    tmp = _R("C08", "other")
    broken_forwarding = any(not o["ok"] for o in rep.obligations if o["rule"] == "C08.f")
    for dim_ in (2, 3):
        for reset_ in (True, False):
            try:
                check_instance(S, dim_, reset_, tmp)
            except Unsupported:
                if not broken_forwarding:
                    raise
    for o in tmp.obligations:
        if o["rule"] == "C10.e" or (o["rule"] == "C10.f" and "view of the caller" in o["instance"]):
            o = dict(o, rule="C08.target")
            if "key" in o:
                o["key"] = o["key"].replace("C10.", "C08.target.")
            rep.obligations.append(o)
    rep.require_min("C08.target", 8)
    rep.require_min("C08.g", 40)
    rep.require_min("C08.f", 2)
    rep.require_min("C08.a", 12)
    rep.require_min("C08.c", 8)
    rep.require_min("C08.b", 4)
