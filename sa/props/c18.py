"""C18: a run resumed from a checkpoint continues as the uninterrupted run would have."""
from __future__ import annotations

import ast
import os

from ..driver import run_store, written_allocs
from ..store import roots_of, full_box, comp_rank
from ..poly import sym
from ..values import Arr, Inst, Unsupported
from .simtools import STAGE_FUNCS, array_attr_names, sim_configs, stepped_sim
from .traces import coupling_traces

SIM_PUBLIC = {"vorticity_field", "velocity_field", "eul_grid_forcing_field", "primary_field"}
SIM_OUTPUT = {"vorticity_field", "velocity_field", "eul_grid_forcing_field", "primary_field"}
VBF_PUBLIC = {"lag_grid_position_mismatch_field", "lag_grid_velocity_mismatch_field"}

CASE_SPLIT = True     # orderings between different grid sizes are analysed case by case (regions.run_under_size_cases)


def final_roots(st, alloc):
    import itertools
    cr = comp_rank(alloc)
    comps = list(itertools.product(*[range(int(s)) for s in alloc.shape[:cr]]))
    parts = ["real", "imag"] if alloc.dtype.kind == "c" else [None]
    exprs = []
    for c in comps:
        for part in parts:
            key = st.key(alloc, c, part)
            exprs += [p.expr for p in st.pieces(key)]
    return roots_of(st, exprs)


def liveness(rep, lab, st, trace, inst, public_attrs, output_attrs, extra_inputs=()):
    names = array_attr_names(inst)
    written = written_allocs(trace)
    pub_ids = {i for i, ns in names.items() if any(n in public_attrs for n in ns)}
    init_owner = {}
    for n, d in st.defs.items():
        if d["kind"] == "init":
            init_owner[n] = d["alloc"]
    for aid, ns in sorted(names.items(), key=lambda kv: kv[1]):
        if not any(n in output_attrs for n in ns):
            continue
        alloc = next((d["alloc"] for d in st.defs.values() if d.get("alloc") is not None and d["alloc"].id == aid), None)
        if alloc is None:
            continue
        roots = final_roots(st, alloc)
        hidden = []
        for r in roots:
            al = init_owner.get(r)
            if al is None:
                continue
            if al.id in pub_ids or al.id in extra_inputs:
                continue
            if al.id not in written:
                continue      # immutable configuration: never written by the step
            hidden.append("%s (%s)" % (r, ", ".join(names.get(al.id, [al.label]))))
        rep.ob("C18.a", "%s :: %s" % (lab, ns[0]), not hidden,
               "the new %s depends on what a scratch buffer held before the step: %s" % (ns[0], sorted(hidden)) if hidden
               else "depends only on public state and immutable configuration (%d roots)" % len(roots),
               key="C18.a|%s|%s|%s" % (lab.split(" ")[0], ns[0], ",".join(sorted(h.split(" ")[0] for h in hidden))),
               sample={"trace": lab, "array": ns[0], "roots": sorted(roots)[:8]})
    # scalar state: only `time` may be assigned after construction
    for op in trace:
        if op.kind == "AttrSet" and op.inst is inst and op.attr != "time":
            rep.ob("C18.a", "%s :: attribute %s" % (lab, op.attr), False,
                   "the step assigns instance attribute %s (state outside the checkpointed set)" % op.attr,
                   key="C18.a|attr|%s" % op.attr)


def element_type(listexpr):
    """'int' | 'str' | None: type of the elements of the index list (a comprehension over the glob listing)"""
    if isinstance(listexpr, (ast.ListComp, ast.GeneratorExp, ast.SetComp)):
        e = listexpr.elt
    elif isinstance(listexpr, ast.Call) and ast.unparse(listexpr.func) in ("list", "sorted", "tuple") and listexpr.args:
        return element_type(listexpr.args[0])
    elif isinstance(listexpr, ast.Call) and ast.unparse(listexpr.func) == "map" and len(listexpr.args) == 2:
        return "int" if ast.unparse(listexpr.args[0]) == "int" else None
    else:
        return None
    if isinstance(e, ast.Call) and ast.unparse(e.func) == "int":
        return "int"
    if isinstance(e, ast.Call) and ast.unparse(e.func) == "str":
        return "str"
    if isinstance(e, ast.Attribute) and e.attr in ("stem", "name", "suffix"):
        return "str"
    if isinstance(e, ast.Subscript) and isinstance(e.value, ast.Call) and isinstance(e.value.func, ast.Attribute) \
            and e.value.func.attr in ("split", "rsplit", "partition", "rpartition"):
        return "str"
    return None


def classify_latest(node):
    """('ok' | 'bad' | 'unknown', name of the index list)"""
    u = ast.unparse(node).replace(" ", "")
    def name_of(n):
        return n.id if isinstance(n, ast.Name) else None
    if isinstance(node, ast.Call) and ast.unparse(node.func) == "int" and len(node.args) == 1 and not node.keywords:
        return classify_latest(node.args[0])       # conversion of the chosen element: the choice is made inside
    if isinstance(node, ast.Call) and ast.unparse(node.func) in ("max", "np.max", "np.amax") and node.args:
        if any(k.arg == "key" for k in node.keywords):
            k = next(k for k in node.keywords if k.arg == "key")
            return ("ok:key=int", name_of(node.args[0])) if ast.unparse(k.value) == "int" and name_of(node.args[0]) else ("unknown", None)
        return ("ok", name_of(node.args[0])) if name_of(node.args[0]) else ("unknown", None)
    if isinstance(node, ast.Call) and ast.unparse(node.func) in ("min", "np.min", "np.amin") and node.args:
        return ("bad", name_of(node.args[0]))
    if isinstance(node, ast.Subscript) and isinstance(node.value, ast.Call) and ast.unparse(node.value.func) == "sorted":
        lst = name_of(node.value.args[0]) if node.value.args else None
        rev = any(k.arg == "reverse" and isinstance(k.value, ast.Constant) and k.value.value is True for k in node.value.keywords)
        i = ast.unparse(node.slice)
        if lst and i in ("-1", "0"):
            last = i == "-1"
            return ("ok" if last != rev else "bad", lst)
        return "unknown", lst
    if isinstance(node, ast.Subscript) and isinstance(node.value, ast.Name):
        return "bad", node.value.id      # an element of the unsorted glob listing
    return "unknown", None


def restart_helper(S, rep):
    path = os.path.join(S.repo, "sopht", "utils", "restart_sim.py")
    tree = ast.parse(open(path).read())
    fn = next((n for n in tree.body if isinstance(n, ast.FunctionDef) and n.name == "restart_simulation"), None)
    if fn is None:
        raise Unsupported("anchor vanished: restart_simulation")
    from ..pycfg import FunctionFacts
    ff = FunctionFacts(fn)
    params = [a.arg for a in fn.args.args]
    if len(params) < 5:
        raise Unsupported("restart_simulation: signature changed: %s" % params)
    sim_p, io_p, rod_p, forcing_p = params[:4]       # documented order: body simulator, flow IO, rod IO, forcing-grid IO
    loads = ff.calls_matching(lambda c: isinstance(c.func, ast.Attribute) and c.func.attr in ("load", "load_state"))

    def recv(c):
        return ast.unparse(c.func.value)

    def target_of(call):
        """local name a call's result is assigned to"""
        for st in ast.walk(fn):
            if isinstance(st, ast.Assign) and st.value is call and len(st.targets) == 1 and isinstance(st.targets[0], ast.Name):
                return st.targets[0].id
        return None
    io_loads = [c for c in loads if c.func.attr == "load" and recv(c) == io_p]
    state_loads = [c for c in loads if c.func.attr == "load_state"]
    # the index variable is the one formatted into the flow checkpoint's file name
    idx_names = set()
    for c in io_loads:
        for n in ast.walk(c):
            if isinstance(n, ast.FormattedValue):
                idx_names |= {x.id for x in ast.walk(n.value) if isinstance(x, ast.Name)}
    if len(io_loads) != 1 or len(idx_names) != 1:
        raise Unsupported("restart_simulation: cannot identify the flow checkpoint load / its index (%d loads, index names %s)" % (len(io_loads), sorted(idx_names)))
    latest_name = next(iter(idx_names))
    # 1. the index chosen is the largest of the parsed indices (idiom table; unknown idiom = analysis error)
    latest = ff.single_assignment(latest_name)
    if latest is None:
        raise Unsupported("restart_simulation: cannot find the single assignment of `%s`" % latest_name)
    verdict, idx_src = classify_latest(latest)
    if verdict == "unknown":
        raise Unsupported("restart_simulation: unrecognised way of choosing the checkpoint index: %s" % ast.unparse(latest))
    # the comparison must be numeric: elements of the list are ints (or the maximum is taken with key=int)
    src = ff.single_assignment(idx_src) if idx_src else None
    et = element_type(src) if src is not None else None
    if et is None:
        raise Unsupported("restart_simulation: cannot tell the element type of %s = %s" % (idx_src, ast.unparse(src) if src is not None else None))
    numeric = et == "int" or verdict == "ok:key=int"
    rep.ob("C18.b", "latest checkpoint index is the largest", verdict.startswith("ok") and numeric,
           "the checkpoint index is computed as %s over %s elements%s" % (ast.unparse(latest), et, "" if numeric else
               ": the largest *string* is not the largest index once the indices have different digit counts (sopht_9999 vs sopht_10000)"),
           key="C18.b|latest|%s|%s" % (ast.unparse(latest), et))
    # the indices come from the numeric suffix of the sopht_*.h5 names
    s = ast.unparse(src).replace('"', "'") if src is not None else ""
    if "glob(" not in s:
        raise Unsupported("restart_simulation: unrecognised way of listing checkpoint indices: %s" % s)
    ok2 = "'sopht_*.h5'" in s and ("split('_')[-1]" in s or "rsplit('_', 1)[-1]" in s or "rsplit('_', 1)[1]" in s)
    rep.ob("C18.b", "indices parsed from sopht_*.h5 names", ok2, s, key="C18.b|indices|%s" % s[:80])
    # 2. empty directory -> raise before any load
    guard = ff.raise_guard_on_empty(idx_src) if idx_src else None
    ok3 = guard is not None and all(guard.lineno < c.lineno for c in loads) and ff.dominates_all(guard, loads)
    rep.ob("C18.b", "no checkpoint -> raise before any load", bool(ok3),
           "a `raise` guarded by len(%s) == 0 must dominate every load" % idx_src, key="C18.b|empty-guard")
    # 3. all three files of the chosen index are loaded
    fmt = [ast.unparse(c) for c in loads]
    need = {io_p: "sopht_", rod_p: "rod_", forcing_p: "forcing_grid_"}
    for r, prefix in need.items():
        hit = [c for c in loads if c.func.attr == "load" and recv(c) == r and prefix in ast.unparse(c)
               and any(isinstance(x, ast.Name) and x.id == latest_name for x in ast.walk(c))]
        rep.ob("C18.b", "%s.load of the chosen index" % r, len(hit) == 1, "calls: %s" % [f for f in fmt if f.startswith(r + ".")],
               key="C18.b|load|%s|%s" % (r, [f for f in fmt if f.startswith(r + ".")]))
    # 4. time mismatch raises; the normal return is the flow checkpoint's time
    flow_t = target_of(io_loads[0])
    body_t = target_of(state_loads[0]) if len(state_loads) == 1 else None
    if flow_t is None or body_t is None:
        rep.ob("C18.b", "flow and body times are read from their checkpoints", False,
               "the flow checkpoint's time (%s.load) or the body's time (load_state) is not kept: %s" % (io_p, fmt), key="C18.b|times-kept")
        return

    def is_mismatch(t):
        return sorted(ast.unparse(x) for x in [t.left] + t.comparators) == sorted([flow_t, body_t]) and isinstance(t.ops[0], ast.NotEq)
    ok5 = ff.raise_on_condition_dominates_returns(is_mismatch)
    rep.ob("C18.b", "returned time is the one read from the flow checkpoint",
           ff.all_returns_are(flow_t) or (ff.all_returns_are(body_t) and ok5),
           "%s = %s; returns: %s" % (flow_t, ast.unparse(io_loads[0]), ff.return_exprs()), key="C18.b|return|%s" % ff.return_exprs())
    rep.ob("C18.b", "flow/body time mismatch -> raise", ok5, "a raise under `%s != %s` must precede every return" % (flow_t, body_t),
           key="C18.b|time-guard")
    rep.ob("C18.b", "body time comes from the body's own checkpoint", sim_p in ast.unparse(state_loads[0]),
           "%s = %s" % (body_t, ast.unparse(state_loads[0])), key="C18.b|rod_time")


def sim_liveness(S, cfg, rep):
    run = stepped_sim(S, cfg)
    lab = "time_step " + run.label()
    if run.raised is not None or run.problems or run.store is None:
        rep.ob("C18.a", lab, False, "time step cannot be analysed: %s %s" % (run.raised, [p.msg for p in run.problems][:2]),
               key="C18.a|%s|raises" % lab)
        return
    liveness(rep, lab, run.store, run.trace, run.inst, SIM_PUBLIC, SIM_OUTPUT,
             extra_inputs={op.arr.alloc.id for op in run.trace if op.kind == "ElemRead" and op.arr.alloc.label == "free_stream"})


def run(S, tier, rep):
    rep.rule_text = ("C18.a liveness over every step / interaction trace: the transitive roots (initial array contents) of every public "
                     "output must be public state or arrays the step never writes; C18.b flow rules on restart_simulation")
    rep.explanation = ("contents are tracked per region by the symbolic store, so a scratch buffer counts as overwritten only where "
                       "Interior(g) and the reset ring really cover it; external operations (FFT, numba kernels) propagate dependence")
    from .simtools import parallel_over
    cfgs = [cfg for kind in ("2d", "3d", "passive") for cfg in sim_configs(kind, tier)]
    parallel_over(S, rep, "sa.props.c18", "sim_liveness", cfgs)
    for lab, tr, pr, raised, inst in coupling_traces(S):
        if raised is not None or inst is None:
            rep.ob("C18.a", lab, False, "interaction cannot be analysed: %s" % raised, key="C18.a|%s|raises" % lab)
            continue
        st = run_store(tr)
        args = {op.fn.qualname: op for op in tr if op.kind == "CallBegin"}
        ext_in = set()
        for op in tr:
            if op.kind == "CallBegin" and op.fn.qualname.endswith("compute_interaction_force_on_eul_and_lag_grid"):
                for k, v in op.args.items():
                    if isinstance(v, Arr):
                        ext_in.add(v.alloc.id)
        names = array_attr_names(inst)
        # outputs: the two mismatch fields, the marker force, and the Eulerian forcing field argument
        liveness(rep, lab, st, tr, inst, VBF_PUBLIC, VBF_PUBLIC | {"lag_grid_forcing_field"}, extra_inputs=ext_in)
    # the forcing grids' own scratch buffers (arms, transposed directors ...): a fresh grid object must not need what an
    # earlier evaluation left in them
    from .c09 import freshness
    freshness(S, rep, "C18.a")
    restart_helper(S, rep)
    # a checkpoint can only resume the run if the IO layer works on the LIVE arrays: save reads what the simulator holds at
    # step k and load refills those very arrays (a registration that silently detaches a copy loses both).  Decided by the
    # symbolic round trip of C17 and recorded here as the checkpoint clause of this property.
    from ..report import Report
    from .c17 import round_trip, unnamed_grids
    tmp = Report("C18", "other")
    for dim in (2, 3):
        round_trip(S, tmp, dim, sym("N"), "N")
    unnamed_grids(S, tmp, rule="C17.a")
    for o in tmp.obligations:
        if o["rule"] == "C17.a":
            o = dict(o, rule="C18.c")
            if "key" in o:
                o["key"] = o["key"].replace("C17.a", "C18.c")
            rep.obligations.append(o)
    rep.require_min("C18.c", 10)
    rep.require_min("C18.a", 76)
    rep.require_min("C18.b", 9)
