"""C12: discrete vector-calculus identities hold exactly (Laurent-polynomial composition of
the extracted, wrapper-resolved stencils)."""
from __future__ import annotations

from ..poly import PW, Poly, const, sym, fld
from ..specs import ops
from ..specs.ops import X, Y, Z, comp, at, zero, unit
from ..store import compose
from ..pwtools import pw_equal
from .common import find_entry, interiors, rename_fields, short

CASE_SPLIT = True     # orderings between different grid sizes are analysed case by case (regions.run_under_size_cases)


def zero_expr(e):
    return e.is_leaf() and e.leaf.is_zero()


def run(S, tier, rep):
    rep.rule_text = ("polynomial identities between the resolved deep-interior summaries of the public kernels; "
                     "composition = substitution of shifted stencils; an identity holds iff the normal form of the difference is 0")
    rep.explanation = "exact algebra over Q with field values as indeterminates: holds for all real fields and all interior cells"
    rep.trusted_base = ["A1 pystencils assignment semantics", "A2 exact literals", "A7 extractor/normaliser"]
    p1, p2 = sym("p1"), sym("p2")

    def I(gen, **opts):
        e = find_entry(gen, **opts)
        ex, sm = interiors(S, e)
        return ex

    # 3D kernels
    for reset in (True, False):
        curl = I("gen_curl_pyst_kernel_3d", reset_ghost_zone=reset)
        div = I("gen_divergence_pyst_kernel_3d", reset_ghost_zone=reset)
        curl_c = {comp("field", c): curl[comp("curl", c)].subs({("s", "prefactor"): p1}) for c in range(3)}
        dc = compose(div["divergence"], curl_c)
        rep.ob("C12.div_curl", "div(curl F) reset_ghost_zone=%s" % reset, zero_expr(dc),
               "div o curl = %s" % short(dc) if not zero_expr(dc) else "normal form of div(curl F) is 0",
               key="C12.div_curl|reset=%s|%s" % (reset, short(dc, 200)),
               sample={"identity": "div(curl F) == 0", "curl_x": short(curl[comp("curl", 0)], 200)})
    curl = I("gen_curl_pyst_kernel_3d", reset_ghost_zone=False)
    div = I("gen_divergence_pyst_kernel_3d", reset_ghost_zone=False)
    upd = I("gen_update_vorticity_from_velocity_forcing_pyst_kernel_3d")
    pen = I("gen_update_vorticity_from_penalised_velocity_pyst_kernel_3d")
    # update_from_forcing == id + prefactor * library curl
    for c in range(3):
        lib = rename_fields(curl[comp("curl", c)], {"field": "velocity_forcing_field"})
        want = at(comp("vorticity_field", c), zero(3)) + lib
        got = upd[comp("vorticity_field", c)]
        ok = pw_equal(got, want)
        rep.ob("C12.update_is_curl", "3D component %d" % c, ok,
               "update-from-forcing is not vorticity + prefactor*curl(forcing) of the library's own curl: got %s, curl gives %s" % (short(got), short(want)) if not ok else "",
               key="C12.update_is_curl|3d|%d|%s" % (c, short(got, 200)))
    # div(update - id) == 0
    inc = {comp("field", c): (upd[comp("vorticity_field", c)] - at(comp("vorticity_field", c), zero(3))) for c in range(3)}
    d = compose(div["divergence"], inc)
    rep.ob("C12.div_update", "div(update_from_forcing - id) 3D", zero_expr(d),
           "curl-type vorticity update creates divergence: %s" % short(d) if not zero_expr(d) else "",
           key="C12.div_update|3d|%s" % short(d, 200))
    # penalised update == forcing update applied to (u_pen - u)
    for c in range(3):
        sub = {}
        g = upd[comp("vorticity_field", c)]
        for a in g.all_atoms():
            if a[0] == "f" and a[1].startswith("velocity_forcing_field["):
                cc = a[1][len("velocity_forcing_field"):]
                sub[a] = fld("penalised_velocity_field" + cc, a[2]) - fld("velocity_field" + cc, a[2])
        want = g.subs(sub)
        got = pen[comp("vorticity_field", c)]
        ok = pw_equal(got, want)
        rep.ob("C12.penalised_is_forcing", "3D component %d" % c, ok,
               "penalised-velocity update differs from the forcing update applied to (u_pen - u): got %s want %s" % (short(got), short(want)) if not ok else "",
               key="C12.penalised_is_forcing|3d|%d|%s" % (c, short(got, 200)))

    # 2D kernels
    for reset in (True, False):
        oc = I("gen_outplane_field_curl_pyst_kernel_2d", reset_ghost_zone=reset)
        u = {comp("u", c): rename_fields(oc[comp("curl", c)], {"field": "psi"}).subs({("s", "prefactor"): p2}) for c in (X, Y)}
        # centred divergence (documented operator) of the recovered velocity
        dv = compose(ops.delta(comp("u", X), X, 2) + ops.delta(comp("u", Y), Y, 2), u)
        rep.ob("C12.div_velocity_2d", "div(curl psi) reset_ghost_zone=%s" % reset, zero_expr(dv),
               "velocity = curl(psi) is not discretely divergence free: %s" % short(dv) if not zero_expr(dv) else "",
               key="C12.div_velocity_2d|reset=%s|%s" % (reset, short(dv, 200)))
        ic = I("gen_inplane_field_curl_pyst_kernel_2d")
        w = compose(rename_fields(ic["curl"], {"field": "u"}).subs({("s", "prefactor"): p1}), u)
        psi = lambda *o: fld("psi", o)
        want = -p1 * p2 * (psi(0, 2) + psi(0, -2) + psi(2, 0) + psi(-2, 0) - const(4) * psi(0, 0))
        ok = pw_equal(w, want)
        rep.ob("C12.curl_curl_2d", "inplane curl o outplane curl reset_ghost_zone=%s" % reset, ok,
               "curl(curl psi) is not the wide five-point negative Laplacian: %s" % short(w) if not ok else "",
               key="C12.curl_curl_2d|reset=%s|%s" % (reset, short(w, 200)))
    ic = I("gen_inplane_field_curl_pyst_kernel_2d")
    upd2 = I("gen_update_vorticity_from_velocity_forcing_pyst_kernel_2d")
    pen2 = I("gen_update_vorticity_from_penalised_velocity_pyst_kernel_2d")
    want = at("vorticity_field", zero(2)) + rename_fields(ic["curl"], {"field": "velocity_forcing_field"})
    ok = pw_equal(upd2["vorticity_field"], want)
    rep.ob("C12.update_is_curl", "2D", ok,
           "update-from-forcing is not vorticity + prefactor*curl(forcing): got %s, library curl gives %s" % (short(upd2["vorticity_field"]), short(want)) if not ok else "",
           key="C12.update_is_curl|2d|%s" % short(upd2["vorticity_field"], 200))
    sub = {}
    g = upd2["vorticity_field"]
    for a in g.all_atoms():
        if a[0] == "f" and a[1].startswith("velocity_forcing_field["):
            cc = a[1][len("velocity_forcing_field"):]
            sub[a] = fld("penalised_velocity_field" + cc, a[2]) - fld("velocity_field" + cc, a[2])
    want = g.subs(sub)
    ok = pw_equal(pen2["vorticity_field"], want)
    rep.ob("C12.penalised_is_forcing", "2D", ok,
           "penalised-velocity update differs from the forcing update applied to (u_pen - u): got %s" % short(pen2["vorticity_field"]) if not ok else "",
           key="C12.penalised_is_forcing|2d|%s" % short(pen2["vorticity_field"], 200))

    # the identities are claimed "at every cell whose stencils do not touch the boundary ring": the inner operator of each
    # composition must therefore carry its interior formula on ALL of Interior(1) (ghost-zone reset exactly one ring wide, no
    # other cell of the interior overwritten).  Decided by the region rule of C13 on the kernels used above.
    from ..report import Report
    from .c13 import check_entry
    from .common import CATALOGUE
    used = ("gen_curl_pyst_kernel_3d", "gen_divergence_pyst_kernel_3d", "gen_outplane_field_curl_pyst_kernel_2d", "gen_inplane_field_curl_pyst_kernel_2d",
            "gen_update_vorticity_from_velocity_forcing_pyst_kernel_2d", "gen_update_vorticity_from_velocity_forcing_pyst_kernel_3d",
            "gen_update_vorticity_from_penalised_velocity_pyst_kernel_2d", "gen_update_vorticity_from_penalised_velocity_pyst_kernel_3d")
    tmp = Report("C12", "other")
    for e in CATALOGUE:
        if e.gen in used:
            check_entry(S, e, tmp, pid="C12", rules=("a", "b"))
    for o in tmp.obligations:
        o = dict(o, rule="C12.region", nontrivial=False)
        if "key" in o:
            o["key"] = "C12.region|" + o["key"]
        rep.obligations.append(o)
    rep.require_min("C12.region", 20)
    # the divergence monitor and the routing of the rotational-form transport (3D simulator trace)
    from .simtools import sim3d_monitor_facts
    for rule, inst, ok, detail, key in sim3d_monitor_facts(S):
        rep.ob(rule, inst, ok, detail, key=key)
    rep.require_min("C12.div_curl", 2)
    rep.require_min("C12.update_is_curl", 4)
