"""Collection of every op trace the properties quantify over (generators, simulators, solvers, coupling)."""
from __future__ import annotations

import ast
import os

from ..driver import Session
from ..poly import sym
from ..specs.kernels import CATALOGUE
from ..summaries import summarize
from ..values import Arr, DType, RaisedInAnalysed, Unsupported
from .common import entry_summary, entry_trace
from .simtools import FLOW, build_sim, sim_configs, stepped_sim, trace_step

IBO = "sopht.numeric.immersed_boundary_ops"


def catalogue_traces(S, tier):
    for e in CATALOGUE:
        if tier == "quick":
            if e.opts.get("width", 1) > 2 or e.opts.get("filter_order", 1) > 2:
                continue
        tr, pr, raised = entry_trace(S, e)
        yield "kernel " + e.label(), tr, pr, raised


def ssprk3_trace(S):
    gen = S.gen("gen_vorticity_stretching_timestep_ssprk3_pyst_kernel_3d", real_t=S.real_t,
                midstep_buffer_vector_field=S.vector_field("midstep_buffer_vector_field", 3))
    tr, pr, raised = S.trace_call(gen, vorticity_field=S.vector_field("vorticity_field", 3), velocity_field=S.vector_field("velocity_field", 3),
                                  vorticity_stretching_flux_field=S.vector_field("vorticity_stretching_flux_field", 3), dt_by_2_dx=sym("dt_by_2_dx"))
    return "kernel gen_vorticity_stretching_timestep_ssprk3_pyst_kernel_3d", tr, pr, raised


def simulator_traces(S, tier, with_store=False):
    for kind in ("2d", "3d", "passive"):
        for cfg in sim_configs(kind, tier):
            run = stepped_sim(S, cfg, with_store)
            yield "time_step " + run.label(), run.trace, run.problems, run.raised, run
    # stable time step and divergence monitor
    for cfg in (sim_configs("2d", "quick")[0], sim_configs("3d", "quick")[0], sim_configs("passive", "quick")[0]):
        run = build_sim(S, cfg)
        if run.inst is None:
            continue
        mod = S.module(FLOW)
        for meth in ("compute_stable_timestep", "get_vorticity_divergence_l2_norm"):
            try:
                fn = S.I.get_attr(run.inst, meth, None, mod)
            except Unsupported:
                continue
            n0, p0 = len(S.I.trace), len(S.I.problems)
            raised = None
            try:
                S.I.call(fn, [], {}, None, mod)
            except RaisedInAnalysed as ex:
                raised = ex
            yield "%s %s" % (meth, run.label()), S.I.trace[n0:], S.I.problems[p0:], raised, run


def build_vbf(S, dim, reset, n_threads=None, **extra):
    mod = S.module(IBO)
    cls = mod.vars["VirtualBoundaryForcing"]
    inst = S.I.call(cls, [], dict(virtual_boundary_stiffness_coeff=sym("k_stiff"), virtual_boundary_damping_coeff=sym("k_damp"),
                                  grid_dim=dim, dx=sym("dx"), num_lag_nodes=sym("N"), real_t=S.real_t,
                                  enable_eul_grid_forcing_reset=reset, num_threads=sym("num_threads"), **extra), None, mod)
    return inst


def vbf_arrays(S, dim):
    N = sym("N")
    return dict(eul_grid_forcing_field=S.vector_field("eul_grid_forcing_field", dim),
                eul_grid_velocity_field=S.vector_field("eul_grid_velocity_field", dim),
                lag_grid_position_field=S.array("lag_grid_position_field", (dim, N)),
                lag_grid_velocity_field=S.array("lag_grid_velocity_field", (dim, N)))


def coupling_traces(S):
    mod = S.module(IBO)
    for dim in (2, 3):
        for reset in (True, False):
            n0, p0 = len(S.I.trace), len(S.I.problems)
            raised = None
            inst = None
            try:
                inst = build_vbf(S, dim, reset)
                n1 = len(S.I.trace)
                S.I.call(S.I.get_attr(inst, "compute_interaction_forcing", None, mod), [], vbf_arrays(S, dim), None, mod)
                S.I.call(S.I.get_attr(inst, "time_step", None, mod), [], dict(dt=sym("dt")), None, mod)
            except RaisedInAnalysed as ex:
                raised = ex
                n1 = n0
            yield "VirtualBoundaryForcing %dD reset=%s" % (dim, reset), S.I.trace[n1:], S.I.problems[p0:], raised, inst


def all_traces(S, tier):
    for x in catalogue_traces(S, tier):
        yield x
    yield ssprk3_trace(S)
    for lab, tr, pr, raised, _ in simulator_traces(S, tier):
        yield lab, tr, pr, raised
    for lab, tr, pr, raised, _ in coupling_traces(S):
        yield lab, tr, pr, raised


def syntactic_inventory(repo):
    """every @ps.kernel / @njit FunctionDef in the package, by (module, lineno)"""
    ps_k, njit = [], []
    for root, _, files in os.walk(os.path.join(repo, "sopht")):
        for f in files:
            if not f.endswith(".py"):
                continue
            p = os.path.join(root, f)
            mod = os.path.relpath(p, repo)[:-3].replace(os.sep, ".")
            tree = ast.parse(open(p).read())
            for n in ast.walk(tree):
                if isinstance(n, ast.FunctionDef):
                    for d in n.decorator_list:
                        s = ast.unparse(d)
                        if s == "ps.kernel":
                            ps_k.append((mod, n.lineno, n.name))
                        elif s.startswith("njit"):
                            njit.append((mod, n.lineno, n.name, s, n))
    return ps_k, njit
