"""helpers shared by the property checks"""
from __future__ import annotations

from ..poly import PW
from ..specs.kernels import CATALOGUE, Straddle, Full, IntRing, Zones
from ..summaries import summarize
from ..store import interior_point, _is_single_atom
from ..values import RaisedInAnalysed, Unsupported

_cache = {}


def entry_summary(S, e):
    """summary of one catalogue entry (cached per session)"""
    k = (id(S), e.label())
    if k in _cache:
        return _cache[k]
    gen_opts, call_kwargs, extra = e.build(S)
    raised = None
    fn = None
    try:
        fn = S.gen(e.gen, real_t=S.real_t, **gen_opts)
    except RaisedInAnalysed as ex:
        raised = ex
    if fn is None:
        res = (None, raised, call_kwargs, extra)
    else:
        sm = summarize(S, fn, call_kwargs, extra)
        res = (sm, None, call_kwargs, extra)
    _cache[k] = res
    return res


def short(e, n=400):
    s = repr(e)
    return s if len(s) <= n else s[:n] + "..."
