"""helpers shared by the property checks"""
from __future__ import annotations

from ..poly import PW
from ..specs.kernels import CATALOGUE, Straddle, Full, IntRing, Zones
from ..summaries import summarize
from ..store import interior_point, _is_single_atom
from ..values import RaisedInAnalysed, Unsupported

_cache = {}


def entry_summary(S, e):
    """summary of one catalogue entry (cached per session)"""
    k = (id(S), e.label())
    if k in _cache:
        return _cache[k]
    gen_opts, call_kwargs, extra = e.build(S)
    raised = None
    fn = None
    try:
        fn = S.gen(e.gen, real_t=S.real_t, **gen_opts)
    except RaisedInAnalysed as ex:
        raised = ex
    if fn is None:
        res = (None, raised, call_kwargs, extra)
    else:
        sm = summarize(S, fn, call_kwargs, extra)
        res = (sm, None, call_kwargs, extra)
    _cache[k] = res
    return res


def short(e, n=400):
    s = repr(e)
    return s if len(s) <= n else s[:n] + "..."


def find_entry(gen, **opts):
    for e in CATALOGUE:
        if e.gen == gen and all(e.opts.get(k) == v for k, v in opts.items()):
            return e
    raise Unsupported("anchor vanished: no catalogue entry for %s %r" % (gen, opts))


def interiors(S, e):
    """deep-interior expression of every argument array of a catalogue entry"""
    sm, raised, _, _ = entry_summary(S, e)
    if sm is None or sm.raised is not None:
        raise Unsupported("cannot summarise %s: %s" % (e.label(), raised or sm.raised))
    return {n: sm.interior(n) for n in sm.final}, sm


def rename_fields(expr, mapping):
    """rename array base names: {'field': 'psi'} renames field and field[c]"""
    def f(a):
        if a[0] == "f":
            n = a[1]
            base, br, rest = n.partition("[")
            b2, dot, part = base.partition(".")
            if b2 in mapping:
                return ("f", mapping[b2] + dot + part + br + rest, a[2])
            if n in mapping:
                return ("f", mapping[n], a[2])
        return a
    return expr.map_atoms(f)
