"""helpers shared by the property checks"""
from __future__ import annotations

from ..poly import PW, Poly
from ..specs.kernels import CATALOGUE, Straddle, Full, IntRing, Zones
from ..summaries import summarize
from ..store import interior_point, _is_single_atom
from ..values import RaisedInAnalysed, Unsupported

_cache = {}
from ..regions import CASE_CACHES as _CC
_CC.append(_cache)


class OutputNeverWritten(Unsupported):
    """a documented output of a catalogue kernel is written by no op of the call (found before symbolic execution)"""

    def __init__(self, label, names):
        super().__init__("%s never writes its documented output %s" % (label, ", ".join(names)))
        self.label, self.names = label, names


def summarize_with_shortcuts(S, fn, call_kwargs, extra, expected, label, depth=0):
    """summarize(); when the kernel branches on `x.any()` of an input array, both paths are summarised HERE (same entry,
    same arrays) and compared: the path taken when x has no non-zero element must give what the general path gives with
    x := 0.  If it does, the shortcut is exact and the general path stands for the entry; if not, the entry carries a
    problem (an early return that also skips work owed to the other operands)."""
    from ..regions import CURRENT_CASE, NeedDecision
    from ..values import Op
    from ..pwtools import pw_equal
    try:
        return summarize(S, fn, call_kwargs, extra, expect_written=expected)
    except NeedDecision as nd:
        if not nd.key.startswith("any(") or depth >= 2:
            raise
        base = CURRENT_CASE[0]
        c_true, c_false = base.decide(nd.key)
        try:
            CURRENT_CASE[0] = c_true
            sm_t = summarize_with_shortcuts(S, fn, call_kwargs, extra, expected, label, depth + 1)
            CURRENT_CASE[0] = c_false
            sm_f = summarize_with_shortcuts(S, fn, call_kwargs, extra, (), label, depth + 1)
        finally:
            CURRENT_CASE[0] = base
        names = set(nd.key[4:-1].split(";"))
        if sm_t.raised is not None or sm_f.raised is not None or sm_t.problems or sm_f.problems or sm_t.unwritten:
            return sm_t if (sm_t.raised is not None or sm_t.problems or sm_t.unwritten) else sm_f
        zero = {}

        def zeroed(expr):
            if expr is None:
                return None
            m = {a: Poly() for a in expr.all_atoms() if a[0] == "f" and a[1] in names}
            return expr.subs(m) if m else expr
        bad = None
        for n in sorted(set(sm_t.final) | set(sm_f.final)):
            if n not in sm_t.final or n not in sm_f.final:
                bad = "%s is an argument of one path only" % n
                break
            a, b = zeroed(sm_t.interior(n)), zeroed(sm_f.interior(n))
            if a is None or b is None or not pw_equal(a, b):
                bad = "%s: with %s zero the general path gives %s, the shortcut path leaves %s" % (n, ", ".join(sorted(names)), short(a, 160), short(b, 160))
                break
        if bad:
            sm_t.problems.append(Op("Problem", pkind="shortcut", where=nd.text.split(" at ")[-1], stack=(),
                                    msg="the branch taken when %s has no non-zero element does not give the result of the general path: %s" % (", ".join(sorted(names)), bad)))
        return sm_t


_fn_cache = {}


def effect_signature(trace):
    """the effectful ops of a trace (launches, stores, transforms) in order, as text"""
    return [repr(o) for o in trace if o.kind not in ("CallBegin", "CallEnd")]


def second_call_summary(S, e):
    """The callable entry_summary() summarised, called AGAIN on the same object (closure state of the generator kept).
    Returns None when the second call performs exactly the effects of the first (then it computes the same function of the
    array contents), else the summary of a further call from arbitrary array contents."""
    k = (id(S), e.label())
    fn = _fn_cache.get(k)
    if fn is None or _cache[k][0] is None:
        return None
    sm, _, call_kwargs, extra = _cache[k]
    if k not in _second:
        tr2, pr2, raised2 = S.trace_call(fn, **call_kwargs)
        if raised2 is None and not pr2 and effect_signature(tr2) == effect_signature(sm.trace):
            _second[k] = None
        else:
            _second[k] = summarize_with_shortcuts(S, fn, call_kwargs, extra, tuple(e.expected()), e.label())
    return _second[k]


_second = {}
_CC.append(_second)
_CC.append(_fn_cache)


def entry_summary(S, e):
    """summary of one catalogue entry (cached per session)"""
    k = (id(S), e.label())
    if k in _cache:
        return _cache[k]
    gen_opts, call_kwargs, extra = e.build(S)
    raised = None
    fn = None
    try:
        fn = S.gen(e.gen, real_t=S.real_t, **gen_opts)
    except RaisedInAnalysed as ex:
        raised = ex
    if fn is None:
        res = (None, raised, call_kwargs, extra)
    else:
        sm = summarize_with_shortcuts(S, fn, call_kwargs, extra, tuple(e.expected()), e.label())
        res = (sm, None, call_kwargs, extra)
        _fn_cache[k] = fn
    _cache[k] = res
    return res


_trace_cache = {}
_CC.append(_trace_cache)


def entry_trace(S, e):
    """(trace, problems, raised) of one catalogue entry WITHOUT symbolic execution of the store (aliasing / effect rules)"""
    k = (id(S), e.label())
    if k not in _trace_cache:
        gen_opts, call_kwargs, extra = e.build(S)
        try:
            fn = S.gen(e.gen, real_t=S.real_t, **gen_opts)
            _trace_cache[k] = S.trace_call(fn, **call_kwargs)
        except RaisedInAnalysed as ex:
            _trace_cache[k] = ([], [], ex)
    return _trace_cache[k]


def filter_orders(tier, field_type="scalar"):
    """filter orders analysed per tier: the symbolic cost of the iterated stencil grows about 4x per order (the kernel's own loop
    `for _ in range(filter_order)` is unrolled); orders above the thorough bound are outside the analysed set (evidence says so)"""
    if tier == "quick":
        return (1, 2)
    return (1, 2, 3, 4) if field_type == "scalar" else (1, 2, 3)


def entry_by_label(label):
    for e in CATALOGUE:
        if e.label() == label:
            return e
    raise Unsupported("catalogue entry %s vanished" % label)


def short(e, n=400):
    s = repr(e)
    return s if len(s) <= n else s[:n] + "..."


def find_entry(gen, **opts):
    for e in CATALOGUE:
        if e.gen == gen and all(e.opts.get(k) == v for k, v in opts.items()):
            return e
    raise Unsupported("anchor vanished: no catalogue entry for %s %r" % (gen, opts))


def interiors(S, e):
    """deep-interior expression of every argument array of a catalogue entry"""
    sm, raised, _, _ = entry_summary(S, e)
    if sm is None or sm.raised is not None:
        raise Unsupported("cannot summarise %s: %s" % (e.label(), raised or sm.raised))
    if sm.unwritten:
        raise OutputNeverWritten(e.label(), sm.unwritten)
    return {n: sm.interior(n) for n in sm.final}, sm


def rename_fields(expr, mapping):
    """rename array base names: {'field': 'psi'} renames field and field[c]"""
    def f(a):
        if a[0] == "f":
            n = a[1]
            base, br, rest = n.partition("[")
            b2, dot, part = base.partition(".")
            if b2 in mapping:
                return ("f", mapping[b2] + dot + part + br + rest, a[2])
            if n in mapping:
                return ("f", mapping[n], a[2])
        return a
    return expr.map_atoms(f)


from ..pwtools import pw_equal
from ..regions import Box, lt


def pin_indices(expr, box):
    """on axes where the cell box is one cell wide the index is known: substitute it for @k and
    turn absolute offsets into relative ones (so both spellings of the same cell compare equal)"""
    from ..regions import concrete_extent
    from ..poly import Poly
    one = [k for k in range(box.rank) if concrete_extent(box.extent(k)) == 1]
    if not one or expr is None:
        return expr
    sub = {("s", "@%d" % k): box.iv[k][0].poly() for k in one}

    def f(a):
        if a[0] == "f":
            offs = list(a[2])
            ch = False
            for k in one:
                if k < len(offs) and isinstance(offs[k], tuple) and offs[k][0] == "a":
                    d = offs[k][1] - box.iv[k][0].poly()
                    if d.is_const():
                        offs[k] = int(d.const_value())
                        ch = True
            if ch:
                return ("f", a[1], tuple(offs))
        return a
    e = expr.map_atoms(f)
    if any(a in e.all_atoms() for a in sub):
        e = e.subs(sub)
    return e


def refine(cells, cuts):
    """split cells at the given per-axis cut bounds"""
    out = list(cells)
    for k, cs in enumerate(cuts):
        for c in cs:
            nxt = []
            for box, e in out:
                lo, hi = box.iv[k]
                if lt(lo, c) and lt(c, hi):
                    iv1, iv2 = list(box.iv), list(box.iv)
                    iv1[k] = (lo, c)
                    iv2[k] = (c, hi)
                    nxt.append((Box(iv1), e))
                    nxt.append((Box(iv2), e))
                else:
                    nxt.append((box, e))
            out = nxt
    return out




def match_spec(cells, fb, spec):
    """compare the disjoint cells of an array with a region spec; returns (bad_formula, bad_region)"""
    bad_region, bad_formula = None, None
    for box, got in refine(cells, spec.cuts(fb)):
        try:
            want = spec.expect(box, fb)
        except Straddle as ex:
            bad_region = "%s (%s)" % (ex, spec.describe())
            continue
        got, want = pin_indices(got, box), pin_indices(want, box)
        if got is None or not pw_equal(got, want):
            if isinstance(spec, IntRing) and not fb.shrink(spec.g).contains(box):
                bad_region = "ring cell %r holds %s, documented %s" % (box, short(got, 200), short(want, 200))
            elif isinstance(spec, Zones) and pw_equal(want, spec.fnc(tuple("mid" for _ in fb.iv), fb)):
                bad_region = "cell %r outside the zone is modified: %s" % (box, short(got, 200))
            else:
                bad_formula = "cell %r: got %s, documented %s" % (box, short(got, 300), short(want, 300))
    return bad_formula, bad_region


def memo_key_rule(S, rep, pid):
    """<pid>.memo: functools.cache / lru_cache look a call up by `==` and hash of its arguments.  Without typed=True,
    np.float32(x), np.float64(x), x and int(x) are one key whenever they compare equal, so a memoised function whose result
    depends on the TYPE of an argument (param.dtype, type(param), isinstance(param, ...)) returns what an earlier call with an
    equal argument of another precision computed: the result depends on the history of the process."""
    import ast
    seen = set()
    local = []
    for fn, typed, where in S.I.memoised:
        if id(fn) in seen:
            continue
        seen.add(id(fn))
        if "." in fn.qualname and fn.cls is None:
            # defined inside a function: the memo lives as long as that call's closure, not the process; whether two
            # equal arguments of different type can meet in it is not decided by this rule
            local.append(fn.qualname)
            continue
        a = fn.node.args
        params = {x.arg for x in a.posonlyargs + a.args + a.kwonlyargs}
        bad = []
        for n in ast.walk(fn.node):
            if isinstance(n, ast.Attribute) and n.attr in ("dtype", "itemsize", "nbytes", "__class__") and isinstance(n.value, ast.Name) and n.value.id in params:
                bad.append("%s.%s (line %d)" % (n.value.id, n.attr, n.lineno))
            if isinstance(n, ast.Call) and isinstance(n.func, ast.Name) and n.func.id in ("type", "isinstance") and n.args \
                    and isinstance(n.args[0], ast.Name) and n.args[0].id in params:
                bad.append("%s(%s, ...) (line %d)" % (n.func.id, n.args[0].id, n.lineno))
        ok = typed or not bad
        rep.ob(pid + ".memo", "%s memo key determines the result" % fn.qualname, ok,
               "memoised at %s without typed=True, yet the result depends on the type of an argument: %s; a call with an equal "
               "argument of another precision (np.float32(x) == np.float64(x) for every x single precision represents) gets the "
               "earlier call's result" % (where, ", ".join(sorted(set(bad)))) if not ok else "key (==/hash of the arguments%s) determines the result" % (", typed" if typed else ""),
               key="%s.memo|%s|%s" % (pid, fn.qualname, sorted(set(bad))), nontrivial=False)
    rep.note("memoised_functions", len(seen))
    if local:
        rep.note("memoised_local_functions_not_decided", sorted(local))
