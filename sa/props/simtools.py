"""Simulator-level helpers: build the simulators under a configuration, trace a time step and
fold it into stage definitions over the public arrays."""
from __future__ import annotations

import itertools

from ..driver import Session, run_store, written_allocs, read_allocs
from ..poly import PW, sym, const
from ..store import Store, ViewInfo, full_box, comp_rank
from ..values import Arr, DType, Inst, RaisedInAnalysed, Unsupported, simplify_scalar as simplify_scalar_

FLOW = "sopht.simulator.flow"

STAGE_FUNCS = ("_navier_stokes_time_step", "_navier_stokes_with_forcing_time_step", "time_step",
               "_advection_and_diffusion_time_step", "_flow_time_step")
PUBLIC_ATTRS = ("vorticity_field", "velocity_field", "eul_grid_forcing_field", "stream_func_field", "primary_field")


class SimRun:
    def __init__(self):
        self.cfg = None
        self.inst = None
        self.init_trace = []
        self.trace = []
        self.problems = []
        self.raised = None
        self.store = None
        self.public = {}

    def label(self):
        return ", ".join("%s=%s" % (k, v) for k, v in sorted(self.cfg.items()))


def sim_configs(kind, tier):
    """configurations the properties quantify over (finite)"""
    out = []
    if kind == "2d":
        widths = (0, 1, 2) if tier == "quick" else (0, 1, 2, 3, 4, 5, 6)
        for forcing, fs, w in itertools.product((False, True), (False, True), widths):
            out.append(dict(kind="2d", with_forcing=forcing, with_free_stream_flow=fs, penalty_zone_width=w))
    elif kind == "3d":
        if tier == "quick":
            widths = (0, 2)
            filters = [None, ("multiplicative", 2), ("convolution", 2)]   # order 2 runs the filter loop twice (order 1 is covered at kernel level)
            for forcing, fs in ((False, False), (True, True)):
                for w in widths:
                    for flt in filters:
                        for solver in ("greens_function_convolution", "fast_diagonalisation"):
                            if solver == "fast_diagonalisation" and (flt is not None or w != 2):
                                continue
                            out.append(dict(kind="3d", with_forcing=forcing, with_free_stream_flow=fs, penalty_zone_width=w,
                                            filter=flt, poisson_solver_type=solver))
        else:
            widths = (0, 1, 2, 3, 4, 5, 6)
            filters = [None] + [(t, o) for t in ("multiplicative", "convolution") for o in (1, 2, 3)]   # cost grows ~4x per order
            for forcing, fs, solver in itertools.product((False, True), (False, True),
                                                         ("greens_function_convolution", "fast_diagonalisation")):
                for w in widths:
                    for flt in filters:
                        # the full product is 2*2*2*7*11; widths and filters act on disjoint stages, so
                        # cover every width with no filter and every filter with the default width
                        if flt is not None and w != 2:
                            continue
                        out.append(dict(kind="3d", with_forcing=forcing, with_free_stream_flow=fs, penalty_zone_width=w,
                                        filter=flt, poisson_solver_type=solver))
    elif kind == "passive":
        out.append(dict(kind="passive", grid_dim=2, field_type="scalar"))
        out.append(dict(kind="passive", grid_dim=3, field_type="scalar"))
        out.append(dict(kind="passive", grid_dim=3, field_type="vector"))
    return out


def build_sim(S, cfg):
    mod = S.module(FLOW)
    kind = cfg["kind"]
    if kind == "2d":
        cls = mod.vars["UnboundedNavierStokesFlowSimulator2D"]
        kw = dict(grid_size=S.grid_shape(2), x_range=sym("x_range"), kinematic_viscosity=sym("nu"), real_t=S.real_t,
                  cfl=sym("cfl"), with_forcing=cfg["with_forcing"], with_free_stream_flow=cfg["with_free_stream_flow"],
                  flow_density=sym("rho"), penalty_zone_width=cfg["penalty_zone_width"], num_threads=sym("num_threads"), time=sym("t0"))
        dim = 2
    elif kind == "3d":
        cls = mod.vars["UnboundedNavierStokesFlowSimulator3D"]
        kw = dict(grid_size=S.grid_shape(3), x_range=sym("x_range"), kinematic_viscosity=sym("nu"), real_t=S.real_t,
                  cfl=sym("cfl"), with_forcing=cfg["with_forcing"], with_free_stream_flow=cfg["with_free_stream_flow"],
                  flow_density=sym("rho"), penalty_zone_width=cfg["penalty_zone_width"], num_threads=sym("num_threads"),
                  poisson_solver_type=cfg["poisson_solver_type"], time=sym("t0"))
        if cfg.get("filter") is not None:
            kw["filter_vorticity"] = True
            kw["filter_setting_dict"] = {"order": cfg["filter"][1], "type": cfg["filter"][0]}
        dim = 3
    else:
        cls = mod.vars["PassiveTransportFlowSimulator"]
        dim = cfg["grid_dim"]
        kw = dict(kinematic_viscosity=sym("nu"), grid_dim=dim, grid_size=S.grid_shape(dim), x_range=sym("x_range"),
                  cfl=sym("cfl"), real_t=S.real_t, num_threads=sym("num_threads"), field_type=cfg["field_type"], time=sym("t0"))
    n0 = len(S.I.trace)
    p0 = len(S.I.problems)
    run = SimRun()
    run.cfg = dict(cfg)
    run.dim = dim
    try:
        inst = S.I.call(cls, [], kw, None, mod)
    except RaisedInAnalysed as ex:
        run.raised = ex
        inst = None
    run.inst = inst
    run.init_trace = S.I.trace[n0:]
    run.problems = S.I.problems[p0:]
    if inst is not None:
        for a in PUBLIC_ATTRS:
            v = inst.attrs.get(a)
            if isinstance(v, Arr):
                run.public[v.alloc.id] = a
    return run


def trace_step(S, run, with_store=True):
    """trace time_step(dt[, free_stream_velocity]) of a built simulator"""
    inst = run.inst
    mod = S.module(FLOW)
    kw = dict(dt=sym("dt"))
    if run.cfg["kind"] in ("2d", "3d") and run.cfg.get("with_free_stream_flow"):
        fs = S.array("free_stream", (run.dim,), DType("float64"))
        kw["free_stream_velocity"] = fs
    n0 = len(S.I.trace)
    p0 = len(S.I.problems)
    try:
        S.I.call(S.I.get_attr(inst, "time_step", None, mod), [], kw, None, mod)
    except RaisedInAnalysed as ex:
        run.raised = ex
    run.trace = S.I.trace[n0:]
    run.problems = run.problems + S.I.problems[p0:]
    if run.raised is None and not run.problems:
        # cheap structural pre-check (no symbolic execution): a step that rewrites some components of a public vector field
        # rewrites all of them; a skipped component (and, typically, a sibling advanced twice) is reported here, before the
        # store would have to compose a stencil with itself
        from ..driver import skipped_components
        from ..values import Op
        for fnname, pname, wr, miss in skipped_components(run.trace):
            run.problems.append(Op("Problem", pkind="component-skipped", where=fnname, stack=(),
                                   msg="%s rewrites components %s of its vector argument %s but never component %s" % (fnname.split(".")[-1], wr, pname, miss)))
    if with_store and run.raised is None and not run.problems:
        try:
            havoc = written_allocs(run.trace) | set(run.public)
            run.store = run_store(run.trace, stage_funcs=STAGE_FUNCS, public=run.public, havoc=havoc)
        except RaisedInAnalysed as ex:
            run.raised = ex
    return run


_sim_cache = {}
from ..regions import CASE_CACHES as _CC
_CC.append(_sim_cache)


def stepped_sim(S, cfg, with_store=True):
    k = (id(S), repr(sorted(cfg.items())), with_store)
    if k not in _sim_cache:
        run = build_sim(S, cfg)
        if run.inst is not None and run.raised is None:
            trace_step(S, run, with_store)
        _sim_cache[k] = run
    return _sim_cache[k]


def array_attr_names(inst):
    """alloc id -> attribute names of the simulator (and of its solver objects)"""
    out = {}

    def walk(obj, prefix, seen):
        if id(obj) in seen:
            return
        seen.add(id(obj))
        for a, v in obj.attrs.items():
            if isinstance(v, Arr):
                out.setdefault(v.alloc.id, []).append(prefix + a)
            elif isinstance(v, Inst):
                walk(v, prefix + a + ".", seen)
    walk(inst, "", set())
    return out


def sim3d_monitor_facts(S):
    """C12: the divergence monitor binds the vorticity field and writes only scratch"""
    cfg = dict(kind="3d", with_forcing=False, with_free_stream_flow=False, penalty_zone_width=2, filter=None,
               poisson_solver_type="greens_function_convolution")
    run = build_sim(S, cfg)
    out = []
    if run.inst is None:
        out.append(("C12.monitor", "3D simulator", False, "constructor raises: %s" % run.raised, "C12.monitor|ctor"))
        return out
    mod = S.module(FLOW)
    n0 = len(S.I.trace)
    try:
        ret = S.I.call(S.I.get_attr(run.inst, "get_vorticity_divergence_l2_norm", None, mod), [], {}, None, mod)
    except RaisedInAnalysed as ex:
        out.append(("C12.monitor", "get_vorticity_divergence_l2_norm", False, "raises %s" % ex, "C12.monitor|raises"))
        return out
    tr = S.I.trace[n0:]
    names = array_attr_names(run.inst)
    vort = run.inst.attrs["vorticity_field"].alloc.id
    launches = [op for op in tr if op.kind == "Launch"]
    divl = [op for op in launches if any(len(a.expr.all_atoms()) > 3 for a in op.kernel.stencil.assigns)]
    ok = bool(divl)
    detail = ""
    for op in divl:
        for f, a in op.arrays.items():
            rd = f in {x for x, _ in op.kernel.stencil.accesses()}
            if rd and a.alloc.id != vort:
                ok = False
                detail = "divergence monitor reads %s instead of the vorticity field" % a.describe()
    out.append(("C12.monitor", "monitor input binding", ok, detail or "divergence kernel reads vorticity_field components x,y,z",
                "C12.monitor|binding|%s" % detail[:100]))
    # component pairing field_x <- vorticity[0] etc. is part of the divergence summary (C13); here: write set
    wr = written_allocs(tr)
    pub = set(run.public)
    bad = [names.get(i, ["?"])[0] for i in wr if i in pub]
    out.append(("C12.monitor", "monitor write set", not bad,
                "the monitor writes public state: %s" % bad if bad else "writes only scratch buffers",
                "C12.monitor|writes|%s" % ",".join(sorted(bad))))
    # the value returned is the norm of the divergence buffer the kernel wrote
    return out


# ---------------------------------------------------------------------------- parallel execution over configurations
import os
_PARENT_PID = [os.getpid()]


def _worker(args):
    modname, fname, repo, real_t, item, extra = args
    import importlib
    from ..driver import Session
    from ..report import Report
    from ..values import Unsupported
    mod = importlib.import_module(modname)
    from ..regions import Threshold, run_under_size_cases
    files, stencils = set(), set()

    def one(case):
        S = Session(repo, real_t)
        rep = Report("_", "other")
        getattr(mod, fname)(S, item, rep, *extra)
        files.update(S.I.files_read)
        stencils.update((sd.module, sd.lineno) for sd in S.I.stencils)
        return rep
    from .. import budget
    in_child = os.getpid() != _PARENT_PID[0]
    try:
        if in_child:
            budget.start_item()
        done = run_under_size_cases(one, getattr(mod, "CASE_SPLIT", False))
    except Unsupported as ex:
        return {"error": "%s (while analysing %r)" % (ex, item)}
    except MemoryError:
        return {"error": "memory budget of the analysis exceeded (while analysing %r)" % (item,)}
    finally:
        if in_child:
            budget.end_item()
    obligations, samples = [], []
    for case, rep in done:
        tag_case(rep.obligations, case)
        obligations.extend(rep.obligations)
        samples.extend(rep.samples)
    return {"obligations": obligations, "samples": samples, "files": sorted(files), "cases": [c.label() for c, _ in done if c.label()],
            "threshold": str(Threshold.value), "stencils": sorted(stencils)}


def tag_case(obligations, case):
    """obligations decided under a size-ordering case carry the case in their instance and key"""
    lab = case.label()
    if not lab:
        return
    for o in obligations:
        o["instance"] = "%s [case: %s]" % (o["instance"], lab)
        if "key" in o:
            o["key"] = "%s|case:%s" % (o["key"], lab)


def parallel_over(S, rep, modname, fname, items, extra=(), jobs=None):
    """run  <modname>.<fname>(S', item, rep', *extra)  for every item in forked worker processes and merge the
    obligations into rep (deterministic order).  Falls back to in-process execution for one item."""
    import os
    from concurrent.futures import ProcessPoolExecutor
    import multiprocessing as mp
    from ..values import Unsupported
    items = list(items)
    _PARENT_PID[0] = os.getpid()
    jobs = jobs or int(os.environ.get("VERIF_JOBS", "0") or 0) or min(16, os.cpu_count() or 1)
    args = [(modname, fname, S.repo, S.real_t.name, it, tuple(extra)) for it in items]
    if jobs <= 1 or len(items) <= 1:
        results = [_worker(a) for a in args]
    else:
        with ProcessPoolExecutor(max_workers=min(jobs, len(items)), mp_context=mp.get_context("fork")) as ex:
            results = list(ex.map(_worker, args))
    stencils = set()
    for it, r in zip(items, results):
        if "error" in r:
            raise Unsupported(r["error"])
        rep.obligations.extend(r["obligations"])
        for s in r["samples"]:
            if len(rep.samples) < 12:
                rep.samples.append(s)
        S.I.files_read.update(r["files"])
        stencils.update(tuple(x) for x in r["stencils"])
        if r.get("cases"):
            rep.analysed.setdefault("size_cases", [])
            for c in r["cases"]:
                if c not in rep.analysed["size_cases"]:
                    rep.analysed["size_cases"].append(c)
        from ..regions import Threshold
        from fractions import Fraction
        if Fraction(r["threshold"]) > Threshold.value:
            Threshold.value = Fraction(r["threshold"])
    return stencils
