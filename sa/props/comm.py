"""Abstract interpretation of the Eulerian-Lagrangian grid communicator kernels (shared by C06, C07)."""
from __future__ import annotations

from ..extlib import SumAll, arr_valfn
from ..poly import PW, Poly, const, sym, fld
from ..values import Arr, DType, Op, RaisedInAnalysed, Unsupported, simplify_scalar, to_pw

IBO = "sopht.numeric.immersed_boundary_ops"
WIDTH = 2


class Comm:
    """one communicator instance with its kernels interpreted on symbolic inputs"""

    def __init__(self, S, dim, kernel_type, n_components):
        self.S, self.dim, self.kernel_type, self.ncomp = S, dim, kernel_type, n_components
        I = S.I
        mod = S.module(IBO)
        cls = mod.vars.get("EulerianLagrangianGridCommunicator%dD" % dim)
        if cls is None:
            raise Unsupported("anchor vanished: EulerianLagrangianGridCommunicator%dD" % dim)
        self.N, self.dx, self.shift = sym("N"), sym("dx"), sym("shift")
        self.inst = I.call(cls, [], dict(dx=self.dx, eul_grid_coord_shift=self.shift, num_lag_nodes=self.N, interp_kernel_width=WIDTH,
                                         real_t=S.real_t, n_components=n_components, interp_kernel_type=kernel_type), None, mod)
        self.mod = mod

    def kernel(self, name):
        k = self.inst.attrs.get(name)
        if k is None:
            raise Unsupported("anchor vanished: communicator attribute %s" % name)
        return k

    def run(self, name, **kw):
        I = self.S.I
        I.inline_njit = True
        n0 = len(I.trace)
        try:
            I.call(self.kernel(name), [], kw, None, self.mod)
        finally:
            I.inline_njit = False
        return I.trace[n0:]


def elem_array(S, label, shape, dtype=None):
    from .c17 import sym_array
    return sym_array(S, label, shape, dtype)


def view_window(arr):
    """per grid axis (lo, hi) bounds of a view, and its fixed leading indices"""
    fixed, win = [], []
    for a in arr.axes:
        if a[0] == "i":
            fixed.append(simplify_scalar(a[1]))
        else:
            win.append((a[1], a[2]))
    return tuple(fixed), win


def product_factors(arr):
    """operands of the elementwise product that produced a derived array"""
    der = getattr(arr.alloc, "derivation", None)
    if der is None or der[0] != "mul":
        return None
    return der[1]


def transfer_records(comm):
    """normal forms of the two transfer kernels (one generic loop iteration each)"""
    S, dim, nc = comm.S, comm.dim, comm.ncomp
    N = comm.N
    w = WIDTH
    eul = S.vector_field("eul", dim) if nc > 1 else S.scalar_field("eul", dim)
    lag = S.array("lag", (nc, N)) if nc > 1 else S.array("lag", (N,))
    weights = S.array("weights", (2 * w,) * dim + (N,))
    nearest = S.array("nearest", (dim, N), DType("int64"))
    out = {"eul": eul, "lag": lag, "weights": weights, "nearest": nearest}
    # the property's markers are those whose support window lies inside the grid: w - 1 <= nearest[d, .] <= n_d - 1 - w.  A guard
    # of the analysed code that only fires outside this range is decided here; one that can fire inside it is analysed both ways
    import re
    sizes = ["nx", "ny", "nz"]

    def bounds(name, w=w):
        m = re.match(r"nearest\[(\d+),", name)
        if m is None:
            return None
        return const(w - 1), sym(sizes[int(m.group(1))]) - const(1 + w)
    S.I.elem_bounds = bounds
    try:
        return _transfer_records(comm, out, eul, lag, weights, nearest)
    finally:
        S.I.elem_bounds = None


def _transfer_records(comm, out, eul, lag, weights, nearest):
    S, dim, nc = comm.S, comm.dim, comm.ncomp
    tr = comm.run("eulerian_to_lagrangian_grid_interpolation_kernel", lag_grid_field=lag, eul_grid_field=eul, interp_weights=weights,
                  nearest_eul_grid_index_to_lag_grid=nearest)
    out["gather_loop"] = [op for op in tr if op.kind == "LoopBegin"]
    gathers = []
    for op in tr:
        if op.kind == "ElemAssign" and op.arr.alloc.id == lag.alloc.id:
            rec = {"index": tuple(simplify_scalar(i) for i in op.index), "aug": op.aug, "value": op.value}
            v = op.value
            if isinstance(v, SumAll):
                rec["factor"] = v.factor
                fs = product_factors(v.arr)
                rec["factors"] = fs
            gathers.append(rec)
        elif op.kind == "SliceAssign" and op.dst.alloc.id == lag.alloc.id:
            gathers.append({"index": None, "aug": op.aug, "value": op.src, "slice": op.dst})
    out["gathers"] = gathers
    tr = comm.run("lagrangian_to_eulerian_grid_interpolation_kernel", eul_grid_field=eul, lag_grid_field=lag, interp_weights=weights,
                  nearest_eul_grid_index_to_lag_grid=nearest)
    out["scatter_loop"] = [op for op in tr if op.kind == "LoopBegin"]
    scatters = []
    for op in tr:
        if op.kind == "SliceAssign" and op.dst.alloc.id == eul.alloc.id:
            scatters.append({"dst": op.dst, "aug": op.aug, "src": op.src, "factors": product_factors(op.src) if isinstance(op.src, Arr) else None})
        elif op.kind == "ElemAssign" and op.arr.alloc.id == eul.alloc.id:
            scatters.append({"dst": None, "aug": op.aug, "src": op.value})
    out["scatters"] = scatters
    out["other_writes"] = [op for op in tr if op.kind in ("SliceAssign", "ElemAssign") and
                           (op.dst.alloc.id if op.kind == "SliceAssign" else op.arr.alloc.id) in (weights.alloc.id, nearest.alloc.id, lag.alloc.id)]
    return out
