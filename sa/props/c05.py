"""C05: finite-difference operators are consistent with their continuous counterparts
(moment conditions of the extracted, wrapper-resolved stencils)."""
from __future__ import annotations

import itertools
from fractions import Fraction as Fr

from ..algtools import (apply_to_fields, at_origin, d_dx, generic_poly, launch_exprs, COORD)
from ..poly import PW, Cond, Poly, as_poly, const, sym
from ..pwtools import canon
from ..specs.ops import X, Y, Z, comp
from ..values import Unsupported
from .common import find_entry, interiors, short

H = Poly.sym("h")

CASE_SPLIT = True     # orderings between different grid sizes are analysed case by case (regions.run_under_size_cases)


def fields_for(names, dim, degree=2):
    return {n: generic_poly(n.replace("[", "_").replace("]", ""), dim, degree) for n in names}


def lap(p, dim):
    r = Poly()
    for a in range(dim):
        r = r + d_dx(d_dx(p, a), a)
    return r


def curl_c(F, a):
    b, c = (a + 1) % 3, (a + 2) % 3
    return d_dx(F[c], b) - d_dx(F[b], c)


def expect_eq(rep, rule, inst, got, want, doc):
    got = as_poly(got.leaf) if isinstance(got, PW) else as_poly(got)
    ok = (got - want).is_zero()
    rep.ob(rule, inst, ok, ("moment conditions fail: stencil gives %s, continuous operator (%s) gives %s; difference %s"
                            % (short(got, 300), doc, short(want, 300), short(got - want, 300))) if not ok else doc,
           key="%s|%s|%s" % (rule, inst, short(got - want, 160)),
           sample={"operator": inst, "continuous": doc, "test_space": "all polynomials of degree <= 2 with symbolic coefficients"})
    return ok


def run(S, tier, rep):
    rep.rule_text = ("every differential stencil (deep-interior resolved summary of the public kernel) applied to generic polynomials "
                     "of degree <= 2 with symbolic coefficients equals the documented continuous operator at the cell, as polynomials "
                     "in h, the prefactor and the coefficients; ENO3: per upwind-branch combination, cubic/quadratic exactness")
    rep.explanation = "translation invariance makes the origin cell representative of every interior cell; equality of normal forms over Q"
    rep.trusted_base = ["A1", "A2", "A7", "axis convention: x along the last array axis (checked against _init_domain under C05.axes)"]
    p = Poly.sym("prefactor")

    def I(gen, **opts):
        ex, sm = interiors(S, find_entry(gen, **opts))
        return ex

    # --- diffusion flux
    for dim in (2, 3):
        for reset in (True, False):
            ex = I("gen_diffusion_flux_pyst_kernel_%dd" % dim, reset_ghost_zone=reset, **({"field_type": "scalar"} if dim == 3 else {}))
            f = fields_for(["field"], dim)
            got = apply_to_fields(ex["diffusion_flux"], f, dim)
            expect_eq(rep, "C05.moment", "diffusion_flux_%dd reset=%s" % (dim, reset), got, p * H * H * at_origin(lap(f["field"], dim)),
                      "prefactor * h^2 * Laplacian(f)")
    ex = I("gen_diffusion_flux_pyst_kernel_3d", reset_ghost_zone=True, field_type="vector")
    for c in range(3):
        f = fields_for([comp("vector_field", c)], 3)
        got = apply_to_fields(ex[comp("vector_field_diffusion_flux", c)], f, 3)
        expect_eq(rep, "C05.moment", "vector diffusion_flux_3d component %d" % c, got,
                  p * H * H * at_origin(lap(f[comp("vector_field", c)], 3)), "prefactor * h^2 * Laplacian(f_c)")

    # --- 2D curls
    ex = I("gen_inplane_field_curl_pyst_kernel_2d")
    f = fields_for([comp("field", X), comp("field", Y)], 2)
    got = apply_to_fields(ex["curl"], f, 2)
    want = p * H.scale(2) * at_origin(d_dx(f[comp("field", Y)], X) - d_dx(f[comp("field", X)], Y))
    expect_eq(rep, "C05.moment", "inplane_field_curl_2d", got, want, "prefactor * 2h * (d_x f_y - d_y f_x)")
    for reset in (True, False):
        ex = I("gen_outplane_field_curl_pyst_kernel_2d", reset_ghost_zone=reset)
        f = fields_for(["field"], 2)
        expect_eq(rep, "C05.moment", "outplane_field_curl_2d x reset=%s" % reset, apply_to_fields(ex[comp("curl", X)], f, 2),
                  p * H.scale(2) * at_origin(d_dx(f["field"], Y)), "prefactor * 2h * d_y psi")
        expect_eq(rep, "C05.moment", "outplane_field_curl_2d y reset=%s" % reset, apply_to_fields(ex[comp("curl", Y)], f, 2),
                  -p * H.scale(2) * at_origin(d_dx(f["field"], X)), "-prefactor * 2h * d_x psi")

    # --- 3D curl, divergence
    for reset in (True, False):
        ex = I("gen_curl_pyst_kernel_3d", reset_ghost_zone=reset)
        names = [comp("field", c) for c in range(3)]
        f = fields_for(names, 3)
        F = [f[n] for n in names]
        for a in range(3):
            expect_eq(rep, "C05.moment", "curl_3d component %d reset=%s" % (a, reset), apply_to_fields(ex[comp("curl", a)], f, 3),
                      p * H.scale(2) * at_origin(curl_c(F, a)), "prefactor * 2h * (curl f)_%s" % "xyz"[a])
        ex = I("gen_divergence_pyst_kernel_3d", reset_ghost_zone=reset)
        dv = Poly()
        for a in range(3):
            dv = dv + d_dx(F[a], a)
        expect_eq(rep, "C05.moment", "divergence_3d reset=%s" % reset, apply_to_fields(ex["divergence"], f, 3),
                  Poly.sym("inv_dx") * H * at_origin(dv), "0.5 * inv_dx * 2h * div f")

    # --- vorticity updates
    ex = I("gen_update_vorticity_from_velocity_forcing_pyst_kernel_2d")
    f = fields_for(["vorticity_field", comp("velocity_forcing_field", X), comp("velocity_forcing_field", Y)], 2)
    want = at_origin(f["vorticity_field"]) + p * H.scale(2) * at_origin(
        d_dx(f[comp("velocity_forcing_field", Y)], X) - d_dx(f[comp("velocity_forcing_field", X)], Y))
    expect_eq(rep, "C05.moment", "update_vorticity_from_velocity_forcing_2d", apply_to_fields(ex["vorticity_field"], f, 2), want,
              "omega + prefactor * 2h * (curl F)_z")
    ex = I("gen_update_vorticity_from_penalised_velocity_pyst_kernel_2d")
    names = ["vorticity_field"] + [comp(n, c) for n in ("penalised_velocity_field", "velocity_field") for c in (X, Y)]
    f = fields_for(names, 2)
    dY = f[comp("penalised_velocity_field", Y)] - f[comp("velocity_field", Y)]
    dX = f[comp("penalised_velocity_field", X)] - f[comp("velocity_field", X)]
    want = at_origin(f["vorticity_field"]) + p * H.scale(2) * at_origin(d_dx(dY, X) - d_dx(dX, Y))
    expect_eq(rep, "C05.moment", "update_vorticity_from_penalised_velocity_2d", apply_to_fields(ex["vorticity_field"], f, 2), want,
              "omega + prefactor * 2h * curl(u_pen - u)_z")
    ex = I("gen_update_vorticity_from_velocity_forcing_pyst_kernel_3d")
    names = [comp("vorticity_field", c) for c in range(3)] + [comp("velocity_forcing_field", c) for c in range(3)]
    f = fields_for(names, 3)
    F = [f[comp("velocity_forcing_field", c)] for c in range(3)]
    for a in range(3):
        want = at_origin(f[comp("vorticity_field", a)]) + p * H.scale(2) * at_origin(curl_c(F, a))
        expect_eq(rep, "C05.moment", "update_vorticity_from_velocity_forcing_3d component %d" % a,
                  apply_to_fields(ex[comp("vorticity_field", a)], f, 3), want, "omega_a + prefactor * 2h * (curl F)_a")
    ex = I("gen_update_vorticity_from_penalised_velocity_pyst_kernel_3d")
    names = [comp(n, c) for n in ("vorticity_field", "penalised_velocity_field", "velocity_field") for c in range(3)]
    f = fields_for(names, 3)
    D = [f[comp("penalised_velocity_field", c)] - f[comp("velocity_field", c)] for c in range(3)]
    for a in range(3):
        want = at_origin(f[comp("vorticity_field", a)]) + p * H.scale(2) * at_origin(curl_c(D, a))
        expect_eq(rep, "C05.moment", "update_vorticity_from_penalised_velocity_3d component %d" % a,
                  apply_to_fields(ex[comp("vorticity_field", a)], f, 3), want, "omega_a + prefactor * 2h * curl(u_pen - u)_a")

    # --- vortex stretching flux
    ex = I("gen_vorticity_stretching_flux_pyst_kernel_3d")
    names = [comp(n, c) for n in ("vorticity_field", "velocity_field") for c in range(3)]
    f = fields_for(names, 3)
    for c in range(3):
        want = Poly()
        for a in range(3):
            want = want + at_origin(f[comp("vorticity_field", a)]) * at_origin(d_dx(f[comp("velocity_field", c)], a))
        expect_eq(rep, "C05.moment", "vorticity_stretching_flux_3d component %d" % c,
                  apply_to_fields(ex[comp("vorticity_stretching_flux_field", c)], f, 3), p * H.scale(2) * want,
                  "prefactor * 2h * (omega . grad) u_c")

    # --- 1-D filter Laplacians (the three stencils launched by the filter wrapper)
    e = find_entry("gen_laplacian_filter_kernel_3d", field_type="scalar", filter_type="convolution", filter_order=1)
    _, sm = interiors(S, e)
    seen_axes = []
    for op in sm.trace:
        if op.kind != "Launch" or op.kernel.stencil.reach() == 0:
            continue
        (out, expr), = launch_exprs(op)
        src = [a[1] for a in expr.all_atoms() if a[0] == "f"]
        f = fields_for(sorted(set(src)), 3)
        got = as_poly(apply_to_fields(expr, f, 3).leaf)
        hit = None
        for a in range(3):
            want = -(H * H).scale(Fr(1, 4)) * at_origin(d_dx(d_dx(f[src[0]], a), a))
            if (got - want).is_zero():
                hit = a
        rep.ob("C05.moment", "filter stencil %s" % op.kernel.stencil.name, hit is not None,
               "1-D filter stencil is not -(h^2/4) d^2/dx_a^2 for any axis: %s" % short(got) if hit is None else "-(h^2/4) * d^2 f / d%s^2" % "xyz"[hit],
               key="C05.moment|filter|%s|%s" % (op.kernel.stencil.name, short(got, 160)))
        if hit is not None:
            seen_axes.append(hit)
    rep.ob("C05.moment", "filter stencils cover x, y, z once each", sorted(seen_axes) == [0, 1, 2],
           "filter stencils act along axes %s" % seen_axes, key="C05.moment|filter-axes|%s" % seen_axes)

    # --- conservative ENO3
    for dim in (2, 3):
        eno3(S, rep, dim)

    # --- axis convention of the coordinate field
    from .simtools import build_sim
    for cfg in (dict(kind="2d", with_forcing=False, with_free_stream_flow=False, penalty_zone_width=2),
                dict(kind="3d", with_forcing=False, with_free_stream_flow=False, penalty_zone_width=2, filter=None,
                     poisson_solver_type="greens_function_convolution")):
        run_ = build_sim(S, cfg)
        dim = run_.dim
        pos = run_.inst.attrs.get("position_field") if run_.inst else None
        if pos is None or pos.alloc.valfn is None:
            rep.ob("C05.axes", "position_field %dD" % dim, False, "coordinate field has no closed form", key="C05.axes|%d|none" % dim)
            continue
        dx = sym("x_range") / sym("nx")
        for c in range(dim):
            idx = tuple([const(c)] + [sym("@%d" % k) for k in range(dim)])
            v = pos.alloc.valfn(idx)
            want = dx / 2 + sym("@%d" % (dim - 1 - c)) * dx
            ok = v == want
            rep.ob("C05.axes", "position_field[%d] %dD" % (c, dim), ok,
                   "coordinate %s is %s, expected the cell-centre grid dx/2 + i*dx along array axis %d" % ("xyz"[c], short(v), dim - 1 - c) if not ok
                   else "x_%s = dx/2 + i*dx varies only along array axis %d" % ("xyz"[c], dim - 1 - c),
                   key="C05.axes|%d|%d|%s" % (dim, c, short(v, 120)))
    # "every differential operator offered on the grid ... with the documented ... convention": the moment conditions above are
    # statements about the deep-interior stencil; the operator as offered also has a region (interior, ghost ring reset) and must
    # leave its operand alone.  Decided by the catalogue rule of C13 for the operators covered here.
    from ..report import Report
    from .c13 import check_entry
    from .common import CATALOGUE
    used = ("gen_diffusion_flux_pyst_kernel_2d", "gen_diffusion_flux_pyst_kernel_3d", "gen_curl_pyst_kernel_3d", "gen_divergence_pyst_kernel_3d",
            "gen_inplane_field_curl_pyst_kernel_2d", "gen_outplane_field_curl_pyst_kernel_2d", "gen_vorticity_stretching_flux_pyst_kernel_3d",
            "gen_update_vorticity_from_velocity_forcing_pyst_kernel_2d", "gen_update_vorticity_from_velocity_forcing_pyst_kernel_3d",
            "gen_update_vorticity_from_penalised_velocity_pyst_kernel_2d", "gen_update_vorticity_from_penalised_velocity_pyst_kernel_3d",
            "gen_advection_flux_conservative_eno3_pyst_kernel_2d", "gen_advection_flux_conservative_eno3_pyst_kernel_3d")
    tmp = Report("C05", "other")
    for e in CATALOGUE:
        if e.gen in used:
            check_entry(S, e, tmp, pid="C05", rules=("a", "b", "c"))
    for o in tmp.obligations:
        o = dict(o, rule="C05.offered", nontrivial=False)
        if "key" in o:
            o["key"] = "C05.offered|" + o["key"]
        rep.obligations.append(o)
    rep.require_min("C05.offered", 40)
    rep.require_min("C05.moment", 35)
    rep.require_min("C05.eno3", 20)
    rep.require_min("C05.axes", 5)


def eno3(S, rep, dim):
    from ..specs.ops import unit
    ex, sm = interiors(S, find_entry("gen_advection_flux_conservative_eno3_pyst_kernel_%dd" % dim))
    e = ex["advection_flux"]
    inv = Poly.sym("inv_dx")
    # pairing rule: every product term pairs `field` and one velocity component at the same offset
    bad_pair = None
    for path, leaf in canon(e).leaves():
        for m, c in leaf.num.t.items():
            fa = [a for a, _ in m if a[0] == "f" and a[1] == "field"]
            va = [a for a, _ in m if a[0] == "f" and a[1].startswith("velocity[")]
            if fa or va:
                if len(fa) != 1 or len(va) != 1 or fa[0][2] != va[0][2]:
                    bad_pair = m
    rep.ob("C05.eno3", "%dD nodal-flux pairing" % dim, bad_pair is None,
           "a flux term does not pair field and velocity at one offset: %r" % (bad_pair,) if bad_pair else "every term is field*velocity_a at one offset",
           key="C05.eno3|pairing|%d|%r" % (dim, bad_pair))
    if bad_pair is not None:
        return
    tree = canon(e)
    n_leaves = 0
    for path, leaf in tree.leaves():
        n_leaves += 1
        # which axes have both faces in the same upwind branch on this leaf?
        same = []
        for a in range(dim):
            v = comp("velocity", a)
            fr = bk = None
            for cond, val in path:
                ats = sorted(at_[2] for at_ in cond.p.atoms() if at_[0] == "f" and at_[1] == v)
                if not ats:
                    continue
                if ats == sorted([unit(a, dim, 0), unit(a, dim, 1)]):
                    fr = val if cond.op in (">", ">=") else not val
                elif ats == sorted([unit(a, dim, -1), unit(a, dim, 0)]):
                    bk = val if cond.op in (">", ">=") else not val
            if fr is None or bk is None:
                rep.ob("C05.eno3", "%dD leaf structure" % dim, False, "cannot identify the upwind switches of axis %d on a leaf" % a,
                       key="C05.eno3|switch|%d|%d" % (dim, a))
                return
            if fr == bk:
                same.append(a)
        # nodal flux g_a = field * velocity_a: test with velocity_a == 1 and field == G
        G = generic_poly("G", dim, 2, extra_cubic_axes=same)
        one = {comp("velocity", a): Poly.const(1) for a in range(dim)}
        flds = dict(one)
        flds["field"] = G
        flds["advection_flux"] = Poly()
        got = as_poly(apply_to_fields(PW.of(leaf), flds, dim).leaf)
        want = Poly()
        for a in range(dim):
            want = want + at_origin(d_dx(G, a))
        want = inv * H * want
        ok = (got - want).is_zero()
        rep.ob("C05.eno3", "%dD leaf %s" % (dim, "".join("T" if v else "F" for _, v in path)), ok,
               "flux difference is not h * d(g)/dx on this branch combination (cubic along axes %s, quadratic otherwise): residual %s" % (
                   same, short(got - want)) if not ok else "exact for cubics along axes %s, quadratics otherwise" % same,
               key="C05.eno3|leaf|%d|%s|%s" % (dim, "".join("T" if v else "F" for _, v in path), short(got - want, 120)),
               sample={"dim": dim, "branch_pattern": [bool(v) for _, v in path], "cubic_exact_axes": same})
    rep.ob("C05.eno3", "%dD number of branch combinations" % dim, n_leaves == 4 ** dim,
           "%d leaves, expected %d" % (n_leaves, 4 ** dim), key="C05.eno3|leaves|%d|%d" % (dim, n_leaves))
