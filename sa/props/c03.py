"""C03: unbounded Poisson solve equals the free-space Green's-function convolution."""
from __future__ import annotations

from fractions import Fraction as Fr

from ..algtools import _simultaneous_subs
from ..driver import run_store, written_allocs
from ..poly import PW, Cond, Poly, Rat, as_poly, const, fld, fn, sym, PI
from ..pwtools import canon, pw_equal
from ..regions import Box, bound
from ..store import roots_of, full_box
from ..values import Arr, DType, FFTPlan, Inst, RaisedInAnalysed, Unsupported, simplify_scalar, to_pw
from .common import short
from .poisson import greens_chain, single_atom

SPNE = "sopht.numeric.eulerian_grid_ops"
SIZES = {2: ("ny", "nx"), 3: ("nz", "ny", "nx")}

CASE_SPLIT = True     # orderings between different grid sizes are analysed case by case (regions.run_under_size_cases)


def build(S, dim):
    mod = S.module(SPNE)
    cls = mod.vars.get("UnboundedPoissonSolverPYFFTW%dD" % dim)
    if cls is None:
        raise Unsupported("anchor vanished: UnboundedPoissonSolverPYFFTW%dD" % dim)
    kw = {"grid_size_%s" % n[1]: sym(n) for n in SIZES[dim]}
    n0 = len(S.I.trace)
    inst = S.I.call(cls, [], dict(x_range=sym("x_range"), real_t=S.real_t, num_threads=sym("num_threads"), **kw), None, mod)
    return inst, S.I.trace[n0:]


def documented_greens(dim, idx):
    """-ln r / (2 pi) resp. 1 / (4 pi r) at the even-reflected cell separation r"""
    dx = sym("x_range") / sym("nx")
    r2 = const(0)
    for k in range(dim):
        n = sym(SIZES[dim][k])
        g = idx[k] * dx
        far = (const(2) * n - idx[k]) * dx
        d = PW.ite(Cond((g - far).leaf, "<"), g, far)
        r2 = r2 + d * d
    r = fn("sqrt", r2)
    if dim == 2:
        return -fn("log", r) / (const(2) * PW.of(PI))
    return const(1) / (const(4) * PW.of(PI) * r)


def self_cell(dim):
    dx = sym("x_range") / sym("nx")
    if dim == 2:
        # mean of -ln r / (2 pi) over the disc of area dx^2 (radius dx / sqrt(pi))
        return -(const(2) * fn("log", dx / fn("sqrt", PW.of(PI))) - const(1)) / (const(4) * PW.of(PI))
    return const(1) / (const(4) * PW.of(PI) * dx)


def isotropic(got, dim):
    """the sampled kernel is invariant under every permutation of (axis index, axis size) pairs (used by C03 and C14)"""
    import itertools
    for perm in itertools.permutations(range(dim)):
        sub = {}
        for k in range(dim):
            sub[("f", "i%d" % k, ())] = Poly.atom(("f", "i%d" % perm[k], ()))
            sub[("s", SIZES[dim][k])] = Poly.sym(SIZES[dim][perm[k]])
        # dx is the common spacing: express x_range/nx as a symbol first
        e = got.subs({("s", "x_range"): Poly.sym("dx") * Poly.sym("nx")})
        e2 = _simultaneous_subs(e, sub)
        if not pw_equal(e, e2):
            return False
    return True


def sampled_kernel(S, dim):
    """closed form of the array whose transform the unbounded solver stores at construction, at generic index (i0, i1[, i2])"""
    inst, init_tr = build(S, dim)
    ffts = [op for op in init_tr if op.kind == "FFT"]
    if len(ffts) != 1 or ffts[0].inp.alloc.valfn is None:
        return None
    return ffts[0].inp.alloc.valfn(tuple(fld("i%d" % k, ()) for k in range(dim)))


INSTANCE_SIZES = {2: [(7, 9), (9, 7)], 3: [(6, 7, 9), (9, 6, 7)]}


def near_field_instances(S, rep, dim, generic_ok):
    """the sampled kernel on concrete grid sizes, entry by entry around the origin and around the mirror planes: every entry equals
    the documented value, and no branch of the sampling code is decided there by comparing two quantities that are equal in exact
    arithmetic (in floating point such a tie goes either way: a guard `r < dx` overwrites a nearest-neighbour entry whenever the
    rounded step is one ulp short of the rounded dx).  With concrete sizes and indices every condition is a comparison of numbers
    times powers of x_range, hence decided."""
    import itertools
    from .. import poly as _poly
    from ..driver import Session
    from ..regions import Bd, SizeCase, set_case, CURRENT_CASE
    lab = "%dD" % dim
    saved = CURRENT_CASE[0]
    bad, ties, n_eval = [], [], 0
    try:
        for sizes in INSTANCE_SIZES[dim]:
            set_case(SizeCase(subs=tuple((nm, Bd(v)) for nm, v in zip(SIZES[dim], sizes))))
            S2 = Session(S.repo, S.real_t.name)
            inst, init_tr = build(S2, dim)
            ffts = [op for op in init_tr if op.kind == "FFT"]
            if len(ffts) != 1 or ffts[0].inp.alloc.valfn is None:
                raise Unsupported("instance %s: the sampled kernel has no closed form" % (sizes,))
            vf = ffts[0].inp.alloc.valfn
            axes = []
            for n in sizes:
                axes.append([0, 1, 2, n - 1, n, n + 1, 2 * n - 2, 2 * n - 1])
            for idx in itertools.product(*axes):
                if not any(idx):
                    continue
                _poly.TIE_LOG = []
                try:
                    val = vf(tuple(const(k) for k in idx))
                    logged = list(_poly.TIE_LOG)
                finally:
                    _poly.TIE_LOG = None
                want_v = documented_greens(dim, tuple(const(k) for k in idx))
                n_eval += 1
                if not pw_equal(PW.of(val), want_v):
                    bad.append("sizes %s entry %s: %s, documented %s" % (sizes, idx, short(val, 100), short(want_v, 100)))
                if logged:
                    ties.append("sizes %s entry %s" % (sizes, idx))
    finally:
        set_case(saved)
    rep.ob("C03.c", lab + " kernel entries on concrete grids", not bad, "; ".join(bad[:3]) if bad else "%d entries around the origin and the mirror planes" % n_eval,
           key="C03.c|%s|entries|%s" % (lab, bad[:1]))
    rep.ob("C03.c", lab + " kernel entries do not hinge on a floating-point tie", not ties,
           "the sampling code compares two quantities that are equal in exact arithmetic at %s: the entry depends on rounding" % "; ".join(ties[:3]) if ties
           else "no comparison of equal quantities in %d entries" % n_eval, key="C03.c|%s|ties|%s" % (lab, ties[:1]), nontrivial=False)
    if not generic_ok and not bad and not ties:
        raise Unsupported("%s: the sampled kernel could not be compared with the documented one for symbolic sizes (index-dependent guard?), "
                          "although all %d entries on concrete grids agree" % (lab, n_eval))
    return bad


def check_dim(S, rep, dim):
    lab = "%dD" % dim
    try:
        inst, init_tr = build(S, dim)
    except RaisedInAnalysed as ex:
        rep.ob("C03.b", lab, False, "constructor raises %s" % ex, key="C03.b|%s|ctor" % lab)
        return
    sizes = [sym(n) for n in SIZES[dim]]
    # ---- (b) FFT buffers are exactly twice the grid in the array's axis order, full transforms
    plans = [v for v in inst.attrs.values() if isinstance(v, FFTPlan)]
    fwd = next((p for p in plans if p.direction == "FFTW_FORWARD"), None)
    bwd = next((p for p in plans if p.direction == "FFTW_BACKWARD"), None)
    if fwd is None or bwd is None:
        raise Unsupported("cannot find the forward/backward FFT plans of the solver")
    want_real = tuple(const(2) * n for n in sizes)
    got = tuple(to_pw(s) for s in fwd.in_arr.shape)
    rep.ob("C03.b", lab + " doubled real buffer", len(got) == dim and all(a == b for a, b in zip(got, want_real)),
           "forward FFT input has shape %s, documented %s" % (fwd.in_arr.shape, tuple(want_real)), key="C03.b|%s|realshape|%s" % (lab, fwd.in_arr.shape),
           sample={"dim": dim, "real_buffer": str(fwd.in_arr.shape), "fourier_buffer": str(fwd.out_arr.shape)})
    want_four = tuple(want_real[:-1]) + (sizes[-1] + 1,)
    gotf = tuple(to_pw(s) for s in fwd.out_arr.shape)
    rep.ob("C03.b", lab + " half-spectrum buffer", len(gotf) == dim and all(a == b for a, b in zip(gotf, want_four)),
           "forward FFT output has shape %s" % (fwd.out_arr.shape,), key="C03.b|%s|fourshape|%s" % (lab, fwd.out_arr.shape), nontrivial=False)
    for p in (fwd, bwd):
        axes = p.kw.get("axes")
        rep.ob("C03.b", "%s %s transforms every axis" % (lab, p.direction), tuple(axes or ()) == tuple(range(dim)), "axes=%r" % (axes,),
               key="C03.b|%s|axes|%s|%r" % (lab, p.direction, axes), nontrivial=False)
    rep.ob("C03.b", lab + " plans are an inverse pair on the same buffers", fwd.in_arr.same_cells(bwd.out_arr) and fwd.out_arr.same_cells(bwd.in_arr),
           "forward %s -> %s, backward %s -> %s" % (fwd.in_arr.describe(), fwd.out_arr.describe(), bwd.in_arr.describe(), bwd.out_arr.describe()),
           key="C03.b|%s|pair" % lab, nontrivial=False)
    # ---- (c) the kernel that is transformed at construction time
    ffts = [op for op in init_tr if op.kind == "FFT"]
    if len(ffts) != 1:
        rep.ob("C03.c", lab + " kernel transform", False, "%d FFTs at construction" % len(ffts), key="C03.c|%s|nfft" % lab)
        return
    g = ffts[0].inp
    vf = g.alloc.valfn
    if vf is None:
        rep.ob("C03.c", lab + " Green's function closed form", False, "the sampled kernel has no closed form", key="C03.c|%s|noform" % lab)
        return
    idx = tuple(fld("i%d" % k, ()) for k in range(dim))
    got = vf(idx)
    want = documented_greens(dim, idx)
    ok = pw_equal(got, want)
    entries_bad = near_field_instances(S, rep, dim, generic_ok=ok)
    if ok or entries_bad:
        # (when the symbolic comparison fails only because of a guard it cannot resolve on the integer lattice, and every concrete
        # entry agrees, the symbolic obligation is not decided: the tie rule above carries the verdict)
        rep.ob("C03.c", lab + " Green's function at cell separations", ok,
               "sampled kernel is %s; documented %s of the even-reflected separation" % (short(got, 300), "-ln(r)/(2 pi)" if dim == 2 else "1/(4 pi r)") if not ok
               else "-ln(r)/(2 pi)" if dim == 2 else "1/(4 pi r)", key="C03.c|%s|kernel|%s" % (lab, short(got, 100)),
               sample={"dim": dim, "kernel": short(got, 200)})
    z = tuple(const(0) for _ in range(dim))
    got0 = vf(z)
    ok0 = pw_equal(PW.of(got0), self_cell(dim))
    rep.ob("C03.c", lab + " self-cell regularisation", ok0, "self-cell entry is %r, documented %r" % (got0, self_cell(dim)),
           key="C03.c|%s|selfcell|%s" % (lab, short(got0, 80)))
    rep.ob("C03.c", lab + " kernel shape is the doubled grid", all(to_pw(a) == b for a, b in zip(g.shape, want_real)), "kernel array shape %s" % (g.shape,),
           key="C03.c|%s|kshape|%s" % (lab, g.shape), nontrivial=False)
    rep.ob("C03.c", lab + " kernel transformed into the spectral buffer", ffts[0].out.same_cells(fwd.out_arr), "output %s" % ffts[0].out.describe(),
           key="C03.c|%s|kout" % lab, nontrivial=False)
    from .. import poly as _poly
    iso = True if _poly.SYM_SUBS else isotropic(got, dim)     # the relabelling rule is decided in the generic-size run only
    rep.ob("C03.iso", lab + " kernel is symmetric under relabelling the axes", iso, "the sampled kernel treats the axes differently", key="C03.iso|%s" % lab)
    # the scaled spectral kernel: fresh array = spectral buffer * dx^dim, not an alias of a work buffer
    name = "fourier_greens_function_times_dx_%s" % ("squared" if dim == 2 else "cubed")
    gk = inst.attrs.get(name)
    if gk is None:
        cands = [v for k, v in inst.attrs.items() if isinstance(v, Arr) and getattr(v.alloc, "derivation", None) and v.alloc.derivation[0] == "mul"]
        gk = cands[0] if len(cands) == 1 else None
    if gk is None:
        raise Unsupported("cannot find the scaled spectral kernel attribute")
    der = getattr(gk.alloc, "derivation", None)
    okd = der is not None and der[0] == "mul" and any(isinstance(x, Arr) and x.same_cells(fwd.out_arr) for x in der[1])
    fac = [x for x in der[1] if not isinstance(x, Arr)] if okd else []
    dx = sym("x_range") / sym("nx")
    okf = okd and len(fac) == 1 and to_pw(fac[0]) == dx ** dim
    rep.ob("C03.c", lab + " cell-volume factor dx^%d on the spectral kernel" % dim, okf, "scaled kernel is derived as %s" % (der and (der[0], [getattr(x, "describe", lambda: x)() if isinstance(x, Arr) else x for x in der[1]]),),
           key="C03.c|%s|scale|%s" % (lab, fac))
    work = {fwd.in_arr.alloc.id, fwd.out_arr.alloc.id, inst.attrs["convolution_buffer"].alloc.id if "convolution_buffer" in inst.attrs else -1}
    rep.ob("C03.a", lab + " spectral kernel is its own array", gk.alloc.id not in work, "the spectral kernel aliases a work buffer", key="C03.a|%s|alias" % lab)
    # ---- solve(): chain and history independence
    mod = S.module(SPNE)
    rhs = S.scalar_field("rhs", dim)
    sol = S.scalar_field("sol", dim)
    n0 = len(S.I.trace)
    try:
        S.I.call(S.I.get_attr(inst, "solve", None, mod), [], dict(solution_field=sol, rhs_field=rhs), None, mod)
    except RaisedInAnalysed as ex:
        rep.ob("C03.a", lab + " solve", False, "solve raises %s" % ex, key="C03.a|%s|solve-raises" % lab)
        return
    tr = S.I.trace[n0:]
    st = run_store(tr, havoc=written_allocs(tr) | {rhs.alloc.id, sol.alloc.id})
    key = st.key(sol.alloc, (), None)
    pieces = st.pieces(key)
    ch = greens_chain(st, pieces[0].expr if len(pieces) == 1 else None, dim) if len(pieces) == 1 else None
    okc = ch is not None and ch.ok and ch.source == "rhs"
    rep.ob("C03.a", lab + " solve = copy-out(irfft(rfft(pad(rhs)) * G))", okc, (ch.why if ch is not None else "solution written piecewise") or "source %s" % (ch and ch.source),
           key="C03.a|%s|chain|%s" % (lab, (ch.why if ch is not None else "")[:100]), sample={"dim": dim, "chain": "pad -> rfft -> product -> irfft -> corner copy"})
    if okc:
        corner = Box([(0, bound(n)) for n in sizes])
        rep.ob("C03.b", lab + " copy-in corner is the grid box", ch.box == corner, "copy-in box %r, grid box %r" % (ch.box, corner), key="C03.b|%s|corner|%r" % (lab, ch.box))
        gnames = {n.rsplit(".", 1)[0] for n in ch.greens}
        rep.ob("C03.a", lab + " product uses the precomputed spectral kernel", gnames == {gk.alloc.label.split(".")[-1]},
               "spectral product uses %s" % sorted(gnames), key="C03.a|%s|gk|%s" % (lab, sorted(gnames)))
    roots = roots_of(st, [p.expr for p in pieces])
    stale = sorted(r for r in roots if r != "rhs" and st.defs.get(r, {}).get("alloc") is not None and st.defs[r]["alloc"].id in written_allocs(tr))
    rep.ob("C03.a", lab + " independent of earlier solves", not stale, "the solution depends on prior buffer contents: %s" % stale if stale else "roots: %s" % sorted(roots),
           key="C03.a|%s|stale|%s" % (lab, stale))
    rep.ob("C03.a", lab + " solve leaves the right-hand side and the spectral kernel untouched",
           rhs.alloc.id not in written_allocs(tr) and gk.alloc.id not in written_allocs(tr), "solve writes its inputs", key="C03.a|%s|inputs" % lab, nontrivial=False)
    # ---- (d) vector solve = three scalar solves, component i -> i
    if dim == 3:
        rv, sv = S.vector_field("rhsv", 3), S.vector_field("solv", 3)
        n0 = len(S.I.trace)
        S.I.call(S.I.get_attr(inst, "vector_field_solve", None, mod), [], dict(solution_vector_field=sv, rhs_vector_field=rv), None, mod)
        tr = S.I.trace[n0:]
        st = run_store(tr, havoc=written_allocs(tr) | {rv.alloc.id, sv.alloc.id})
        for c in range(3):
            key = st.key(sv.alloc, (c,), None)
            pieces = st.pieces(key)
            ch = greens_chain(st, pieces[0].expr, 3) if len(pieces) == 1 else None
            ok = ch is not None and ch.ok and ch.source == "rhsv[%d]" % c
            rep.ob("C03.d", "3D vector solve component %d" % c, ok, (ch.why if ch is not None and not ch.ok else "component %d is solved from %s" % (c, ch and ch.source)),
                   key="C03.d|%d|%s" % (c, ch.source if ch is not None else None))


def run(S, tier, rep):
    rep.rule_text = ("the solver classes are instantiated abstractly with symbolic grid sizes; the closed form of the sampled kernel is read "
                     "from the numpy expression that builds it (meshgrid / minimum / sqrt / log with exact log, power and radical rules) and "
                     "compared with the documented Green's function; the solve trace is folded by the symbolic store and recognised as "
                     "pad -> forward FFT -> product with the precomputed kernel -> backward FFT -> corner copy; dependence roots give "
                     "history independence; plan shapes give the doubling")
    rep.explanation = ("with these structural facts the result is the aperiodic convolution by the convolution theorem (A5): linear, free of "
                       "periodic images, symmetric, independent of earlier solves; rounding behaviour is not analysed (remainder)")
    for dim in (2, 3):
        check_dim(S, rep, dim)
    from .common import memo_key_rule
    memo_key_rule(S, rep, "C03")
    rep.require_min("C03.a", 8)
    rep.require_min("C03.b", 10)
    rep.require_min("C03.c", 10)
    rep.require_min("C03.d", 3)
