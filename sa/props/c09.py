"""C09: marker kinematics are the rigid-section kinematics of the body."""
from __future__ import annotations

import ast
import os
from fractions import Fraction as Fr

from .. import ptw
from ..gridinterp import pad
from ..poly import PW, const, sym
from ..ptw import A, LAB, MAT, Seg, named, scalar
from ..values import Unsupported
from .gridcases import (CASES, analysed, body_omega_lab, diff_text, equal, pieces, rod_centre, rod_elem_velocity, rod_omega_lab, trunc)


def check_case(S, rep, relfile, cls, dim):
    lab = "%s %dD" % (cls, dim)
    g = analysed(S.repo, relfile, cls, dim)
    for e in g.pos_errors + g.vel_errors:
        rep.ob("C09.a", lab + " frame typing", False, e, key="C09.a|%s|frame|%s" % (cls, e.split(": ", 1)[-1][:80]))
    if not (g.pos_errors + g.vel_errors):
        rep.ob("C09.a", lab + " frame typing", True, "every cross product, sum and rotation combines vectors of one frame", key="C09.a|%s|frame" % cls)
    pos, vel = g.kin["position_field"], g.kin["velocity_field"]
    # ---- documented positions
    if g.is_rod:
        centre = rod_centre()
        v_c = rod_elem_velocity()
        om = rod_omega_lab()
        if "Nodal" in cls:
            want_pos = [("all markers", trunc(named("n:X", (3,), "node", LAB), dim))]
            want_vel = [("all markers", trunc(named("n:V", (3,), "node", LAB), dim))]
            centre_of = None
        elif "ElementCentric" in cls:
            want_pos = [("all markers", trunc(centre, dim))]
            want_vel = [("all markers", trunc(v_c, dim))]
            centre_of = centre
        elif "Edge" in cls:
            z = A((3,), {(0,): const(0), (1,): const(0), (2,): const(1)}, "elem", LAB)
            arm = ptw.mul(ptw.cross(z, named("e:t", (3,), "elem", LAB)), named("e:r", (), "elem"))
            want_pos = [("segment 0", trunc(centre, 2)), ("segment 1", trunc(ptw.add(centre, arm), 2)), ("segment 2", trunc(ptw.add(centre, arm, -1), 2))]
            want_vel = None
            centre_of = centre
        else:
            Q = named("e:Q", (3, 3), "elem", None, "Q")
            loc = named("m:loc", (3,), "marker", MAT)
            arm = ptw.mul(ptw.mul(named("e:r", (), "elem"), named("m:rho", (), "marker")), ptw.matvec(ptw.transpose(Q), loc))
            want_pos = [("all markers", ptw.add(centre, arm))]
            want_vel = None
            centre_of = centre
        body_v, body_om, centre_v = v_c, om, centre
    else:
        X, V = named("b:X", (3,), None, LAB), named("b:V", (3,), None, LAB)
        Q = named("b:Q", (3, 3), None, None, "Q")
        om = body_omega_lab()
        if "Sphere" in cls:
            want_pos = [("all markers", ptw.add(X, named("m:glob", (3,), "marker", LAB)))]
        elif dim == 2:
            Q2 = A((2, 2), {(i, j): Q.comps[(i, j)] for i in range(2) for j in range(2)}, None, None, "Q")
            want_pos = [("all markers", ptw.add(trunc(X, 2), ptw.matvec(ptw.transpose(Q2), named("m:loc", (2,), "marker", MAT))))]
            # planar body: d3 along z, lab angular velocity = Q22 * omega_3 about z
            om = A((3,), {(0,): const(0), (1,): const(0), (2,): Q.comps[(2, 2)] * sym("b:w[2]")}, None, LAB)
        else:
            want_pos = [("all markers", ptw.add(X, ptw.matvec(ptw.transpose(Q), named("m:loc", (3,), "marker", MAT))))]
        want_vel = None
        body_v, body_om, centre_v = V, om, X
        centre_of = X
    got_pos = pieces(pos)
    if [l for l, _ in got_pos] != [l for l, _ in want_pos]:
        rep.ob("C09.a", lab + " marker layout", False, "positions are given for %s, documented %s" % ([l for l, _ in got_pos], [l for l, _ in want_pos]),
               key="C09.a|%s|layout" % cls)
        return
    for (l, gp), (_, wp) in zip(got_pos, want_pos):
        ok = equal(gp, wp)
        rep.ob("C09.a", "%s position of %s" % (lab, l), ok, diff_text(gp, wp) or "centre + Q^T (local offset) * radius" if g.is_rod or "Sphere" not in cls else "centre + fixed lab offset",
               key="C09.a|%s|%d|pos|%s|%s" % (cls, dim, l, diff_text(gp, wp)[:80]), sample={"grid": lab, "markers": l, "position_x": str(gp.comps[(0,)])[:160]})
    # ---- velocities: v = v_centre + Omega_lab x (x_marker - X_centre), with the code's own marker positions
    got_vel = pieces(vel)
    if [l for l, _ in got_vel] != [l for l, _ in got_pos]:
        rep.ob("C09.a", lab + " velocity layout", False, "velocities are given for %s" % [l for l, _ in got_vel], key="C09.a|%s|vlayout" % cls)
        return
    for (l, gv), (_, gp) in zip(got_vel, got_pos):
        if want_vel is not None:
            wv = dict(want_vel)[l]
        else:
            r = pad(ptw.add(gp, trunc(centre_v, dim), -1), (3,))     # planar grids: the arm lies in the XY plane
            wv = trunc(ptw.add(body_v, ptw.cross(body_om, r)), dim)
        ok = equal(gv, wv)
        rep.ob("C09.a", "%s velocity of %s" % (lab, l), ok, diff_text(gv, wv) or "v_centre + Omega_lab x (x_marker - X_centre)",
               key="C09.a|%s|%d|vel|%s|%s" % (cls, dim, l, diff_text(gv, wv)[:80]), sample={"grid": lab, "markers": l, "velocity_x": str(gv.comps[(0,)])[:160]})


def derived_bodies(S, rep):
    """assumption A6 (director rows are an orthonormal frame) is PyElastica's for its own bodies; the rigid bodies SophT defines
    itself must establish it: every director row is a vector divided by ITS OWN norm, the middle row is the cross product of
    the other two in right-handed order (tangent, normal x tangent, normal)"""
    path = os.path.join(S.repo, "sopht", "simulator", "immersed_body", "rigid_body", "derived_rigid_bodies.py")
    tree = ast.parse(open(path).read())
    n = 0
    for cls in [c for c in tree.body if isinstance(c, ast.ClassDef)]:
        init = next((f for f in cls.body if isinstance(f, ast.FunctionDef) and f.name == "__init__"), None)
        if init is None:
            continue
        rows = {}
        for st in ast.walk(init):
            if isinstance(st, ast.Assign) and len(st.targets) == 1 and isinstance(st.targets[0], ast.Subscript) \
                    and ast.unparse(st.targets[0].value) == "self.director_collection":
                sl = st.targets[0].slice
                first = sl.elts[0] if isinstance(sl, ast.Tuple) else sl
                if isinstance(first, ast.Constant) and isinstance(first.value, int):
                    rows[first.value] = st.value
        if not rows:
            continue
        for k, v in sorted(rows.items()):
            n += 1
            ok, why = False, "row %d is %s" % (k, ast.unparse(v))
            if isinstance(v, ast.BinOp) and isinstance(v.op, ast.Div) and isinstance(v.right, ast.Call) \
                    and ast.unparse(v.right.func) in ("np.linalg.norm", "numpy.linalg.norm", "la.norm", "norm") and len(v.right.args) == 1:
                num, den = ast.unparse(v.left), ast.unparse(v.right.args[0])
                ok = num == den
                why = "row %d is %s divided by the norm of %s" % (k, num, den)
            else:
                raise Unsupported("%s: director row %d is not written as vector / norm(vector): %s" % (cls.name, k, ast.unparse(v)))
            rep.ob("C09.a", "%s director row %d is a unit vector" % (cls.name, k), ok, why, key="C09.a|%s|director|%d|%s" % (cls.name, k, why), nontrivial=False)
    if n < 3:
        raise Unsupported("expected the director rows of RectangularPlane, found %d assignments" % n)


def freshness(S, rep, rule):
    """def-use over the interaction's evaluation entry points: derived buffers of a grid (arms, transposed directors, element
    velocities ...) are recomputed from the body before they are read, so markers carry the CURRENT section kinematics"""
    from .gridcases import stale_reads, constructor_aliases, analysed
    for relfile, cls, dim in CASES:
        derived, res = stale_reads(S.repo, relfile, cls, dim)
        # two buffers bound to one array: refreshing the derived one (world-frame offsets) overwrites the other (body-frame
        # offsets), so the markers are no longer material points after the second refresh
        g = analysed(S.repo, relfile, cls, dim)
        bad = ["self.%s and self.%s are the same array (%s.__init__ line %d)" % (a, b, owner, line)
               for a, b, line, owner in constructor_aliases(g) if (a in derived) != (b in derived) or (a in derived and b in derived)]
        rep.ob(rule, "%s %dD buffers are distinct arrays" % (cls, dim), not bad, "; ".join(bad[:2]) if bad else "no two buffers share an array",
               key="%s|%s|%d|alias|%s" % (rule, cls, dim, bad[:1]), nontrivial=False)
        for m, (seq, bad) in sorted(res.items()):
            rep.ob(rule, "%s %dD %s: derived buffers recomputed before use" % (cls, dim, m), not bad,
                   "; ".join(bad[:3]) if bad else "call order %s; %d derived buffers, none read before it is rewritten" % ([x for x, _ in seq], len(derived)),
                   key="%s|%s|%d|%s|stale|%s" % (rule, cls, dim, m, [b.split(" reads ")[1].split(" ")[0] for b in bad][:3]),
                   sample={"grid": cls, "evaluation": m, "order": [x for x, _ in seq], "derived": derived}, nontrivial=bool(derived))


def run(S, tier, rep):
    rep.rule_text = ("the position and velocity methods of every forcing-grid class are interpreted over one generic marker / element "
                     "(pointwise tensors of polynomials in symbols, frame-tagged); positions must equal the documented closed forms and "
                     "velocities must equal v_centre + (Q^T omega) x (x_marker - X_centre) with the code's own marker positions; every "
                     "cross product / sum / rotation must combine one frame; def-use rule: in the constructor of every grid and in every "
                     "evaluation entry point of the interaction, a buffer derived from the body is recomputed before it is read")
    rep.explanation = ("exact polynomial identities in the components of X, V, Q, omega, radius and local offsets: all poses and velocities; "
                       "the second-order pose-advance clause follows for body-fixed markers and is not separately decided")
    rep.assumptions = rep.assumptions + ["A6 PyElastica conventions: director rows = material axes (lab -> material), omega material-frame, _node_to_element_velocity = mass-weighted mean"]
    for relfile, cls, dim in CASES:
        check_case(S, rep, relfile, cls, dim)
    freshness(S, rep, "C09.b")
    derived_bodies(S, rep)
    from .c10 import wrappers_forward_options
    wrappers_forward_options(S, rep, rule="C09.w", family_root="ImmersedBodyForcingGrid", min_found=10)
    rep.require_min("C09.a", 40)
    rep.require_min("C09.b", 40)
