"""C06: interpolation kernels are a partition of unity with the documented moments."""
from __future__ import annotations

import itertools
from fractions import Fraction as Fr

from ..extlib import arr_valfn
from ..interval import resolve_abs, sign_on_interval, univariate
from ..poly import PW, Cond, Poly, Rat, as_poly, as_rat, const, fld, fn, fn_arg, sym
from ..pwtools import canon, decide_in_region, eval_in_region, order_thresholds, pw_equal, regions_1d, single_var
from ..values import Arr, DType, Unsupported, simplify_scalar, to_pw
from .comm import Comm, WIDTH, elem_array, transfer_records, view_window
from .common import short

R = ("f", "r", ())          # fractional position of the marker inside its cell, r in [0, 1]
RP = PW.of(Poly.atom(R))

CASE_SPLIT = "decisions"     # branches on free inputs are analysed both ways (regions.run_under_size_cases)


def support_and_window(S, rep, dim):
    """(a)+(b): support offsets, weight shape and transfer windows are one index set, with x on the last axis"""
    w = WIDTH
    comm = Comm(S, dim, "cosine", dim)
    N, dx, shift = comm.N, comm.dx, comm.shift
    pos = elem_array(S, "pos", (dim, N))
    support = S.array("support", (dim,) + (2 * w,) * dim + (N,))
    nearest = S.array("nearest", (dim, N), DType("int64"))
    comm.run("local_eulerian_grid_support_of_lagrangian_grid_kernel", local_eul_grid_support_of_lag_grid=support,
             nearest_eul_grid_index_to_lag_grid=nearest, lag_positions=pos)
    i = sym("i")
    nf, sf = nearest.alloc.valfn, support.alloc.valfn
    lab = "%dD" % dim
    if nf is None or sf is None:
        rep.ob("C06.a", lab + " support kernel", False, "support kernel has no closed form", key="C06.a|%s|noform" % lab)
        return
    # nearest index = floor((x - shift)/dx) per coordinate
    for c in range(dim):
        got = nf((const(c), i))
        want = fn("floor", (sym("pos[%d,i]" % c) - shift) / dx)
        rep.ob("C06.a", "%s nearest index of coordinate %d" % (lab, c), got == want, "nearest index is %r" % (got,), key="C06.a|%s|nearest|%d|%s" % (lab, c, short(got, 80)))
    # windows of the interpolation kernels: scalar (n_components == 1) and vector variant, every component's gather
    g0 = Rr = None
    for nc in sorted({1, dim}):
        comm_n = comm if nc == dim else Comm(S, dim, "cosine", nc)
        Rn = transfer_records(comm_n)
        gs = [g for g in Rn["gathers"] if g.get("factors")]
        vlab = "%s %s" % (lab, "vector" if nc > 1 else "scalar")
        if not gs:
            rep.ob("C06.a", vlab + " window", False, "cannot read the interpolation window", key="C06.a|%s|window" % vlab)
            continue
        if nc == dim:
            g0, Rr = gs[0], Rn
        near = Rn["nearest"]
        esyms = getattr(near.alloc, "elem_syms", {})
        for gi, g in enumerate(gs):
            e = next((x for x in g["factors"] if isinstance(x, Arr) and x.alloc.id == Rn["eul"].alloc.id), None)
            if e is None:
                rep.ob("C06.b", "%s gather %d" % (vlab, gi), False, "the interpolation does not read the Eulerian field", key="C06.b|%s|%d|noeul" % (vlab, gi))
                continue
            fixed, win = view_window(e)
            # the interpolated value REPLACES the marker entry and carries the cell volume once (a constant field returns itself)
            okv = g.get("aug") is None and g.get("factor") is not None and to_pw(g["factor"]) == comm_n.dx ** dim
            rep.ob("C06.b", "%s gather %d is lag = dx^%d * sum(field * weights)" % (vlab, gi, dim), okv,
                   "interpolation %s the marker entry with factor %r" % ("accumulates into" if g.get("aug") else "assigns", g.get("factor")),
                   key="C06.b|%s|%d|form|%s|%r" % (vlab, gi, g.get("aug"), g.get("factor")), nontrivial=False)
            for k, (lo, hi) in enumerate(win):
                coord = dim - 1 - k          # array axis k carries coordinate dim-1-k (x on the last axis)
                ext = simplify_scalar(hi - lo)
                # which row of the nearest-index array does this axis use?
                rows = set()
                for a in lo.all_atoms():
                    if a[0] == "s" and a[1] in esyms:
                        rows.add(simplify_scalar(esyms[a[1]][1][0]))
                base = None
                for nm, (res, index) in esyms.items():
                    if simplify_scalar(index[0]) == coord:
                        base = sym(nm)
                ok = ext == 2 * w and rows == {coord} and base is not None and lo == base - w + 1
                rep.ob("C06.b", "%s gather %d window axis %d <- coordinate %s" % (vlab, gi, k, "xyz"[coord]), ok,
                       "array axis %d is windowed with rows %s of the nearest-index array as %r : %r (extent %r); documented idx_%s - w + 1 : idx_%s + w + 1" % (
                           k, sorted(rows), lo, hi, ext, "xyz"[coord], "xyz"[coord]), key="C06.b|%s|%d|axis%d|%s|%s" % (vlab, gi, k, sorted(rows), short(lo, 60)),
                       sample={"dim": dim, "variant": vlab, "axis": k, "coordinate": "xyz"[coord], "window": [repr(lo), repr(hi)]})
    if g0 is None:
        return
    wv = next(x for x in g0["factors"] if isinstance(x, Arr) and x.alloc.id == Rr["weights"].alloc.id)
    rep.ob("C06.a", "%s weights are %s per marker" % (lab, "x".join(["4"] * dim)), tuple(simplify_scalar(s) for s in wv.shape) == (2 * w,) * dim,
           "weight block shape %s" % (wv.shape,), key="C06.a|%s|wshape|%s" % (lab, wv.shape), nontrivial=False)
    # support distances: coordinate of window cell minus marker position, for every window cell
    bad = None
    for cell in itertools.product(range(2 * w), repeat=dim):
        for c in range(dim):
            got = sf((const(c),) + tuple(const(a) for a in cell) + (i,))
            m = cell[dim - 1 - c]            # position of the cell along the axis of coordinate c
            idx = fn("floor", (sym("pos[%d,i]" % c) - shift) / dx) - w + 1 + m
            want = (shift + idx * dx) - sym("pos[%d,i]" % c)
            if not (got == want):
                bad = "window cell %s, coordinate %s: distance %r, expected (shift + (idx - w + 1 + %d) dx) - x = %r" % (cell, "xyz"[c], got, m, want)
    rep.ob("C06.a", "%s support distances = cell coordinate - marker coordinate on the same window" % lab, bad is None, bad or "all %d cells" % ((2 * w) ** dim),
           key="C06.a|%s|support|%s" % (lab, (bad or "")[:100]), sample={"dim": dim, "cells": (2 * w) ** dim})


def weight_function(S, dim, kind):
    """W(delta_0, .., delta_{dim-1}): the weight as a function of the signed cell distances (in units of dx)"""
    w = WIDTH
    comm = Comm(S, dim, kind, dim)
    dx = comm.dx
    support = S.array("support", (dim,) + (2 * w,) * dim + (comm.N,))
    deltas = [fld("delta%d" % c, ()) for c in range(dim)]
    support.alloc.valfn = lambda idx, deltas=deltas, dx=dx: deltas[simplify_scalar(idx[0])] * dx
    weights = S.array("weights", (2 * w,) * dim + (comm.N,))
    comm.run("interpolation_weights_kernel", interp_weights=weights, local_eul_grid_support_of_lag_grid=support)
    f = weights.alloc.valfn
    if f is None:
        raise Unsupported("weights kernel %s %dD has no closed form" % (kind, dim))
    W = f(tuple(const(0) for _ in range(dim)) + (sym("i"),))
    return W, dx


def at_deltas(W, vals, dim):
    return W.subs({("f", "delta%d" % c, ()): (vals[c].leaf if isinstance(vals[c], PW) else vals[c]) for c in range(dim)})


def region_leaves(e):
    """value of a single-variable piecewise on r = 0, 0 < r < 1, r = 1"""
    e = resolve_abs(e, R, 0, 1)
    conds = e.conds()
    if not conds:
        leaf = e.leaf
        def fin0(at=None):
            x = e if at is None else e.subs({R: Poly.const(at)})
            x = resolve_abs(x, R, 0, 1)
            return x.leaf
        return [("r=0", fin0(0)), ("0<r<1", fin0()), ("r=1", fin0(1))]
    sv = single_var(conds)
    if sv is None or sv[0] != R:
        raise Unsupported("weight conditions are not conditions on the fractional position: %r" % (conds,))
    ths = [t for t in sv[1]]
    ths = order_thresholds(ths + [Rat(Poly()), Rat(Poly.const(1))])
    if ths is None:
        raise Unsupported("cannot order the thresholds of the weight function")
    out = []
    z, o = Rat(Poly()), Rat(Poly.const(1))
    inner = [t for t in ths if sign_between(t)]
    if inner:
        raise Unsupported("weight function has a breakpoint strictly inside a cell: %r" % inner)
    def fin(leaf, at=None):
        x = PW.of(leaf)
        if at is not None:
            x = x.subs({R: Poly.const(at)})
        x = resolve_abs(x, R, 0, 1)
        if not x.is_leaf() or any(a[0] == "fn" and a[1] == "abs" for a in x.all_atoms()):
            raise Unsupported("an absolute value of undecided sign remains in %r" % (x,))
        return x.leaf
    for reg in regions_1d(ths):
        if reg[0] == "eq" and reg[1] == z:
            out.append(("r=0", fin(eval_in_region(e, R, reg, ths), 0)))
        elif reg[0] == "eq" and reg[1] == o:
            out.append(("r=1", fin(eval_in_region(e, R, reg, ths), 1)))
        elif reg[0] == "between" and reg[1] == z and reg[2] == o:
            out.append(("0<r<1", fin(eval_in_region(e, R, reg, ths))))
    return out


def sign_between(t):
    if not t.is_const():
        return False
    v = t.const_value()
    return 0 < v < 1


def nonneg_leaf(leaf, closed_lo, closed_hi):
    """is the leaf >= 0 for r in [0, 1]?  Recognised forms: c*(1 + cos), polynomials of degree <= 2, A +- sqrt(Q)"""
    leaf = as_rat(leaf)
    from ..signs import sign_of_poly
    sd = sign_of_poly(leaf.den)
    if sd not in ("+", "-"):
        return None, "denominator of unknown sign"
    num = leaf.num if sd == "+" else -leaf.num
    # strip positive symbolic factors (dx): treat symbols as positive constants by grouping on the function atoms
    fns = sorted({a for a in num.atoms() if a[0] == "fn"}, key=repr)
    syms = [a for a in num.atoms() if a[0] == "s"]
    if syms:
        # all monomials must share the same symbol part
        parts = set()
        for m in num.t:
            parts.add(tuple((a, e) for a, e in m if a[0] == "s"))
        if len(parts) != 1:
            return None, "mixed symbolic factors"
        sp = parts.pop()
        num = Poly({tuple(x for x in m if x[0][0] != "s"): c for m, c in num.t.items()})
    if not fns:
        s = sign_on_interval(num, R, 0, 1)
        return (s in ("+", "0+", "0")), "polynomial sign %s" % s
    if len(fns) == 1 and fns[0][1] in ("cos", "sin"):
        alpha, beta = Fr(0), Fr(0)
        for m, c in num.t.items():
            if m == ():
                alpha += c
            elif m == ((fns[0], 1),):
                beta += c
            else:
                return None, "term %r" % (m,)
        return alpha >= abs(beta), "alpha=%s, |beta|=%s" % (alpha, abs(beta))
    if len(fns) == 1 and fns[0][1] == "sqrt":
        s_atom = fns[0]
        A = num.coeff(s_atom, 0)
        B = num.coeff(s_atom, 1)
        if num.degree_in(s_atom) > 1 or not B.is_const():
            return None, "not linear in the square root"
        b = B.const_value()
        Q = fn_arg(s_atom)
        if not Q.is_poly():
            return None, "radicand"
        sA = sign_on_interval(A, R, 0, 1)
        if b > 0:
            return (sA in ("+", "0+", "0")), "A + sqrt: A has sign %s" % sA
        # A - |b| sqrt(Q) >= 0  <=>  A >= 0 and A^2 - b^2 Q >= 0
        D = A * A - as_poly(Q).scale(b * b)
        sD = sign_on_interval(D, R, 0, 1)
        return (sA in ("+", "0+") and sD in ("+", "0+", "0")), "A - sqrt(Q): A sign %s, A^2 - Q sign %s" % (sA, sD)
    return None, "unrecognised form %r" % (leaf,)


def kernel_identities(S, rep, dim, kind):
    lab = "%s %dD" % (kind, dim)
    W, dx = weight_function(S, dim, kind)
    zeros = [const(0)] * dim
    W0 = at_deltas(W, zeros, dim)
    # ---- product structure
    hs = []
    for c in range(dim):
        vals = list(zeros)
        vals[c] = fld("delta%d" % c, ())
        hs.append(at_deltas(W, vals, dim))
    prod = const(1)
    for h in hs:
        prod = prod * h
    lhs = W * (W0 ** (dim - 1))
    ok = pw_equal(lhs, prod)
    rep.ob("C06.c", lab + " tensor-product structure", ok, "weight is not a product of one-directional factors" if not ok else "W = prod_c h(delta_c) / W0^(dim-1)",
           key="C06.c|%s|product" % lab)
    if not ok:
        return
    # ---- per direction: substitute the four support distances j - r, j = -1, 0, 1, 2
    sums = []
    for c in range(dim):
        h = hs[c]
        terms = []
        for j in (-1, 0, 1, 2):
            d = const(j) - RP
            terms.append((j, h.subs({("f", "delta%d" % c, ()): d.leaf})))
        per = {j: dict(region_leaves(t)) for j, t in terms}
        names = ["r=0", "0<r<1", "r=1"]
        rval = {"r=0": Rat(Poly()), "0<r<1": Rat(Poly.atom(R)), "r=1": Rat(Poly.const(1))}
        leaves, ml = [], []
        for n in names:
            tot = Rat(Poly())
            mom = Rat(Poly())
            for j, _ in terms:
                tot = tot + per[j][n]
                mom = mom + (Rat(Poly.const(j)) - rval[n]) * per[j][n]
            leaves.append((n, tot))
            ml.append((n, mom))
        vals = [v for _, v in leaves]
        const_sum = all(R not in v.all_atoms() for v in vals) and all(v == vals[0] for v in vals)
        rep.ob("C06.c", "%s direction %d: sum over the four cells is constant in r" % (lab, c), const_sum,
               "sum_j h(j - r) = %s" % [(n, short(v, 120)) for n, v in leaves], key="C06.c|%s|sum|%d|%s" % (lab, c, short(vals[0], 60)),
               sample={"kernel": lab, "direction": c, "sum": repr(vals[0])})
        sums.append(vals[0] if const_sum else None)
        if kind == "peskin":
            okm = all(v.is_zero() for _, v in ml)
            rep.ob("C06.m", "%s direction %d: first moment vanishes" % (lab, c), okm, "sum_j (j - r) h(j - r) = %s" % [(n, short(v, 120)) for n, v in ml],
                   key="C06.m|%s|%d" % (lab, c))
        # non-negativity of every one of the four weights on r in [0, 1]
        for j, t in terms:
            for name, leaf in per[j].items():
                if name != "0<r<1":
                    ok_, why = (leaf.is_const() and leaf.const_value() >= 0) or None, "value %r" % (leaf,)
                    if ok_ is None:
                        ok_, why = nonneg_leaf(leaf, True, True)
                else:
                    ok_, why = nonneg_leaf(leaf, False, False)
                if ok_ is None:
                    raise Unsupported("cannot decide the sign of weight %s j=%d on %s: %s" % (lab, j, name, why))
                rep.ob("C06.n", "%s direction %d cell j=%d on %s non-negative" % (lab, c, j, name), ok_, "weight %s: %s" % (short(leaf, 160), why),
                       key="C06.n|%s|%d|%d|%s" % (lab, c, j, name), nontrivial=(name == "0<r<1"))
    if all(s is not None for s in sums):
        tot = Rat(Poly.const(1))
        for s in sums:
            tot = tot * s
        tot = tot / (PW.of(W0).leaf ** (dim - 1))
        want = (const(1) / dx ** dim).leaf
        rep.ob("C06.c", lab + " weights sum to 1 / cell volume", tot == want, "sum over the window = %r, documented 1/dx^%d" % (tot, dim),
               key="C06.c|%s|unity|%s" % (lab, short(tot, 60)), sample={"kernel": lab, "sum_times_cell_volume": repr(tot * (dx ** dim).leaf)})


def grid_agreement(S, rep):
    """(d): the default coordinate shift of the forcing class is dx/2, the simulator's cell centres are dx/2 + k dx"""
    from .traces import build_vbf, IBO
    for dim in (2, 3):
        inst = build_vbf(S, dim, True)
        comm = inst.attrs.get("eul_lag_grid_communicator")
        if comm is None:
            raise Unsupported("anchor vanished: VirtualBoundaryForcing.eul_lag_grid_communicator")
        I = S.I
        pos = elem_array(S, "posd", (dim, sym("N")))
        support = S.array("supportd", (dim,) + (2 * WIDTH,) * dim + (sym("N"),))
        nearest = S.array("nearestd", (dim, sym("N")), DType("int64"))
        I.inline_njit = True
        try:
            I.call(comm.attrs["local_eulerian_grid_support_of_lagrangian_grid_kernel"], [],
                   dict(local_eul_grid_support_of_lag_grid=support, nearest_eul_grid_index_to_lag_grid=nearest, lag_positions=pos), None, S.module(IBO))
        finally:
            I.inline_njit = False
        got = nearest.alloc.valfn((const(0), sym("i")))
        want = fn("floor", (sym("posd[0,i]") - sym("dx") / 2) / sym("dx"))
        rep.ob("C06.d", "%dD default grid shift is dx/2" % dim, got == want, "nearest index with the default shift: %r" % (got,), key="C06.d|%d|%s" % (dim, short(got, 80)))
        # an explicit shift given by the caller (a node-centred grid passes 0) is the shift the kernels use
        inst2 = build_vbf(S, dim, True, eul_grid_coord_shift=sym("shift_in"))
        comm2 = inst2.attrs.get("eul_lag_grid_communicator")
        pos2 = elem_array(S, "pose", (dim, sym("N")))
        support2 = S.array("supporte", (dim,) + (2 * WIDTH,) * dim + (sym("N"),))
        nearest2 = S.array("neareste", (dim, sym("N")), DType("int64"))
        I.inline_njit = True
        try:
            I.call(comm2.attrs["local_eulerian_grid_support_of_lagrangian_grid_kernel"], [],
                   dict(local_eul_grid_support_of_lag_grid=support2, nearest_eul_grid_index_to_lag_grid=nearest2, lag_positions=pos2), None, S.module(IBO))
        finally:
            I.inline_njit = False
        got2 = nearest2.alloc.valfn((const(0), sym("i")))
        want2 = fn("floor", (sym("pose[0,i]") - sym("shift_in")) / sym("dx"))
        rep.ob("C06.d", "%dD explicit grid shift is used as given" % dim, got2 == want2, "nearest index with eul_grid_coord_shift=shift_in: %r" % (got2,),
               key="C06.d|%d|explicit-shift|%s" % (dim, short(got2, 80)))
        kw = inst.attrs.get("interp_weights")
        rep.ob("C06.d", "%dD default kernel width 2" % dim, kw is not None and tuple(simplify_scalar(s) for s in kw.shape[:-1]) == (4,) * dim,
               "weights buffer shape %s" % (kw.shape if kw is not None else None,), key="C06.d|%d|width" % dim, nontrivial=False)


def weights_single_writer(S, rep):
    """the weight buffer of a forcing object holds the kernel's weights whenever it is looked at: besides its allocation, the only
    writer is the weight kernel (`interp_weights[...] = ...` inside the communicator); a forcing class that rescales the buffer in
    place leaves weights that no longer sum to one / cell volume"""
    import ast
    import os
    n = 0
    for root, _, files in os.walk(os.path.join(S.repo, "sopht")):
        for f in sorted(files):
            if not f.endswith(".py"):
                continue
            path = os.path.join(root, f)
            rel = os.path.relpath(path, S.repo)
            tree = ast.parse(open(path).read())
            for fn_ in [x for x in ast.walk(tree) if isinstance(x, ast.FunctionDef)]:
                for st in ast.walk(fn_):
                    tg = st.targets if isinstance(st, ast.Assign) else [st.target] if isinstance(st, ast.AugAssign) else []
                    for t in tg:
                        base = t
                        while isinstance(base, ast.Subscript):
                            base = base.value
                        nm = base.attr if isinstance(base, ast.Attribute) else base.id if isinstance(base, ast.Name) else None
                        if nm != "interp_weights":
                            continue
                        n += 1
                        alloc = isinstance(st, ast.Assign) and isinstance(t, ast.Attribute) and fn_.name == "__init__"
                        kernel = isinstance(st, ast.Assign) and isinstance(t, ast.Subscript) and isinstance(base, ast.Name) \
                            and "interpolation_weights_kernel" in fn_.name
                        rep.ob("C06.a", "%s:%s writes the weight buffer" % (rel.split("/")[-1], fn_.name), alloc or kernel,
                               "line %d: %s" % (st.lineno, ast.unparse(st)[:100]) if not (alloc or kernel) else "allocation" if alloc else "the weight kernel",
                               key="C06.a|weights-writer|%s|%s" % (rel, fn_.name), nontrivial=False)
    if n < 6:
        raise Unsupported("expected the weight kernels and the two allocations of interp_weights, found %d stores" % n)


def simulator_coordinates(S, rep):
    """(d) the simulators' own cell-centre coordinate field is x_c = dx/2 + i dx along the array axis of coordinate c (x on the
    last axis), with the one spacing dx = x_range / n_x the communicator is given: only then does Peskin interpolation of that
    field return the marker position"""
    from .simtools import build_sim, sim_configs
    from ..poly import fld
    for kind in ("2d", "3d", "passive"):
        for cfg in sim_configs(kind, "quick")[:1] if kind != "passive" else sim_configs(kind, "quick"):
            run = build_sim(S, cfg)
            lab = run.label()
            if run.inst is None or run.raised is not None:
                rep.ob("C06.d", "%s coordinate field" % lab, False, "simulator cannot be constructed: %s" % run.raised, key="C06.d|%s|ctor" % lab)
                continue
            pf = run.inst.attrs.get("position_field")
            f = arr_valfn(pf) if isinstance(pf, Arr) else None
            dim = run.dim
            idx = tuple(fld("i%d" % k, ()) for k in range(dim))
            dx = sym("x_range") / sym("nx")
            for c in range(dim):
                got = f((const(c),) + idx) if f is not None else None
                want = dx / 2 + idx[dim - 1 - c] * dx
                ok = got is not None and to_pw(got) == want
                rep.ob("C06.d", "%s cell centres of coordinate %s" % (lab, "xyz"[c]), ok,
                       "position_field[%d] = %s, documented dx/2 + i*dx along array axis %d with dx = x_range/nx" % (c, short(got, 160), dim - 1 - c),
                       key="C06.d|%s|coord|%d|%s" % (kind, c, short(got, 80)), sample={"simulator": lab, "coordinate": "xyz"[c], "value": short(got, 120)})


def working_precision_buffers(S, rep):
    """both precisions: the weights sum to one because the four cell distances of a marker are exactly one cell apart; a
    forcing object working in double precision must therefore keep distances, indices' companions and weights in double
    precision (a float32 distance buffer rounds them before the delta function is evaluated). Every floating-point array the
    forcing classes allocate for themselves has the precision they were constructed with."""
    from ..driver import Session
    from ..values import Arr
    from .traces import build_vbf
    found = 0
    for prec in ("float64", "float32"):
        S2 = Session(S.repo, prec)
        for dim in (2, 3):
            inst = build_vbf(S2, dim, False)
            bad = []
            for a, v in sorted(inst.attrs.items()):
                if isinstance(v, Arr) and v.dtype is not None and v.dtype.name.startswith(("float", "complex")):
                    found += 1
                    if v.dtype.name != prec:
                        bad.append("%s is %s" % (a, v.dtype.name))
            rep.ob("C06.p", "VirtualBoundaryForcing %dD constructed with real_t=%s keeps its buffers in that precision" % (dim, prec), not bad,
                   "; ".join(bad) if bad else "all floating-point buffers are %s" % prec, key="C06.p|%d|%s|%s" % (dim, prec, bad), nontrivial=False)
    if found < 16:
        raise Unsupported("expected at least 16 floating-point buffers on the forcing objects, found %d" % found)


def run(S, tier, rep):
    rep.rule_text = ("the communicator kernels are interpreted abstractly (numba bodies as numpy code, one generic marker): support distances, "
                     "nearest index, weight shape and transfer windows must be one index set with x on the last axis; the weight kernels, fed "
                     "symbolic cell distances, must factor into one-directional functions whose four values at j - r (j = -1..2, r in [0,1], "
                     "endpoints included) sum to a constant with total 1/dx^dim, are non-negative, and (Peskin) have zero first moment")
    rep.explanation = ("real-arithmetic identities in r with exact trigonometric / radical normal forms; floating-point evaluation of the weights "
                       "(fastmath, ulp-level positions) is the stated remainder")
    for dim in (2, 3):
        support_and_window(S, rep, dim)
        for kind in ("cosine", "peskin"):
            kernel_identities(S, rep, dim, kind)
    grid_agreement(S, rep)
    simulator_coordinates(S, rep)
    weights_single_writer(S, rep)
    working_precision_buffers(S, rep)
    rep.require_min("C06.p", 4)
    rep.require_min("C06.d", 16)
    rep.require_min("C06.a", 8)
    rep.require_min("C06.b", 25)
    rep.require_min("C06.c", 12)
    rep.require_min("C06.n", 100)
    rep.require_min("C06.m", 5)
