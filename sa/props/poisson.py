"""Recognisers for the Poisson-solve chains in a symbolic store (shared by C01, C03, C11)."""
from __future__ import annotations

from ..poly import PW, Poly, as_poly, fld
from ..pwtools import pw_equal
from ..regions import Box, covers
from ..store import Piece, deps_of, _exprs_in, _is_single_atom, full_box


def single_atom(e):
    """(name, offsets) if e is exactly one field atom with coefficient 1 else None"""
    if e is None or not e.is_leaf() or not e.leaf.is_poly():
        return None
    p = as_poly(e.leaf)
    if len(p.t) != 1:
        return None
    (m, c), = p.t.items()
    if c != 1 or len(m) != 1 or m[0][1] != 1 or m[0][0][0] != "f":
        return None
    return m[0][0][1], m[0][0][2]


def ext_sources(st, exprs):
    """follow external-operation definitions from the expressions down to stage/init versions"""
    seen, out = set(), set()
    stack = []
    for e in exprs:
        stack.extend(deps_of(e))
    while stack:
        n = stack.pop()
        if n in seen:
            continue
        seen.add(n)
        d = st.defs.get(n)
        if d is None or d["kind"] in ("init", "stage"):
            out.add(n)
            continue
        for e in _exprs_in(d.get("inputs")):
            stack.extend(deps_of(e))
    return out


class Chain:
    def __init__(self):
        self.ok = False
        self.why = ""
        self.source = None          # name of the right-hand-side version
        self.greens = None          # (real name, imag name) of the spectral kernel array
        self.box = None             # corner box used for copy-in
        self.buffer_pieces = None
        self.out_offsets = None


def greens_chain(st, out_expr, dim):
    """recognise  out = irfft( rfft(pad(src)) * G )[corner]  in the store"""
    ch = Chain()
    at = single_atom(out_expr)
    if at is None:
        ch.why = "solution is not a plain copy of the inverse transform: %r" % (out_expr,)
        return ch
    v, offs = at
    ch.out_offsets = offs
    d = st.defs.get(v)
    if d is None or d["kind"] != "ext" or d["ext"] != "fft:FFTW_BACKWARD":
        ch.why = "solution is not read from the output of the backward FFT (%s)" % (d and d.get("ext"))
        return ch
    if any(o != 0 for o in offs):
        ch.why = "copy-out is shifted by %s relative to the copy-in corner" % (offs,)
        return ch
    snaps = d["inputs"]
    parts = {s["name"].rsplit(".", 1)[-1]: s for s in snaps}
    if set(parts) != {"real", "imag"}:
        ch.why = "backward FFT input is not one complex array"
        return ch
    exprs = {}
    for part, s in parts.items():
        if len(s["pieces"]) != 1 or not s["pieces"][0].box == s["view_box"]:
            ch.why = "convolution buffer is not uniformly defined"
            return ch
        exprs[part] = s["pieces"][0].expr
    # the product (a_re + i a_im)(g_re + i g_im)
    names = sorted(deps_of(exprs["real"]) | deps_of(exprs["imag"]))
    fwd = [n for n in names if st.defs.get(n, {}).get("kind") == "ext" and st.defs[n]["ext"] == "fft:FFTW_FORWARD"]
    gre = [n for n in names if n not in fwd]
    if len(fwd) != 2 or len(gre) != 2:
        ch.why = "spectral product does not combine one forward transform with one kernel array: %s" % names
        return ch
    a_re = next((n for n in fwd if ".real" in n), None)
    a_im = next((n for n in fwd if ".imag" in n), None)
    g_re = next((n for n in gre if ".real" in n), None)
    g_im = next((n for n in gre if ".imag" in n), None)
    if None in (a_re, a_im, g_re, g_im):
        ch.why = "cannot identify real/imaginary parts in the spectral product"
        return ch
    z = (0,) * full_box(st.defs[a_re]["alloc"]).rank
    A_re, A_im, G_re, G_im = fld(a_re, z), fld(a_im, z), fld(g_re, z), fld(g_im, z)
    if not (pw_equal(exprs["real"], A_re * G_re - A_im * G_im) and pw_equal(exprs["imag"], A_re * G_im + A_im * G_re)):
        ch.why = "spectral product is not the complex product of transform and kernel: re=%r im=%r" % (exprs["real"], exprs["imag"])
        return ch
    for g in (g_re, g_im):
        if st.defs.get(g, {}).get("kind") != "init":
            ch.why = "kernel array %s is modified during the solve" % g
            return ch
    ch.greens = (g_re, g_im)
    # forward transform input: the doubled buffer = source in the leading corner, zero elsewhere
    fd = st.defs[a_re]
    if st.defs[a_im]["inputs"] is not fd["inputs"] and repr(st.defs[a_im]["op"]) != repr(fd["op"]):
        ch.why = "real and imaginary parts come from different transforms"
        return ch
    bufs = fd["inputs"]
    if len(bufs) != 1:
        ch.why = "forward FFT input is not one real array"
        return ch
    buf = bufs[0]
    src = None
    zero_boxes, src_boxes = [], []
    for p in buf["pieces"]:
        if p.expr.is_leaf() and p.expr.leaf.is_zero():
            zero_boxes.append(p.box)
            continue
        a = single_atom(p.expr)
        if a is None:
            ch.why = "doubled buffer holds %r on %r" % (p.expr, p.box)
            return ch
        if src is not None and src != a[0]:
            ch.why = "doubled buffer mixes sources %s and %s" % (src, a[0])
            return ch
        src = a[0]
        if any(o != 0 for o in a[1]):
            ch.why = "copy-in is shifted by %s" % (a[1],)
            return ch
        src_boxes.append(p.box)
    if src is None or len(src_boxes) != 1:
        ch.why = "doubled buffer does not contain the right-hand side in one box"
        return ch
    ok, hole = covers(zero_boxes + src_boxes, buf["view_box"])
    if not ok:
        ch.why = "doubled buffer is not fully defined before the transform (hole %r)" % (hole,)
        return ch
    ch.source, ch.box, ch.buffer_pieces = src, src_boxes[0], buf
    ch.buffer_box = buf["view_box"]
    ch.ok = True
    return ch
