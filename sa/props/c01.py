"""C01: a flow time step realises the documented vorticity-velocity discretisation."""
from __future__ import annotations

from ..poly import PW, sym
from ..pwtools import pw_equal
from ..specs.step_sequence import documented
from ..store import full_box, interior_point, expr_at
from ..values import Arr
from .common import match_spec, short
from .poisson import ext_sources, greens_chain, single_atom
from .simtools import sim_configs, stepped_sim

CASE_SPLIT = True     # orderings between different grid sizes are analysed case by case (regions.run_under_size_cases)


def stage_table(run):
    """store stages as an ordered list of (callee, {array component name: (pieces, full box, version name)})"""
    st = run.store
    out = []
    for callee, names in st.stages:
        d = {}
        for n in names:
            df = st.defs[n]
            base = n.split("'")[0]
            d[base] = ([(p.box, p.expr) for p in df["pieces"]], full_box(df["alloc"]), n)
        out.append((callee, d))
    return out


def check_config(S, cfg, rep):
    run = stepped_sim(S, cfg)
    lab = run.label()
    if run.raised is not None or run.problems or run.store is None:
        why = str(run.raised) if run.raised is not None else "; ".join("%s: %s" % (getattr(p, "pkind", getattr(p, "kind", "")), p.msg) for p in run.problems[:3])
        rep.ob("C01.run", lab, False, "constructing or stepping the simulator fails: %s" % why, key="C01.run|%s|%s" % (lab, why[:100]))
        return
    st = run.store
    stages, env = documented(cfg)
    got = stage_table(run)
    # the solver writes the stream function through plain copies: such stages are checkpointed only when they
    # are not a single atom; align on documented stages and consume store stages in order
    gi = 0
    psi_versions = {}
    for sp in stages:
        if sp.kind == "poisson":
            # the stream function components now hold the solve of the current vorticity components
            for out_name, src_version in sp.writes.items():
                key = next((k for k, (al, comp, part) in st.meta.items() if st.base_name(k) == out_name), None)
                if key is None:
                    rep.ob("C01.a", "%s :: %s" % (lab, sp.what), False, "stream function %s is never written" % out_name,
                           key="C01.a|%s|poisson|unwritten|%s" % (cfg["kind"], out_name))
                    continue
                # find the content of the stream function right after the solve: it is the definition the velocity stage reads
                psi_versions[out_name] = (key, src_version)
            continue
        if gi >= len(got):
            rep.ob("C01.a", "%s :: %s" % (lab, sp.what), False, "documented stage is missing from the step",
                   key="C01.a|%s|missing|%s" % (cfg["kind"], sp.what))
            continue
        callee, arrays = got[gi]
        # a store stage that writes only the stream function belongs to the solve
        while gi < len(got) and set(got[gi][1]) and all(n.startswith("stream_func_field") for n in got[gi][1]):
            gi += 1
        if gi >= len(got):
            rep.ob("C01.a", "%s :: %s" % (lab, sp.what), False, "documented stage is missing from the step",
                   key="C01.a|%s|missing|%s" % (cfg["kind"], sp.what))
            continue
        callee, arrays = got[gi]
        gi += 1
        if set(arrays) != set(sp.writes):
            rep.ob("C01.a", "%s :: %s" % (lab, sp.what), False,
                   "stage %s rewrites %s, documented stage rewrites %s" % (callee.split(".")[-1], sorted(arrays), sorted(sp.writes)),
                   key="C01.a|%s|%s|arrays|%s" % (cfg["kind"], sp.what, sorted(arrays)))
            continue
        for name, spec in sp.writes.items():
            cells, fb, vname = arrays[name]
            inst = "%s :: %s :: %s" % (lab, sp.what, name)
            if isinstance(spec, tuple) and spec[0] == "deep-interior":
                e = None
                for b, x in cells:
                    if b.contains(interior_point(fb)):
                        e = x
                ok = e is not None and pw_equal(e, spec[1])
                rep.ob("C01.a", inst, ok, "deep-interior value differs from the documented operator: %s" % short(e) if not ok else sp.what,
                       key="C01.a|%s|%s|%s|%s" % (cfg["kind"], sp.what, name, short(e, 120)))
                continue
            bad_formula, bad_region = match_spec(cells, fb, spec)
            rep.ob("C01.a", inst, bad_formula is None, bad_formula or sp.what,
                   key="C01.a|%s|%s|%s|%s" % (cfg["kind"], sp.what, name, (bad_formula or "")[:140]),
                   sample={"config": lab, "stage": sp.what, "array": name, "callee": callee.split(".")[-1]})
            rep.ob("C01.b", inst, bad_region is None, bad_region or "region as documented",
                   key="C01.b|%s|%s|%s|%s" % (cfg["kind"], sp.what, name, (bad_region or "")[:140]), nontrivial=False)
    # undocumented extra stages
    while gi < len(got):
        callee, arrays = got[gi]
        gi += 1
        if all(n.startswith("stream_func_field") for n in arrays):
            continue
        rep.ob("C01.a", "%s :: extra stage %s" % (lab, callee.split(".")[-1]), False,
               "the step rewrites %s in a stage the documented sequence does not have" % sorted(arrays),
               key="C01.a|%s|extra|%s|%s" % (cfg["kind"], callee.split(".")[-1], sorted(arrays)))
    # the Poisson stage: the velocity stage reads version V of the stream function; V must be solve(current vorticity)
    for out_name, (key, src_version) in psi_versions.items():
        dim = run.dim
        solver = cfg.get("poisson_solver_type", "greens_function_convolution")
        # content of the stream function after the whole step (it is not rewritten after the solve)
        vname = st.vname(key, st.version.get(key, 0))
        d = st.defs.get(vname)
        pieces = d["pieces"] if d is not None and d["kind"] == "stage" else st.pieces(key)
        inst = "%s :: Poisson solve :: %s" % (lab, out_name)
        if len(pieces) != 1:
            rep.ob("C01.c", inst, False, "stream function is written piecewise", key="C01.c|%s|%s|pieces" % (cfg["kind"], out_name))
            continue
        e = pieces[0].expr
        if solver == "greens_function_convolution":
            ch = greens_chain(st, e, dim)
            ok = ch.ok and ch.source == src_version
            why = ch.why if not ch.ok else ("solve reads %s, documented right-hand side is %s" % (ch.source, src_version) if not ok else "")
            rep.ob("C01.c", inst, ok, why or "stream function = irfft(rfft(pad(vorticity)) * G)[corner]",
                   key="C01.c|%s|%s|%s" % (cfg["kind"], out_name, why[:120]))
        else:
            srcs = ext_sources(st, [e])
            pub = {n for n in srcs if n.split("'")[0].startswith(("vorticity_field", "velocity_field", "eul_grid_forcing_field", "stream_func_field"))}
            ok = pub == {src_version}
            rep.ob("C01.c", inst, ok, "fast-diagonalisation solve of %s reads %s" % (out_name, sorted(pub)) if not ok
                   else "solve depends on the matching vorticity component only", key="C01.c|%s|%s|fd|%s" % (cfg["kind"], out_name, sorted(pub)))
    clock(run, rep, lab)


def clock(run, rep, lab):
    """time advances by exactly dt, once, after the flow step"""
    sets = [op for op in run.trace if op.kind == "AttrSet" and op.inst is run.inst and op.attr == "time"]
    ok = len(sets) == 1
    detail = "%d assignments of `time`" % len(sets)
    if ok:
        op = sets[0]
        old = op.old if isinstance(op.old, PW) else PW.of(op.old) if not isinstance(op.old, (type(None),)) else None
        inc = PW.of(op.value) - PW.of(op.old)
        ok = inc == sym("dt")
        detail = "time changes by %r" % (inc,)
        # after the last effect of the flow step
        idx = run.trace.index(op)
        later = [o for o in run.trace[idx + 1:] if o.kind in ("Launch", "SliceAssign", "FFT", "NumpyOp")]
        if later:
            ok = False
            detail = "time is advanced before the flow step has finished"
        # "by exactly dt": the increment must not pass through a conversion (real_t(dt) rounds a double dt to single precision)
        import ast as _ast
        node = getattr(op, "node", None)
        val = getattr(node, "value", None)
        conv = [_ast.unparse(c.func) for c in _ast.walk(val) if isinstance(c, _ast.Call)] if val is not None else []
        if ok and conv:
            ok = False
            detail = "the time increment passes through %s(...): in single precision the clock does not advance by exactly dt" % conv[0]
    rep.ob("C01.d", "%s :: clock" % lab, ok, detail, key="C01.d|%s|%s" % (run.cfg["kind"], detail[:80]), nontrivial=False)


def run(S, tier, rep):
    rep.rule_text = ("per simulator configuration the op trace of time_step is folded by the symbolic store into stage definitions of the "
                     "public arrays; each stage must equal the documented operator (operands, prefactors as rational functions of dt, dx, "
                     "nu, rho; interior/ring/zone regions) in the documented order; Poisson stage recognised structurally; clock rule")
    rep.explanation = ("C01.a operator and prefactor per stage; C01.b regions; C01.c Poisson stage wiring; C01.d clock; floating-point "
                       "agreement with an independent implementation is not decided (remainder)")
    from .simtools import parallel_over
    cfgs = [cfg for kind in ("2d", "3d", "passive") for cfg in sim_configs(kind, tier)]
    parallel_over(S, rep, "sa.props.c01", "check_config", cfgs)
    from .c10 import wrappers_forward_options
    wrappers_forward_options(S, rep, rule="C01.w", family_root="FlowSimulator", min_found=3)
    # the create_* helpers are the documented way to choose the solver, the flow type, the filter ...: an argument they do not
    # pass on leaves the simulator on the class default (a different Poisson solve, hence a different velocity)
    from .c16 import factories_forward_options
    factories_forward_options(S, rep, rule="C01.w")
    rep.require_min("C01.w", 7)
    rep.note("configurations", len(cfgs))
    rep.require_min("C01.a", 60)
    rep.require_min("C01.d", 15)
