"""C14: the flow step has no preferred direction (axis permutation / mirror equivariance)."""
from __future__ import annotations

from ..algtools import GridTransform, grid_group, split_name, _simultaneous_subs
from ..poly import PW, Poly, Rat, as_poly, const, fld, sym
from ..pwtools import pw_equal_mod_ties
from ..regions import Box, bound, Bd
from ..store import full_box, interior_point, _DEPS, dep_symbol, merge_cells
from ..values import RaisedInAnalysed, Unsupported
from .common import CATALOGUE, entry_summary, find_entry, interiors, short, pin_indices, refine
from .simtools import sim_configs, stepped_sim

SIZES = {2: ("ny", "nx"), 3: ("nz", "ny", "nx")}

SIM_KINDS = {
    2: {"vorticity_field": "pseudoscalar", "stream_func_field": "pseudoscalar", "velocity_field": "vector",
        "eul_grid_forcing_field": "vector", "primary_field": "scalar"},
    3: {"vorticity_field": "pseudovector", "stream_func_field": "pseudovector", "velocity_field": "vector",
        "eul_grid_forcing_field": "vector", "primary_field": "scalar"},
}
SYM_KINDS = {"free_stream": "vector"}


class CellTransform:
    """action of a grid symmetry on (box, expression) cells of an array of the given rank"""

    def __init__(self, T, dim, kinds):
        self.T, self.dim, self.kinds = T, dim, kinds
        self.sizes = SIZES[dim]
        # array axis k (coordinate a = dim-1-k) goes to array axis k2 = dim-1-perm[a]
        self.axis_to = [dim - 1 - T.perm[dim - 1 - k] for k in range(dim)]
        self.mirrored = [T.perm[dim - 1 - k] in T.mirror for k in range(dim)]

    def rename_sizes(self, p):
        """size symbol of array axis k -> size symbol of the axis it is mapped to"""
        sub = {("s", self.sizes[k]): Poly.sym(self.sizes[self.axis_to[k]]) for k in range(self.dim)
               if self.sizes[k] != self.sizes[self.axis_to[k]]}
        return p if not sub else p

    def size_sub(self):
        return {("s", self.sizes[k]): Poly.sym(self.sizes[self.axis_to[k]]) for k in range(self.dim)}

    def map_bound(self, b, k):
        """bound on array axis k -> the same place expressed on axis axis_to[k] (sizes renamed)"""
        p = bound(b).poly()
        p = as_poly(_simultaneous_subs(PW.of(p), {a: v for a, v in self.size_sub().items() if a in p.atoms()}).leaf) if p.atoms() else p
        return p

    def map_box(self, box):
        iv = [None] * self.dim
        for k, (lo, hi) in enumerate(box.iv):
            k2 = self.axis_to[k]
            n2 = Poly.sym(self.sizes[k2])
            lo2, hi2 = self.map_bound(lo, k), self.map_bound(hi, k)
            if self.mirrored[k]:
                lo2, hi2 = n2 - hi2, n2 - lo2
            iv[k2] = (lo2, hi2)
        return Box(iv)

    def map_expr(self, e, sign=1):
        T, dim = self.T, self.dim
        sub = {}
        for a in e.all_atoms():
            if a[0] == "f":
                vbase = a[1]
                name, _, ver = vbase.partition("'")
                base, c = split_name(name)
                kind = self.kinds.get(base)
                if kind is None:
                    raise Unsupported("no tensor kind declared for array %s" % base)
                if c is None:
                    _, s = T.comp_sign(kind, None)
                    nn = name
                else:
                    b, s = T.comp_sign(kind, c)
                    nn = "%s[%d]" % (base, b)
                if ver:
                    nn += "'" + ver
                offs = [None] * dim
                for k, o in enumerate(a[2]):
                    k2 = self.axis_to[k]
                    if isinstance(o, int):
                        offs[k2] = -o if self.mirrored[k] else o
                    else:
                        p = self.map_bound(o[1], k)
                        if self.mirrored[k]:
                            p = Poly.sym(self.sizes[k2]) - 1 - p
                        offs[k2] = ("a", p)
                na = ("f", nn, tuple(offs))
                if na != a or s != 1:
                    sub[a] = Poly.atom(na).scale(s)
            elif a[0] == "s":
                nm = a[1]
                if nm.startswith("@"):
                    k = int(nm[1:])
                    k2 = self.axis_to[k]
                    v = Poly.sym("@%d" % k2)
                    if self.mirrored[k]:
                        v = Poly.sym(self.sizes[k2]) - 1 - v
                    if v != Poly.atom(a):
                        sub[a] = v
                elif nm in self.sizes:
                    k = self.sizes.index(nm)
                    if self.sizes[self.axis_to[k]] != nm:
                        sub[a] = Poly.sym(self.sizes[self.axis_to[k]])
                elif nm in _DEPS:
                    names = set()
                    for n in _DEPS[nm]:
                        nb, _, ver = n.partition("'")
                        base, c = split_name(nb)
                        if c is not None and base in self.kinds:
                            b, _s = T.comp_sign(self.kinds[base], c)
                            nb = "%s[%d]" % (base, b)
                        names.add(nb + ("'" + ver if ver else ""))
                    v = as_poly(dep_symbol(names).leaf)
                    if v != Poly.atom(a):
                        sub[a] = v
                else:
                    base, c = split_name(nm)
                    if c is not None and base in SYM_KINDS:
                        b, s = T.comp_sign(SYM_KINDS[base], c)
                        na = ("s", "%s[%d]" % (base, b))
                        if na != a or s != 1:
                            sub[a] = Poly.atom(na).scale(s)
        out = _simultaneous_subs(e, sub) if sub else e
        return out * const(sign) if sign != 1 else out


def dx_symbol(e):
    """express x_range through the uniform spacing: x_range = dx * nx (dx is the same along every axis)"""
    if ("s", "x_range") in e.all_atoms():
        return e.subs({("s", "x_range"): Poly.sym("dx") * Poly.sym("nx")})
    return e


def abstract_equal(a, b):
    from ..store import is_abstract, deps_of
    if is_abstract(a) or is_abstract(b):
        return is_abstract(a) and is_abstract(b) and deps_of(a) == deps_of(b)
    return pw_equal_mod_ties(a, b)


def cells_match(rep, rule, inst, cells_img, cells_tgt, key, proviso=None, fb=None):
    """every transformed cell must agree with the target array on its box"""
    cuts = [[] for _ in cells_img[0][0].iv]
    for b, _ in cells_img:
        for k, (lo, hi) in enumerate(b.iv):
            cuts[k] += [lo, hi]
    tgt = refine(cells_tgt, cuts)
    cuts2 = [[] for _ in cuts]
    for b, _ in cells_tgt:
        for k, (lo, hi) in enumerate(b.iv):
            cuts2[k] += [lo, hi]
    img = refine(cells_img, cuts2)
    bad = None
    for b, e in img:
        if proviso is not None and proviso(e) and not b.contains(interior_point(fb)):
            # the property's proviso: fields vanish within reach of the boundary, so this cell holds 0 on both sides
            covering = [e2 for b2, e2 in tgt if not b2.intersect(b).is_empty()]
            if all(proviso(e2) for e2 in covering):
                continue
        te = None
        for b2, e2 in tgt:
            if b2.contains(b):
                te = e2
                break
        if te is None:
            bad = "no cell of the target covers %r" % (b,)
            break
        if not abstract_equal(pin_indices(e, b), pin_indices(te, b)):
            bad = "on %r the transformed value %s differs from the sibling's %s" % (b, short(e, 250), short(te, 250))
            break
    rep.ob(rule, inst, bad is None, bad or "image under the symmetry equals the sibling component on every cell", key=key + "|" + (bad or "")[:100])


CASE_SPLIT = True     # orderings between grid sizes and branches on free inputs are analysed case by case
_PATH_DIGESTS = {}


def path_dependence(S, cfg, run, rep, lab):
    """a step whose path depends on whether max/min of a direction-bearing input (not of its magnitude) is zero cannot commute
    with mirrors and relabellings: the transformed state takes the other path.  Reported when the two paths differ."""
    from ..regions import CURRENT_CASE
    import hashlib
    for name, nz in CURRENT_CASE[0].decisions:
        red = getattr(S.I.ext, "reductions", {}).get(name)
        if red is None:
            continue
        arr = red[1]
        der = getattr(arr.alloc, "derivation", None)
        raw = der is None
        st = run.store
        dig = hashlib.sha1(repr([(n, [(repr(p.box), repr(p.expr)) for p in st.defs[n]["pieces"]]) for n in st.def_order
                                 if st.defs[n]["kind"] == "stage"]).encode()).hexdigest()
        key = (repr(sorted(cfg.items())), name)
        other = _PATH_DIGESTS.setdefault(key, {})
        other[nz] = dig
        if len(other) == 2 and other[True] != other[False] and raw:
            rep.ob("C14.step", "%s :: path does not depend on the orientation of the data" % lab, False,
                   "the step computes different results depending on whether %s is zero; %s of the raw components of %s is not invariant under "
                   "mirroring or relabelling the axes, so a transformed state takes the other path" % (name, red[0], arr.alloc.label),
                   key="C14.step|%s|path|%s" % (cfg["kind"], name))


def sim_config(S, cfg, rep):
    run = stepped_sim(S, cfg)
    lab = run.label()
    if run.raised is not None or run.problems or run.store is None:
        rep.ob("C14.step", lab, False, "time step cannot be analysed: %s" % (run.raised,), key="C14.step|%s|raises" % lab)
        return
    path_dependence(S, cfg, run, rep, lab)
    dim = run.dim
    kinds = dict(SIM_KINDS[dim])
    if cfg["kind"] == "passive" and cfg["field_type"] == "vector":
        kinds["primary_field"] = "vector"
    st = run.store
    stages = {}
    for n in st.def_order:
        d = st.defs[n]
        if d["kind"] != "stage":
            continue
        cells = [(p.box, dx_symbol(p.expr)) for p in d["pieces"]]
        stages[n] = (cells, full_box(d["alloc"]), d.get("tag", ""))
    from .c04 import zero_when_fields_vanish
    vanishing = {n for n, d in st.defs.items() if d.get("alloc") is not None
                 and run.public.get(d["alloc"].id) in ("vorticity_field", "primary_field", "eul_grid_forcing_field")}
    for T in grid_group(dim):
        ct = CellTransform(T, dim, kinds)
        for n, (cells, fb, tag) in stages.items():
            name, _, ver = n.partition("'")
            base, c = split_name(name)
            kind = kinds.get(base)
            if kind is None or base == "stream_func_field":
                continue      # the Poisson stage is an external operation (isotropy: C03/C11)
            if c is None:
                _, s = T.comp_sign(kind, None)
                tgt = n
            else:
                b, s = T.comp_sign(kind, c)
                tgt = "%s[%d]'%s" % (base, b, ver)
            if tgt not in stages:
                rep.ob("C14.step", "%s :: %s under %s" % (lab, n, T.describe()), False, "sibling stage %s does not exist" % tgt,
                       key="C14.step|%s|%s|%s|missing" % (cfg["kind"], tag.split(".")[-1], T.describe()))
                continue
            img = [(ct.map_box(bx), ct.map_expr(e, s)) for bx, e in cells]
            cells_match(rep, "C14.step", "%s :: %s (%s) under %s" % (lab, n, tag.split(".")[-1], T.describe()), img, stages[tgt][0],
                        "C14.step|%s|%s|%s|%s" % (cfg["kind"], tag.split(".")[-1], name, T.describe()),
                        proviso=lambda x: zero_when_fields_vanish(x, vanishing), fb=stages[tgt][1])


KERNEL_KINDS = {
    "gen_diffusion_flux_pyst_kernel": {"diffusion_flux": "scalar", "field": "scalar", "vector_field_diffusion_flux": "vector", "vector_field": "vector"},
    "gen_inplane_field_curl_pyst_kernel": {"curl": "pseudoscalar", "field": "vector"},
    "gen_outplane_field_curl_pyst_kernel": {"curl": "vector", "field": "pseudoscalar"},
    "gen_curl_pyst_kernel": {"curl": "pseudovector", "field": "vector"},
    "gen_divergence_pyst_kernel": {"divergence": "scalar", "field": "vector"},
    "gen_update_vorticity_from_velocity_forcing_pyst_kernel": {"vorticity_field": "pseudo", "velocity_forcing_field": "vector"},
    "gen_update_vorticity_from_penalised_velocity_pyst_kernel": {"vorticity_field": "pseudo", "penalised_velocity_field": "vector", "velocity_field": "vector"},
    "gen_vorticity_stretching_flux_pyst_kernel": {"vorticity_stretching_flux_field": "pseudovector", "vorticity_field": "pseudovector", "velocity_field": "vector"},
    "gen_vorticity_stretching_timestep_euler_forward_pyst_kernel": {"vorticity_stretching_flux_field": "pseudovector", "vorticity_field": "pseudovector", "velocity_field": "vector"},
    "gen_elementwise_cross_product_pyst_kernel": {"result_field": "vector", "field_1": "vector", "field_2": "pseudovector"},
    "gen_advection_flux_conservative_eno3_pyst_kernel": {"advection_flux": "scalar", "field": "scalar", "velocity": "vector"},
    "gen_advection_timestep_euler_forward_conservative_eno3_pyst_kernel": {"advection_flux": "scalar", "field": "scalar", "velocity": "vector", "vector_field": "vector"},
    "gen_diffusion_timestep_euler_forward_pyst_kernel": {"diffusion_flux": "scalar", "field": "scalar", "vector_field": "vector"},
    "gen_laplacian_filter_kernel": {"scalar_field": "scalar", "vector_field": "vector", "filter_flux_buffer": "scalar", "field_buffer": "scalar"},
    "gen_penalise_field_boundary_pyst_kernel": {"field": "scalar", "vector_field": "vector"},
    "gen_set_fixed_val_at_boundaries_pyst_kernel": {"field": "scalar"},
}


def kernel_level(S, rep, tier):
    labels = []
    for e in CATALOGUE:
        gen = e.gen[:-3]
        kinds = KERNEL_KINDS.get(gen)
        if kinds is None:
            continue
        if e.opts.get("filter_order", 1) > (1 if tier == "quick" else 3) or e.opts.get("width", 1) > (2 if tier == "quick" else 6):
            continue
        if gen == "gen_set_fixed_val_at_boundaries_pyst_kernel" and e.opts.get("field_type") != "scalar":
            continue
        if gen == "gen_advection_timestep_euler_forward_conservative_eno3_pyst_kernel" and e.opts.get("field_type") == "vector":
            continue    # per-component scalar transport of a component array: covered by the scalar variant and the step
        labels.append(e.label())
    from .simtools import parallel_over
    parallel_over(S, rep, "sa.props.c14", "kernel_entry", labels)


def kernel_entry(S, label, rep):
    from .common import entry_by_label
    if True:
        e = entry_by_label(label)
        gen = e.gen[:-3]
        kinds = KERNEL_KINDS.get(gen)
        sm, raised, _, _ = entry_summary(S, e)
        if sm is None or sm.raised is not None or sm.problems:
            rep.ob("C14.kernel", e.label(), False, "kernel cannot be analysed", key="C14.kernel|%s|raises" % e.label())
            return
        dim = e.dim
        kk = {k: ("pseudoscalar" if dim == 2 else "pseudovector") if v == "pseudo" else v for k, v in kinds.items()}
        written = [n for n in sm.final if n in sm.written]
        scratch_out = {"advection_flux", "diffusion_flux", "filter_flux_buffer", "field_buffer"} if "timestep" in gen or "filter" in gen else set()
        for T in grid_group(dim):
            ct = CellTransform(T, dim, kk)
            for n in written:
                base, c = split_name(n)
                if base in scratch_out or base not in kk:
                    continue
                kind = kk[base]
                if c is None:
                    _, s = T.comp_sign(kind, None)
                    tgt = n
                else:
                    b, s = T.comp_sign(kind, c)
                    tgt = "%s[%d]" % (base, b)
                whole = "penalise_field_boundary" in gen or "at_boundaries" in gen
                if whole:
                    img = [(ct.map_box(bx), ct.map_expr(dx_symbol(x), s)) for bx, x in sm.final[n]]
                    tg = [(bx, dx_symbol(x)) for bx, x in sm.final[tgt]]
                else:
                    ip = interior_point(sm.full[n])
                    img = [(ct.map_box(ip), ct.map_expr(dx_symbol(sm.interior(n)), s))]
                    tg = [(interior_point(sm.full[tgt]), dx_symbol(sm.interior(tgt)))]
                    img = [(tg[0][0], img[0][1])]
                cells_match(rep, "C14.kernel", "%s :: %s under %s" % (e.label(), n, T.describe()), img, tg,
                            "C14.kernel|%s|%s|%s" % (e.label(), n, T.describe()))


def run(S, tier, rep):
    rep.rule_text = ("sibling agreement under the grid symmetry group: every generator T (axis transposition / cyclic permutation / mirror, "
                     "with offsets permuted, components relabelled, pseudo-quantities signed, index symbols and size symbols mapped) applied "
                     "to a stage definition of the simulator step (all cells) or to a kernel summary must give exactly the sibling "
                     "component's definition; upwind conditions compared modulo ties")
    rep.explanation = ("each stage of the step being equivariant and the sequence naming no axis, the step commutes with the symmetry; "
                       "equivariance of FFTW/LAPACK and the isotropy of the Green's function are checked under C03/C11 or trusted (A3/A5)")
    from .simtools import parallel_over
    cfgs = []
    for kind in ("2d", "3d", "passive"):
        cs = sim_configs(kind, tier)
        if tier == "quick":
            if kind == "2d":
                cs = [c for c in cs if c["penalty_zone_width"] in (0, 2)]
            if kind == "3d":
                cs = [c for c in cs if c["with_forcing"] and (c["filter"] is None or c["filter"][0] == "multiplicative")]
        cfgs += cs
    parallel_over(S, rep, "sa.props.c14", "sim_config", cfgs)
    kernel_level(S, rep, tier)
    # the Poisson stage: the Green's function the unbounded solver convolves with must itself have no preferred axis
    from .c03 import isotropic, sampled_kernel
    for dim in (2, 3):
        try:
            k = sampled_kernel(S, dim)
        except RaisedInAnalysed as ex:
            k = None
        ok = k is not None and isotropic(k, dim)
        rep.ob("C14.poisson", "%dD unbounded solver: Green's function symmetric under relabelling the axes" % dim, ok,
               "the sampled kernel has no closed form" if k is None else "the sampled kernel treats the axes differently: %s" % short(k, 300) if not ok
               else "invariant under all %d permutations of (axis index, axis size)" % (2 if dim == 2 else 6), key="C14.poisson|%dD" % dim)
    rep.note("group_generators", {2: [T.describe() for T in grid_group(2)], 3: [T.describe() for T in grid_group(3)]})
    rep.require_min("C14.step", 150)
    rep.require_min("C14.kernel", 150)
    rep.require_min("C14.poisson", 2)
