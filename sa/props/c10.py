"""C10: virtual-boundary feedback is the documented PI law over any call history."""
from __future__ import annotations

import ast
import os

from ..driver import run_store, written_allocs
from ..numba_fx import elementwise_forms, numba_effects
from ..poly import PW, Poly, Rat, const, sym
from ..store import _exprs_in, deps_of
from ..values import Arr, Bound, Inst, Njit, RaisedInAnalysed, Unsupported, to_pw
from .simtools import array_attr_names

IBFI = "sopht.simulator.immersed_body.immersed_body_flow_interaction"
CASE_SPLIT = "decisions"     # branches on free inputs are analysed both ways (regions.run_under_size_cases)

STUB = '''
import numpy as np
from sopht.simulator.immersed_body.immersed_body_forcing_grid import ImmersedBodyForcingGrid



class StubForcingGrid(ImmersedBodyForcingGrid):
    """stands for any user forcing grid: its marker positions / velocities are arbitrary arrays"""

    def __init__(self, grid_dim, num_lag_nodes, max_spacing):
        self.max_spacing = max_spacing
        super().__init__(grid_dim=grid_dim, num_lag_nodes=num_lag_nodes)
        self.body_position = np.zeros((grid_dim, num_lag_nodes))
        self.body_velocity = np.zeros((grid_dim, num_lag_nodes))

    def compute_lag_grid_position_field(self):
        self.position_field[...] = self.body_position

    def compute_lag_grid_velocity_field(self):
        self.velocity_field[...] = self.body_velocity

    def transfer_forcing_from_grid_to_body(self, body_flow_forces, body_flow_torques, lag_grid_forcing_field):
        pass

    def get_maximum_lagrangian_grid_spacing(self):
        return self.max_spacing
'''


def build(S, dim, reset):
    I = S.I
    if "verif_stub_grid" not in I.modules:
        I.load_source("verif_stub_grid", STUB)
    stub = I.modules["verif_stub_grid"].vars["StubForcingGrid"]
    mod = S.module(IBFI)
    cls = mod.vars.get("ImmersedBodyFlowInteraction")
    if cls is None:
        raise Unsupported("anchor vanished: ImmersedBodyFlowInteraction")
    dx = sym("dx")
    arrs = dict(eul_grid_forcing_field=S.vector_field("eul_grid_forcing_field", dim),
                eul_grid_velocity_field=S.vector_field("eul_grid_velocity_field", dim),
                body_flow_forces=S.array("body_flow_forces", (3, sym("n_nodes"))),
                body_flow_torques=S.array("body_flow_torques", (3, sym("n_elems"))))
    n0 = len(I.trace)
    inst = I.call(cls, [], dict(forcing_grid_cls=stub, virtual_boundary_stiffness_coeff=sym("k_stiff"), virtual_boundary_damping_coeff=sym("k_damp"),
                                dx=dx, grid_dim=dim, real_t=S.real_t, enable_eul_grid_forcing_reset=reset, num_threads=sym("num_threads"),
                                start_time=sym("t0"), num_lag_nodes=sym("N"), max_spacing=dx * to_pw(3) / 2, **arrs), None, mod)
    return inst, arrs, I.trace[n0:]


def call(S, inst, meth, **kw):
    I = S.I
    mod = S.module(IBFI)
    n0 = len(I.trace)
    fn = I.get_attr(inst, meth, None, mod)
    I.call(fn, [], kw, None, mod)
    return I.trace[n0:]


def numba_writes(tr, alloc_id):
    out = []
    for op in tr:
        if op.kind == "NumbaCall":
            eff = numba_effects(op.fn)
            for p in eff["writes"]:
                v = op.args.get(p)
                if isinstance(v, Arr) and v.alloc.id == alloc_id:
                    out.append((op, p))
        elif op.kind in ("SliceAssign",) and op.dst.alloc.id == alloc_id:
            out.append((op, None))
        elif op.kind == "Launch":
            for a in op.kernel.stencil.assigns:
                if op.arrays[a.field].alloc.id == alloc_id:
                    out.append((op, a.field))
    return out


def check_instance(S, dim, reset, rep):
    lab = "%dD reset=%s" % (dim, reset)
    try:
        inst, arrs, init_tr = build(S, dim, reset)
    except RaisedInAnalysed as ex:
        rep.ob("C10.a", lab, False, "constructor raises %s" % ex, key="C10.a|%s|ctor" % lab)
        return
    P = inst.attrs["lag_grid_position_mismatch_field"]
    V = inst.attrs["lag_grid_velocity_mismatch_field"]
    F = inst.attrs["lag_grid_forcing_field"]
    names = array_attr_names(inst)
    # ---- (d) coefficient scaling, exactly once
    h = sym("dx") * to_pw(3) / 2
    for attr, k in (("virtual_boundary_stiffness_coeff", sym("k_stiff")), ("virtual_boundary_damping_coeff", sym("k_damp"))):
        got = inst.attrs.get(attr)
        want = k * h ** (dim - 1)
        ok = got is not None and to_pw(got) == want
        rep.ob("C10.d", "%s %s" % (lab, attr), ok, "coefficient stored is %r, documented k * max_spacing^(dim-1) = %r" % (got, want),
               key="C10.d|%d|%s|%r" % (dim, attr, got), sample={"instance": lab, "stored": repr(got)})
    # ---- the interaction works on the caller's flow fields themselves (views), not on snapshots taken at construction
    for attr in ("eul_grid_velocity_field", "eul_grid_forcing_field"):
        v = inst.attrs.get(attr)
        ok = isinstance(v, Arr) and v.alloc.id == arrs[attr].alloc.id
        rep.ob("C10.f", "%s %s is a view of the caller's array" % (lab, attr), ok,
               "the interaction keeps %s, which is not the array it was given: later changes of the flow field are not seen / the spread force does not reach the shared field" % (
                   v.describe() if isinstance(v, Arr) else v) if not ok else "same memory as the constructor argument",
               key="C10.f|%d|%s|alias" % (dim, attr), nontrivial=False)
    # ---- evaluation entry points never touch the integral, the flow velocity or the body
    evals = {"__call__": {}, "compute_interaction_on_lag_grid": {}, "compute_flow_forces_and_torques": {}}
    traces = {}
    for m in evals:
        try:
            traces[m] = call(S, inst, m)
        except RaisedInAnalysed as ex:
            rep.ob("C10.a", "%s %s" % (lab, m), False, "raises %s" % ex, key="C10.a|%s|%s|raises" % (lab, m))
            continue
        wr = numba_writes(traces[m], P.alloc.id)
        rep.ob("C10.a", "%s %s leaves the integral alone" % (lab, m), not wr,
               "evaluation method writes the position-mismatch integral: %s" % [o.where for o, _ in wr] if wr else "no store into the integral",
               key="C10.a|%d|%s|writes-integral" % (dim, m))
        w = written_allocs(traces[m])
        bad = [names.get(i, ["?"])[0] for i in w if i in (arrs["eul_grid_velocity_field"].alloc.id,)]
        rep.ob("C10.f", "%s %s purity" % (lab, m), not bad, "writes the flow velocity field" if bad else "flow velocity is only read",
               key="C10.f|%d|%s|%s" % (dim, m, bad), nontrivial=False)
        sets = [op for op in traces[m] if op.kind == "AttrSet" and op.inst is inst]
        rep.ob("C10.a", "%s %s assigns no interaction state" % (lab, m), not sets, "assigns %s" % [o.attr for o in sets],
               key="C10.a|%d|%s|attrs|%s" % (dim, m, [o.attr for o in sets]), nontrivial=False)
    # ---- every evaluation path works on the body's CURRENT marker positions and velocities ("move body" is part of the histories)
    grid = inst.attrs["forcing_grid"]
    gp, gv = grid.attrs["position_field"].alloc.id, grid.attrs["velocity_field"].alloc.id
    bp, bv = grid.attrs["body_position"].alloc.id, grid.attrs["body_velocity"].alloc.id
    for m, tr_m in traces.items():
        st_m = run_store(tr_m, havoc=written_allocs(tr_m) | {P.alloc.id, V.alloc.id, gp, gv, bp, bv, arrs["eul_grid_velocity_field"].alloc.id,
                                                             arrs["eul_grid_forcing_field"].alloc.id})
        stale, fresh = [], set()
        for name in st_m.def_order:
            d = st_m.defs[name]
            if d["kind"] != "ext":
                continue
            for e in _exprs_in(d["inputs"]):
                for dep in deps_of(e):
                    dd = st_m.defs.get(dep)
                    if dd is None or dd["kind"] != "init":
                        continue
                    if dd["alloc"].id in (gp, gv):
                        stale.append("%s reads the marker %s left by an earlier call" % (d["ext"], "positions" if dd["alloc"].id == gp else "velocities"))
                    elif dd["alloc"].id in (bp, bv):
                        fresh.add(dd["alloc"].id)
        ok = not stale and fresh == {bp, bv}
        rep.ob("C10.b", "%s %s uses the body's current markers" % (lab, m), ok,
               "; ".join(sorted(set(stale))[:3]) if stale else ("marker positions and velocities are recomputed from the body before they are consumed"
                                                                 if ok else "kernels never consume the body's %s" % ("positions" if bp not in fresh else "velocities")),
               key="C10.b|%d|%s|fresh|%s" % (dim, m, sorted(set(stale))[:2] or sorted(fresh)))
    # ---- time_step(dt): single writer, P <- P + dt V, time += dt once
    tr = call(S, inst, "time_step", dt=sym("dt"))
    wr = numba_writes(tr, P.alloc.id)
    ok = len(wr) == 1 and wr[0][0].kind == "NumbaCall"
    detail = "%d stores into the integral in time_step" % len(wr)
    if ok:
        op, p = wr[0]
        forms = elementwise_forms(op.fn)
        e = forms.get(p)
        params = op.fn.fn.node.args.args
        amap = {}
        for q, v in op.args.items():
            if isinstance(v, Arr):
                amap[q] = "P" if v.alloc.id == P.alloc.id else "V" if v.alloc.id == V.alloc.id else "arr:" + v.alloc.label
            else:
                amap[q] = v
        sub = {}
        for q, v in amap.items():
            sub[("s", q)] = Poly.sym(v) if isinstance(v, str) else (to_pw(v).leaf if hasattr(to_pw(v), "leaf") else v)
        got = e.subs(sub) if e is not None else None
        want = sym("P") + sym("dt") * sym("V")
        ok = got is not None and got == want
        detail = "integral update is %r, documented P + dt*V with the caller's dt" % (got,)
    rep.ob("C10.a", "%s time_step integrates by Euler forward" % lab, ok, detail, key="C10.a|%d|euler|%s" % (dim, detail[:100]),
           sample={"instance": lab, "update": detail})
    sets = [op for op in tr if op.kind == "AttrSet" and op.inst is inst]
    okc = len(sets) == 1 and sets[0].attr == "time" and (to_pw(sets[0].value) - to_pw(sets[0].old)) == sym("dt")
    rep.ob("C10.a", "%s time += dt once" % lab, okc, "attribute assignments in time_step: %s" % [(o.attr, o.value) for o in sets],
           key="C10.a|%d|clock|%s" % (dim, [(o.attr, repr(o.value)) for o in sets]), nontrivial=False)
    others = [i for i in written_allocs(tr) if i != P.alloc.id]
    rep.ob("C10.a", "%s time_step writes nothing else" % lab, not others, "also writes %s" % [names.get(i, ["?"])[0] for i in others],
           key="C10.a|%d|ts-extra|%s" % (dim, [names.get(i, ["?"])[0] for i in others]), nontrivial=False)
    # ---- (b) the law and (c) the pipeline, from the store of one full evaluation
    full = traces.get("__call__")
    if full is None:
        return
    st = run_store(full, havoc=written_allocs(full) | {P.alloc.id, V.alloc.id, arrs["eul_grid_velocity_field"].alloc.id,
                                                       arrs["eul_grid_forcing_field"].alloc.id,
                                                       inst.attrs["forcing_grid"].attrs["position_field"].alloc.id,
                                                       inst.attrs["forcing_grid"].attrs["velocity_field"].alloc.id})
    # every kernel call must read fresh versions of the interaction's own work arrays
    own = {a.alloc.id: n for n, a in inst.attrs.items() if isinstance(a, Arr)}
    public_in = {P.alloc.id, arrs["eul_grid_velocity_field"].alloc.id, arrs["eul_grid_forcing_field"].alloc.id}
    stale = []
    for name in st.def_order:
        d = st.defs[name]
        if d["kind"] != "ext":
            continue
        for e in _exprs_in(d["inputs"]):
            for dep in deps_of(e):
                dd = st.defs.get(dep)
                if dd is not None and dd["kind"] == "init" and dd["alloc"].id in own and dd["alloc"].id not in public_in:
                    if dd["alloc"].id == d["alloc"].id and d.get("mode") != "update":
                        continue
                    stale.append("%s reads %s before this evaluation wrote it" % (d["ext"], dep))
    rep.ob("C10.c", "%s pipeline order" % lab, not stale, "; ".join(sorted(set(stale))[:4]) if stale else
           "support -> weights -> interpolation -> mismatch -> force: every stage consumes what the previous one produced",
           key="C10.c|%d|%s" % (dim, sorted(set(stale))[:2]))
    # the law, from the two whole-array kernels that write V and F
    for arr_, what, want_fn in ((V, "velocity mismatch", lambda a: a["flow"] - a["body"]),
                                (F, "marker force", lambda a: a["k"] * a["P"] + a["c"] * a["V"])):
        w = numba_writes(full, arr_.alloc.id)
        if len(w) != 1 or w[0][0].kind != "NumbaCall":
            rep.ob("C10.b", "%s %s" % (lab, what), False, "%d writers" % len(w), key="C10.b|%d|%s|writers" % (dim, what))
            continue
        op, p = w[0]
        e = elementwise_forms(op.fn).get(p)
        sub = {}
        for q, v in op.args.items():
            if isinstance(v, Arr):
                role = {P.alloc.id: "P", V.alloc.id: "V", inst.attrs["lag_grid_flow_velocity_field"].alloc.id: "flow",
                        inst.attrs["forcing_grid"].attrs["velocity_field"].alloc.id: "body"}.get(v.alloc.id, "arr:" + v.alloc.label)
                sub[("s", q)] = Poly.sym(role)
            else:
                pv = to_pw(v)
                k = inst.attrs["virtual_boundary_stiffness_coeff"]
                c = inst.attrs["virtual_boundary_damping_coeff"]
                if pv == to_pw(k):
                    sub[("s", q)] = Poly.sym("k")
                elif pv == to_pw(c):
                    sub[("s", q)] = Poly.sym("c")
                else:
                    sub[("s", q)] = pv.leaf
        got = e.subs(sub) if e is not None else None
        want = want_fn({n: sym(n) for n in ("flow", "body", "k", "c", "P", "V")})
        ok = got is not None and got == want
        rep.ob("C10.b", "%s %s law" % (lab, what), ok, "%s = %r, documented %r" % (what, got, want), key="C10.b|%d|%s|%r" % (dim, what, got),
               sample={"instance": lab, what: repr(got)})
    # ---- (e) reset versus accumulate
    ef = arrs["eul_grid_forcing_field"].alloc.id
    wr = numba_writes(full, ef)
    kinds = []
    for op, p in wr:
        if op.kind == "Launch":
            kinds.append("zero" if op.scalars and all(to_pw(v) == const(0) for v in op.scalars.values()) else "set")
        elif op.kind == "NumbaCall":
            kinds.append(numba_effects(op.fn)["per"][p]["mode"] + ":" + ("accumulate" if any(r.kind == "accumulate" for r in numba_effects(op.fn)["per"][p]["records"]) else "assign"))
        else:
            kinds.append(op.kind)
    if reset:
        ok = kinds[:dim] == ["zero"] * dim and kinds[dim:] == ["update:accumulate"]
        doc = "zero fill of every component, then one accumulating spread"
    else:
        ok = kinds == ["update:accumulate"]
        doc = "only effect on the Eulerian forcing field is the accumulating spread"
    rep.ob("C10.e", "%s forcing-field effects" % lab, ok, "effects on the Eulerian forcing field: %s; documented: %s" % (kinds, doc),
           key="C10.e|%d|%s|%s" % (dim, reset, kinds))


def who_may_write(S, rep):
    """AST scan of the whole package: stores into / kernel writes of the mismatch integral"""
    hits = []
    for root, _, files in os.walk(os.path.join(S.repo, "sopht")):
        for f in files:
            if not f.endswith(".py"):
                continue
            p = os.path.join(root, f)
            rel = os.path.relpath(p, S.repo)
            tree = ast.parse(open(p).read())
            for fn in [n for n in ast.walk(tree) if isinstance(n, ast.FunctionDef)]:
                for n in ast.walk(fn):
                    tgt = None
                    if isinstance(n, ast.Assign):
                        tgt = n.targets
                    elif isinstance(n, ast.AugAssign):
                        tgt = [n.target]
                    for t in tgt or []:
                        base = t
                        while isinstance(base, ast.Subscript):
                            base = base.value
                        if isinstance(base, ast.Attribute) and base.attr == "lag_grid_position_mismatch_field":
                            hits.append((rel, fn.name, "store", n.lineno))
                    if isinstance(n, ast.Call):
                        for kw in n.keywords:
                            if isinstance(kw.value, ast.Attribute) and kw.value.attr == "lag_grid_position_mismatch_field":
                                hits.append((rel, fn.name, "arg:%s:%s" % (ast.unparse(n.func).split(".")[-1], kw.arg), n.lineno))
                        for a in n.args:
                            if isinstance(a, ast.Attribute) and a.attr == "lag_grid_position_mismatch_field":
                                hits.append((rel, fn.name, "arg:%s" % ast.unparse(n.func).split(".")[-1], n.lineno))
    allowed_store = {("sopht/numeric/immersed_boundary_ops/VirtualBoundaryForcing.py", "__init__")}
    for rel, fn, kind, line in hits:
        if kind == "store":
            ok = (rel, fn) in allowed_store
            rep.ob("C10.a", "store in %s:%s" % (rel.split("/")[-1], fn), ok, "direct store into the integral outside the allocation (line %d)" % line,
                   key="C10.a|store|%s|%s" % (rel, fn), nontrivial=False)
        else:
            # passing the integral to a callee: allowed callees are read-only for it, or the Euler update called from time_step
            callee = kind.split(":")[1]
            ok = True
            why = "read-only use"
            if callee.startswith("update_lag_grid_position_mismatch"):
                ok = fn == "time_step"
                why = "the integrator is called from %s" % fn
            elif callee in ("zeros_like", "norm", "add_as_lagrangian_fields_for_io", "compute_lag_grid_forcing_field", "view"):
                ok = True
            rep.ob("C10.a", "use in %s:%s -> %s" % (rel.split("/")[-1], fn, callee), ok, why, key="C10.a|use|%s|%s|%s" % (rel, fn, callee), nontrivial=False)
    rep.note("integral_mentions", len(hits))


def class_index(repo):
    """name -> (ClassDef, relative file) for every class of the package (names are unique in sopht)"""
    out = {}
    for root, _, files in os.walk(os.path.join(repo, "sopht")):
        for f in sorted(files):
            if not f.endswith(".py"):
                continue
            path = os.path.join(root, f)
            tree = ast.parse(open(path).read())
            for cls in [n for n in ast.walk(tree) if isinstance(n, ast.ClassDef)]:
                out.setdefault(cls.name, (cls, os.path.relpath(path, repo)))
    return out


def wrappers_forward_options(S, rep, rule="C10.w", family_root="VirtualBoundaryForcing", min_found=3):
    """constructor agreement along an inheritance family: every class that calls the constructor of its base must bind each
    argument that is a plain name to the base parameter of that very name (reset mode, thread count, coefficients, dx ... are
    positional values of compatible types, so a transposition still runs), and must forward every option it shares with the
    base.  Decided on the syntax tree with the base signature resolved through the package's classes."""
    idx = class_index(S.repo)
    if family_root not in idx:
        raise Unsupported("anchor vanished: class %s" % family_root)

    def bases_of(name):
        cls = idx[name][0]
        return [b.id if isinstance(b, ast.Name) else b.attr if isinstance(b, ast.Attribute) else None for b in cls.bases]

    def in_family(name, seen=()):
        if name == family_root:
            return True
        if name not in idx or name in seen:
            return False
        return any(b is not None and in_family(b, seen + (name,)) for b in bases_of(name))

    def init_of(name):
        """nearest __init__ along the first-base chain: (FunctionDef, owner)"""
        while name in idx:
            f = next((x for x in idx[name][0].body if isinstance(x, ast.FunctionDef) and x.name == "__init__"), None)
            if f is not None:
                return f, name
            bs = [b for b in bases_of(name) if b in idx]
            if not bs:
                return None, None
            name = bs[0]
        return None, None
    found = 0
    for name in sorted(idx):
        cls, rel = idx[name]
        if name == family_root or not in_family(name):
            continue
        init = next((x for x in cls.body if isinstance(x, ast.FunctionDef) and x.name == "__init__"), None)
        if init is None:
            continue        # inherits the base constructor
        pbases = [b for b in bases_of(name) if b in idx]
        if not pbases:
            continue
        binit, bowner = init_of(pbases[0])
        if binit is None:
            continue
        bparams = [a.arg for a in binit.args.args[1:]]
        bkwonly = [a.arg for a in binit.args.kwonlyargs]
        n_required = len(bparams) - len(binit.args.defaults)
        wparams = {a.arg for a in init.args.args[1:]} | {a.arg for a in init.args.kwonlyargs}
        calls = []
        for n in ast.walk(init):
            if isinstance(n, ast.Call) and isinstance(n.func, ast.Attribute) and n.func.attr == "__init__":
                recv = ast.unparse(n.func.value)
                if recv == "super()":
                    calls.append((n, list(n.args)))
                elif recv.split(".")[-1] in idx:
                    calls.append((n, list(n.args[1:])))
        lab = "%s -> %s (%s)" % (name, bowner, rel.split("/")[-1])
        if len(calls) != 1:
            rep.ob(rule, lab + " calls the base constructor once", False, "%d base-constructor calls" % len(calls), key=rule + "|%s|ncalls" % name)
            continue
        call, pos = calls[0]
        found += 1
        if any(isinstance(a, ast.Starred) for a in pos):
            raise Unsupported("%s forwards *args to the base constructor" % name)
        bound = {}
        for i, a in enumerate(pos):
            if i >= len(bparams):
                rep.ob(rule, lab, False, "too many positional arguments for the base constructor", key=rule + "|%s|arity" % name)
                break
            bound[bparams[i]] = a
        for kw in call.keywords:
            if kw.arg is not None:
                bound[kw.arg] = kw.value
        wrong = []
        for prm, a in bound.items():
            if isinstance(a, ast.Name) and a.id != prm and a.id in set(bparams) | set(bkwonly):
                wrong.append("its `%s` is passed as the base's `%s`" % (a.id, prm))
        dropped = [q for q in (bparams + bkwonly) if q in wparams and q not in bound]
        ok = not wrong and not dropped
        why = "; ".join(wrong + ["its option `%s` is not forwarded" % q for q in dropped]) if not ok else \
            "%d arguments bound to the base parameters of the same name" % len(bound)
        rep.ob(rule, lab + " forwards its arguments unchanged", ok, why, key=rule + "|%s|%s" % (name, why[:120] if not ok else ""),
               sample={"wrapper": name, "base": bowner, "bound": {k: ast.unparse(v)[:40] for k, v in bound.items()}})
        missing = [q for q in bparams[:n_required] if q not in bound]
        if missing and not any(kw.arg is None for kw in call.keywords):
            rep.ob(rule, lab + " supplies the required arguments", False, "missing %s" % missing, key=rule + "|%s|missing" % name)
    rep.note("constructor_chains_%s" % family_root, found)
    if found < min_found:
        raise Unsupported("expected at least %d constructor chains below %s, found %d" % (min_found, family_root, found))


VIEW_METHODS = {"view", "reshape", "ravel", "squeeze", "transpose", "swapaxes"}
VIEW_FUNCS = {"asarray", "ascontiguousarray", "asanyarray", "atleast_1d", "atleast_2d", "reshape", "ravel", "squeeze", "transpose"}
INPLACE_METHODS = {"fill", "sort", "put", "itemset", "resize", "partition", "setfield"}
KNOWN_INPLACE = {"_elements_to_nodes_inplace": (1,), "copyto": (0,), "put": (0,), "place": (0,), "putmask": (0,), "fill_diagonal": (0,)}


def _root(e):
    """the name an lvalue / view expression is rooted in: x, x[...], x.T, x.view(), np.asarray(x) ..."""
    while True:
        if isinstance(e, ast.Name):
            return e.id
        if isinstance(e, ast.Subscript):
            e = e.value
        elif isinstance(e, ast.Attribute) and e.attr in ("T", "real", "imag", "flat"):
            e = e.value
        elif isinstance(e, ast.Call) and isinstance(e.func, ast.Attribute) and e.func.attr in VIEW_METHODS and not isinstance(e.func.value, ast.Name):
            e = e.func.value
        elif isinstance(e, ast.Call) and isinstance(e.func, ast.Attribute) and e.func.attr in VIEW_METHODS and isinstance(e.func.value, ast.Name) \
                and e.func.value.id not in ("np", "numpy"):
            e = e.func.value
        elif isinstance(e, ast.Call) and isinstance(e.func, ast.Attribute) and e.func.attr in VIEW_FUNCS and e.args:
            e = e.args[0]
        else:
            return None


def param_stores(fn, pname, module_funcs, depth=0):
    """statements of fn that (may) store into the array bound to parameter pname, following local aliases (views) in
    statement order and calls into functions of the same module; returns [(lineno, text)]"""
    aliases = {pname}
    hits = []

    def visit(stmts):
        for st in stmts:
            if isinstance(st, (ast.For, ast.While)):
                visit(st.body); visit(st.orelse); visit(st.body)      # twice: aliases made late in the body reach its start
                continue
            if isinstance(st, ast.If):
                visit(st.body); visit(st.orelse)
                continue
            if isinstance(st, ast.With):
                visit(st.body)
                continue
            if isinstance(st, ast.Try):
                visit(st.body); [visit(h.body) for h in st.handlers]; visit(st.orelse); visit(st.finalbody)
                continue
            # calls anywhere in the statement
            for c in [n for n in ast.walk(st) if isinstance(n, ast.Call)]:
                for kw in c.keywords:
                    if kw.arg == "out" and any(_root(x) in aliases for x in (kw.value.elts if isinstance(kw.value, ast.Tuple) else [kw.value])):
                        hits.append((st.lineno, ast.unparse(st)[:100]))
                name = c.func.attr if isinstance(c.func, ast.Attribute) else (c.func.id if isinstance(c.func, ast.Name) else None)
                if isinstance(c.func, ast.Attribute) and c.func.attr in INPLACE_METHODS and _root(c.func.value) in aliases:
                    hits.append((st.lineno, ast.unparse(st)[:100]))
                for pos in KNOWN_INPLACE.get(name, ()):
                    if pos < len(c.args) and _root(c.args[pos]) in aliases:
                        hits.append((st.lineno, ast.unparse(st)[:100]))
                callee = module_funcs.get(name) if isinstance(c.func, ast.Name) else None
                if callee is not None and depth < 3:
                    params = [a.arg for a in callee.args.posonlyargs + callee.args.args]
                    bound = list(zip(params, c.args)) + [(k.arg, k.value) for k in c.keywords if k.arg in params]
                    for q, a in bound:
                        if _root(a) in aliases and param_stores(callee, q, module_funcs, depth + 1):
                            hits.append((st.lineno, ast.unparse(st)[:100] + "  [%s stores into its parameter %s]" % (name, q)))
            if isinstance(st, ast.AugAssign):
                if _root(st.target) in aliases:
                    hits.append((st.lineno, ast.unparse(st)[:100]))
                continue
            if isinstance(st, (ast.Assign, ast.AnnAssign)):
                targets = st.targets if isinstance(st, ast.Assign) else [st.target]
                value = st.value
                for t in targets:
                    for tt in (t.elts if isinstance(t, (ast.Tuple, ast.List)) else [t]):
                        if isinstance(tt, ast.Name):
                            if value is not None and not isinstance(t, (ast.Tuple, ast.List)) and _root(value) in aliases:
                                aliases.add(tt.id)
                            else:
                                aliases.discard(tt.id)          # rebound to something else
                        elif _root(tt) in aliases:
                            hits.append((st.lineno, ast.unparse(st)[:100]))
    visit(fn.body)
    return sorted(set(hits))


def marker_force_read_only(S, rep):
    """"evaluate body forces" is one of the operations of the property's histories: the transfer to the body takes the marker
    force as an argument (the interaction's own lag_grid_forcing_field) and must leave it as it is"""
    idx = class_index(S.repo)
    found = 0
    for name in sorted(idx):
        cls, rel = idx[name]
        for fn in [n for n in cls.body if isinstance(n, ast.FunctionDef) and n.name == "transfer_forcing_from_grid_to_body"]:
            params = [a.arg for a in fn.args.posonlyargs + fn.args.args]
            if len(params) < 4:
                continue
            if len(fn.body) == 1 and isinstance(fn.body[0], (ast.Pass, ast.Raise)) or (fn.body and all(isinstance(b, ast.Expr) and isinstance(b.value, ast.Constant) for b in fn.body)):
                continue                      # abstract declaration
            pname = params[3]
            tree = ast.parse(open(os.path.join(S.repo, rel)).read())
            module_funcs = {n.name: n for n in tree.body if isinstance(n, ast.FunctionDef)}
            hits = param_stores(fn, pname, module_funcs)
            found += 1
            rep.ob("C10.g", "%s.transfer_forcing_from_grid_to_body reads the marker force only" % name, not hits,
                   "the marker force argument %s is modified in place (line %d: %s); the caller passes the interaction's own marker force, "
                   "which is then no longer k*integral + c*mismatch" % (pname, hits[0][0], hits[0][1]) if hits else
                   "no store into %s or a view of it" % pname,
                   key="C10.g|%s|%s" % (name, hits[0][1] if hits else ""))
    rep.note("forcing_grid_transfers", found)


def spacing_from_current_state(S, rep):
    """(d) the coefficients are scaled by the maximum spacing of the markers as they are: a grid that reports the spacing of
    the body's reference configuration (`rest_lengths`, `rest_*`) scales every force wrongly once the body is pre-strained"""
    idx = class_index(S.repo)
    n = 0
    for name in sorted(idx):
        cls, rel = idx[name]
        f = next((x for x in cls.body if isinstance(x, ast.FunctionDef) and x.name == "get_maximum_lagrangian_grid_spacing"), None)
        if f is None or not any(isinstance(x, ast.Return) and x.value is not None for x in ast.walk(f)):
            continue
        n += 1
        attrs = sorted({x.attr for x in ast.walk(f) if isinstance(x, ast.Attribute)})
        ref = [a for a in attrs if a.startswith("rest_") or a.startswith("reference_") or a.endswith("_rest")]
        rep.ob("C10.d", "%s marker spacing comes from the current configuration" % name, not ref,
               "spacing is computed from %s (reference configuration)" % ref if ref else "uses %s" % attrs,
               key="C10.d|spacing|%s|%s" % (name, ref), nontrivial=False)
    if n < 6:
        raise Unsupported("expected the spacing methods of the forcing grids, found %d" % n)


def run(S, tier, rep):
    rep.rule_text = ("single-writer / effect / def-use rules: the interaction class is instantiated abstractly with a stub forcing grid; "
                     "its entry points are traced; stores into the integral, the flow velocity and instance attributes are enumerated; the "
                     "whole-array numba kernels are read as elementwise identities; the spread is classified as accumulate/assign")
    rep.explanation = ("by induction over the single writer, after any interleaving the integral is the Euler sum of dt_i * V_i and "
                       "evaluations leave it unchanged; the force is k*P + c*V with both coefficients scaled once")
    wrappers_forward_options(S, rep)
    broken_forwarding = any(not o["ok"] for o in rep.obligations)
    for dim in (2, 3):
        for reset in (True, False):
            try:
                check_instance(S, dim, reset, rep)
            except Unsupported:
                if not broken_forwarding:
                    raise
                # (a transposed constructor argument makes the abstract instance meaningless, e.g. a thread count used as a flag:
                # the forwarding violation above is the finding)
    who_may_write(S, rep)
    spacing_from_current_state(S, rep)
    marker_force_read_only(S, rep)
    rep.require_min("C10.g", 6)
    # the interpolated flow velocity is taken at the markers: an explicit coordinate shift of the Eulerian grid must reach the
    # communicator unchanged (decided with C06's rule on the forcing class)
    from ..report import Report as _R
    from .c06 import grid_agreement
    tmp = _R("C10", "other")
    grid_agreement(S, tmp)
    for o in tmp.obligations:
        if "explicit grid shift" in o["instance"]:
            o = dict(o, rule="C10.d")
            if "key" in o:
                o["key"] = o["key"].replace("C06.d", "C10.d")
            rep.obligations.append(o)
    rep.require_min("C10.a", 30)
    rep.require_min("C10.b", 20)
    rep.require_min("C10.d", 8)
    rep.require_min("C10.w", 3)
    rep.require_min("C10.e", 4)
