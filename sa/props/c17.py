"""C17: saved fields reload bit-exactly and mismatching files are rejected."""
from __future__ import annotations

from ..extlib import arr_valfn
from ..poly import PW, const, sym
from ..values import Alloc, Arr, DType, RaisedInAnalysed, Unsupported, simplify_scalar, to_pw

IOMOD = "sopht.utils.io"


def sym_array(S, label, shape, dtype=None):
    """array whose elements are distinct unknowns  label[i,j,...]"""
    a = S.array(label, shape, dtype)

    def valfn(idx, label=label):
        return sym("%s[%s]" % (label, ",".join(repr(simplify_scalar(to_pw(i))) for i in idx)))
    a.alloc.valfn = valfn
    return a


def size_array(S, label, dim):
    names = {2: ("ny", "nx"), 3: ("nz", "ny", "nx")}[dim]
    a = S.array(label, (dim,), DType("int64"))
    a.alloc.valfn = lambda idx, names=names: sym(names[simplify_scalar(idx[0])])
    return a


class Setup:
    pass


def make_io(S, dim, N, tag, with_fields=True, fields=None, grids=("g1", "g2"), params_tag=None, define_grid=True):
    """an IO object with symbolic arrays registered: Eulerian scalar `es`, vector `ev`; Lagrangian grid g1 with scalar `ls`
    and vector `lv`; grid g2 registered without fields"""
    I = S.I
    mod = S.module(IOMOD)
    I.skip_functions = {"generate_xdmf_eulerian", "generate_xdmf_lagrangian"}
    cls = mod.vars["IO"]
    io = I.call(cls, [], dict(dim=dim, real_dtype=S.real_t), None, mod)
    su = Setup()
    su.io, su.dim, su.N, su.tag = io, dim, N, tag
    pt = params_tag or "p"
    gs = size_array(S, "grid_size", dim)
    su.origin = sym_array(S, "origin_%s" % pt, (dim,))
    su.dx = sym_array(S, "dx_%s" % pt, (dim,))
    su.grid_size = gs
    if define_grid:
        I.call(I.get_attr(io, "define_eulerian_grid", None, mod), [], dict(origin=su.origin, dx=su.dx, grid_size=gs), None, mod)
    grid_shape = S.grid_shape(dim)
    want = fields if fields is not None else ("es", "ev", "ls", "lv")
    su.arrays = {}
    eul = {}
    if "es" in want:
        su.arrays["es"] = eul["es"] = sym_array(S, "es_" + tag, grid_shape)
    if "ev" in want:
        su.arrays["ev"] = eul["ev"] = sym_array(S, "ev_" + tag, (dim,) + tuple(grid_shape))
    if eul:
        I.call(I.get_attr(io, "add_as_eulerian_fields_for_io", None, mod), [], eul, None, mod)
    if "g1" in grids:
        su.arrays["g1"] = sym_array(S, "g1_" + tag, (dim, N))
        lag = {}
        if "ls" in want:
            su.arrays["ls"] = lag["ls"] = sym_array(S, "ls_" + tag, (N,))
        if "lv" in want:
            su.arrays["lv"] = lag["lv"] = sym_array(S, "lv_" + tag, (dim, N))
        I.call(I.get_attr(io, "add_as_lagrangian_fields_for_io", None, mod), [],
               dict(lagrangian_grid=su.arrays["g1"], lagrangian_grid_name="g1", lagrangian_grid_connect=True, **lag), None, mod)
    if "g2" in grids:
        su.arrays["g2"] = sym_array(S, "g2_" + tag, (dim, N))
        I.call(I.get_attr(io, "add_as_lagrangian_fields_for_io", None, mod), [],
               dict(lagrangian_grid=su.arrays["g2"], lagrangian_grid_name="g2"), None, mod)
    return su


def save(S, su, fname, t):
    I = S.I
    mod = S.module(IOMOD)
    n0 = len(I.trace)
    I.call(I.get_attr(su.io, "save", None, mod), [], dict(h5_file_name=fname, time=t), None, mod)
    return I.trace[n0:], I.h5_files[fname]


def load(S, su, fname):
    I = S.I
    mod = S.module(IOMOD)
    n0 = len(I.trace)
    ret = I.call(I.get_attr(su.io, "load", None, mod), [], dict(h5_file_name=fname), None, mod)
    return ret, I.trace[n0:]


def content(arr, idx):
    f = arr_valfn(arr)
    if f is None:
        return None
    try:
        return f(idx)
    except Unsupported:
        return None


def shapes_equal(a, b):
    return len(a) == len(b) and all(to_pw(x) == to_pw(y) for x, y in zip(a, b))


def round_trip(S, rep, dim, N, nlab):
    lab = "%dD N=%s" % (dim, nlab)
    src = make_io(S, dim, N, "src")
    t = sym("t_save")
    try:
        tr_save, model = save(S, src, "rt_%d_%s.h5" % (dim, nlab), t)
    except RaisedInAnalysed as ex:
        rep.ob("C17.a", lab + " save", False, "save raises %s" % ex, key="C17.a|%s|save-raises" % lab)
        return
    # ---- (e) purity of save
    src_ids = {a.alloc.id: k for k, a in src.arrays.items()}
    dirty = [src_ids[op.dst.alloc.id] for op in tr_save if op.kind == "SliceAssign" and op.dst.alloc.id in src_ids]
    dirty += [src_ids[op.arr.alloc.id] for op in tr_save if op.kind == "ElemAssign" and op.arr.alloc.id in src_ids]
    rep.ob("C17.e", lab + " save leaves the registered arrays untouched", not dirty, "save writes into %s" % dirty, key="C17.e|%s|%s" % (lab, dirty))
    # ---- (b) on-disk layout
    idx_g = (sym("@0"),) + tuple(sym("@%d" % (k + 1)) for k in range(dim))
    grid = S.grid_shape(dim)

    def ds(path):
        return model.datasets.get(path)

    d = ds("Eulerian/Scalar/es")
    ok = d is not None and shapes_equal(d.shape, (1,) + tuple(grid)) and content(d, idx_g) == content(src.arrays["es"], idx_g[1:]) if d is not None else False
    rep.ob("C17.b", lab + " Eulerian scalar layout", bool(ok), "Eulerian/Scalar/es is %s" % (None if d is None else (d.shape,)),
           key="C17.b|%s|es" % lab, sample={"case": lab, "dataset": "Eulerian/Scalar/es", "shape": str(None if d is None else d.shape)})
    for i in range(dim):
        d = ds("Eulerian/Vector/ev_%d" % i)
        ok = d is not None and shapes_equal(d.shape, (1,) + tuple(grid)) and content(d, idx_g) == content(src.arrays["ev"], (const(i),) + idx_g[1:])
        rep.ob("C17.b", lab + " Eulerian vector component %d layout" % i, bool(ok),
               "Eulerian/Vector/ev_%d is %s holding %r" % (i, None if d is None else d.shape, None if d is None else content(d, idx_g)),
               key="C17.b|%s|ev%d" % (lab, i))
    mk = (sym("@0"), sym("@1"))
    for g in ("g1", "g2"):
        d = ds("Lagrangian/%s/Grid" % g)
        ok = d is not None and shapes_equal(d.shape, (N, dim)) and content(d, mk) == content(src.arrays[g], (mk[1], mk[0]))
        rep.ob("C17.b", lab + " grid %s stored marker-major" % g, bool(ok),
               "Lagrangian/%s/Grid is %s holding %r" % (g, None if d is None else d.shape, None if d is None else content(d, mk)),
               key="C17.b|%s|grid-%s" % (lab, g))
    d = ds("Lagrangian/g1/Vector/lv")
    ok = d is not None and shapes_equal(d.shape, (N, dim)) and content(d, mk) == content(src.arrays["lv"], (mk[1], mk[0]))
    where = [p for p in model.datasets if p.endswith("/lv")]
    rep.ob("C17.b", lab + " Lagrangian vector stored marker-major (N, dim)", bool(ok),
           "vector field lv of shape (dim, N) is stored at %s with shape %s" % (where, [model.datasets[p].shape for p in where]),
           key="C17.b|add_as_lagrangian_fields_for_io|vector-layout|%s" % ("N==dim" if nlab == "dim" else "N"),
           sample={"case": lab, "stored_at": where})
    d = ds("Lagrangian/g1/Scalar/ls")
    ok = d is not None and shapes_equal(d.shape, (N,)) and content(d, (mk[0],)) == content(src.arrays["ls"], (mk[0],))
    rep.ob("C17.b", lab + " Lagrangian scalar layout", bool(ok), "Lagrangian/g1/Scalar/ls is %s" % (None if d is None else d.shape,),
           key="C17.b|%s|ls" % lab)
    rep.ob("C17.b", lab + " time stamp attribute", model.attrs.get("", {}).get("time") is t, "file attribute time = %r" % (model.attrs.get("", {}).get("time"),),
           key="C17.b|%s|time" % lab, nontrivial=False)
    # ---- (a) load into fresh arrays registered under the same names
    dst = make_io(S, dim, N, "dst")
    try:
        ret, tr_load = load(S, dst, "rt_%d_%s.h5" % (dim, nlab))
    except RaisedInAnalysed as ex:
        rep.ob("C17.a", lab + " load", False, "loading the file just saved raises %s" % ex, key="C17.a|%s|load-raises" % lab)
        return
    rep.ob("C17.a", lab + " time stamp returned", ret is t or (isinstance(ret, PW) and ret == t), "load returns %r" % (ret,), key="C17.a|%s|time" % lab,
           nontrivial=False)
    dst_ids = {a.alloc.id: k for k, a in dst.arrays.items()}
    assigns = {}
    for op in tr_load:
        if op.kind == "SliceAssign" and op.dst.alloc.id in dst_ids:
            assigns.setdefault(dst_ids[op.dst.alloc.id], []).append(op)
    for name, target in dst.arrays.items():
        ops = assigns.get(name, [])
        source = src.arrays[name]
        inst = "%s restore %s" % (lab, name)
        if not ops:
            rep.ob("C17.a", inst, False, "registered %s %s is never written by load" % ("grid" if name.startswith("g") else "field", name),
                   key="C17.a|load|not-restored|%s|%s" % (name, "N==dim" if nlab == "dim" else "N"))
            continue
        covered = set()
        bad = None
        for op in ops:
            dstv, srcv = op.dst, op.src
            if not isinstance(srcv, Arr):
                bad = "assigned from %r" % (srcv,)
                continue
            if not shapes_equal(dstv.shape, srcv.shape):
                bad = "shape %s assigned into view of shape %s" % (srcv.shape, dstv.shape)
                continue
            fixed = tuple(simplify_scalar(a[1]) for a in dstv.axes if a[0] == "i")
            covered.add(fixed)
            nd = dstv.ndim
            vidx = tuple(sym("@%d" % k) for k in range(nd))
            full, k = [], 0
            for a in dstv.axes:
                if a[0] == "i":
                    full.append(a[1])
                else:
                    full.append(a[1] + vidx[k])
                    k += 1
            got = content(srcv, vidx)
            want = content(source, tuple(full))
            if got is None or not (got == want):
                bad = "element %s receives %r, the saved array held %r there" % (tuple(full), got, want)
        if bad is None:
            lead = [a for a in target.axes]
            ncomp = 1
            if any(len(c) for c in covered):
                ncomp = simplify_scalar(target.shape[0])
                if covered != {(i,) for i in range(ncomp)}:
                    bad = "only components %s are restored" % sorted(covered)
            # dtype preserved: stores go through target[...] (in place)
        rep.ob("C17.a", inst, bad is None, bad or "every element receives the saved value (in place)", key="C17.a|%s|%s|%s" % (lab, name, (bad or "")[:100]),
               sample={"case": lab, "array": name, "assignments": len(ops)})


def expect_raise(S, rep, what, fn, key):
    try:
        fn()
    except RaisedInAnalysed as ex:
        rep.ob("C17.d", what, True, "raises %s" % ex.exc_type, key=key)
        return
    rep.ob("C17.d", what, False, "load returns normally although the file %s" % what.split(": ")[-1], key=key)


def rejection(S, rep, dim):
    N = sym("N")
    full_fields = ("es", "ev", "ls", "lv")
    base = "%dD" % dim
    for missing in full_fields:
        part = make_io(S, dim, N, "part", fields=tuple(f for f in full_fields if f != missing))
        fname = "rej_%d_%s.h5" % (dim, missing)
        save(S, part, fname, sym("t"))
        full = make_io(S, dim, N, "full")
        expect_raise(S, rep, "%s: lacks registered field %s" % (base, missing), lambda: load(S, full, fname), "C17.d|%s|missing-%s" % (base, missing))
    # a whole section missing: a file written by an IO that holds bodies only (a rod / forcing-grid file handed to the flow
    # reader), and a file written by an IO that holds flow fields only
    part = make_io(S, dim, N, "part", fields=("ls", "lv"), define_grid=False)
    save(S, part, "rej_%d_noeul.h5" % dim, sym("t"))
    full = make_io(S, dim, N, "full")
    expect_raise(S, rep, "%s: lacks every registered Eulerian field (no Eulerian section)" % base, lambda: load(S, full, "rej_%d_noeul.h5" % dim),
                 "C17.d|%s|missing-eulerian-section" % base)
    part = make_io(S, dim, N, "part", grids=(), fields=("es", "ev"))
    save(S, part, "rej_%d_nolag.h5" % dim, sym("t"))
    full = make_io(S, dim, N, "full")
    expect_raise(S, rep, "%s: lacks every registered Lagrangian grid (no Lagrangian section)" % base, lambda: load(S, full, "rej_%d_nolag.h5" % dim),
                 "C17.d|%s|missing-lagrangian-section" % base)
    # missing grid that has fields
    part = make_io(S, dim, N, "part", grids=("g2",), fields=("es", "ev"))
    save(S, part, "rej_%d_g1.h5" % dim, sym("t"))
    full = make_io(S, dim, N, "full")
    expect_raise(S, rep, "%s: lacks registered grid g1" % base, lambda: load(S, full, "rej_%d_g1.h5" % dim), "C17.d|%s|missing-grid-g1" % base)
    # missing grid that was registered without fields, in an IO whose only Lagrangian registrations are field-less grids
    part = make_io(S, dim, N, "part", grids=(), fields=("es", "ev"))
    save(S, part, "rej_%d_g2.h5" % dim, sym("t"))
    only = make_io(S, dim, N, "only", grids=("g2",), fields=("es", "ev"))
    expect_raise(S, rep, "%s: lacks a grid registered without fields" % base, lambda: load(S, only, "rej_%d_g2.h5" % dim),
                 "C17.d|load|fieldless-grid-not-validated")
    # field-less grid round trip
    src = make_io(S, dim, N, "srcg", grids=("g2",), fields=("es",))
    save(S, src, "rt_%d_g2.h5" % dim, sym("t"))
    dst = make_io(S, dim, N, "dstg", grids=("g2",), fields=("es",))
    try:
        ret, tr = load(S, dst, "rt_%d_g2.h5" % dim)
        restored = any(op.kind == "SliceAssign" and op.dst.alloc.id == dst.arrays["g2"].alloc.id for op in tr)
        rep.ob("C17.a", "%s grid registered without fields is restored" % base, restored,
               "the grid is saved but load never writes it back", key="C17.a|load|fieldless-grid-not-restored")
    except RaisedInAnalysed as ex:
        rep.ob("C17.a", "%s grid registered without fields is restored" % base, False, "load raises %s" % ex, key="C17.a|load|fieldless-grid-raises")
    # parameter mismatches
    for which in ("origin", "dx"):
        a = make_io(S, dim, N, "pa", params_tag="A")
        save(S, a, "par_%d_%s.h5" % (dim, which), sym("t"))
        b = make_io(S, dim, N, "pb", params_tag="A")
        other = sym_array(S, "%s_B" % which, (dim,))
        S.I.call(S.I.get_attr(b.io, "define_eulerian_grid", None, S.module(IOMOD)), [],
                 dict(origin=other if which == "origin" else b.origin, dx=other if which == "dx" else b.dx, grid_size=b.grid_size), None, S.module(IOMOD))
        expect_raise(S, rep, "%s: Eulerian %s differs" % (base, which), lambda: load(S, b, "par_%d_%s.h5" % (dim, which)), "C17.d|%s|param-%s" % (base, which))
    a = make_io(S, dim, N, "pa", params_tag="A")
    save(S, a, "par_%d_gs.h5" % dim, sym("t"))
    b = make_io(S, dim, N, "pb", params_tag="A")
    gs2 = S.array("grid_size_other", (dim,), DType("int64"))
    names = {2: ("ny", "nx2"), 3: ("nz", "ny", "nx2")}[dim]
    gs2.alloc.valfn = lambda idx, names=names: sym(names[simplify_scalar(idx[0])])
    b.io.attrs["eulerian_grid_size"] = gs2
    expect_raise(S, rep, "%s: Eulerian grid size differs" % base, lambda: load(S, b, "par_%d_gs.h5" % dim), "C17.d|%s|param-grid_size" % base)


def run(S, tier, rep):
    rep.rule_text = ("symbolic round trip: the IO class is interpreted over an abstract HDF5 tree with arrays of distinct unknown elements; "
                     "save builds the tree (layout obligations on paths, shapes and element maps), load into fresh arrays must assign every "
                     "element its saved value through in-place stores; rejection cases are files saved by an IO lacking one registration "
                     "or with different grid parameters")
    rep.explanation = ("element maps are compared as functions of symbolic indices, so the verdict covers every content (NaN/inf included: "
                       "no arithmetic touches the data), every marker count (symbolic N and the N == dim corner) and both dimensions")
    rep.assumptions = rep.assumptions + ["h5py stores and returns array data bit-exactly; np.allclose of different unknown arrays is False"]
    for dim in (2, 3):
        round_trip(S, rep, dim, sym("N"), "N")
        round_trip(S, rep, dim, dim, "dim")
        rejection(S, rep, dim)
    derived_classes(S, rep)
    eulerian_convenience_class(S, rep)
    unnamed_grids(S, rep)
    from .c10 import wrappers_forward_options
    wrappers_forward_options(S, rep, rule="C17.w", family_root="IO", min_found=2)
    rep.require_min("C17.a", 22)
    rep.require_min("C17.g", 12)
    rep.require_min("C17.b", 30)
    rep.require_min("C17.d", 16)


def unnamed_grids(S, rep, rule="C17.a"):
    """grids registered without a name get distinct default names: otherwise a later grid silently replaces an earlier one in
    the registry that save and load iterate, and its fields are neither written nor restored"""
    I = S.I
    mod = S.module(IOMOD)
    I.skip_functions = {"generate_xdmf_eulerian", "generate_xdmf_lagrangian"}
    cls = mod.vars["IO"]
    for dim in (2, 3):
        io = I.call(cls, [], dict(dim=dim, real_dtype=S.real_t), None, mod)
        grids = [sym_array(S, "ug%d_%d" % (k, dim), (dim, sym("N"))) for k in range(4)]
        for g in grids:
            I.call(I.get_attr(io, "add_as_lagrangian_fields_for_io", None, mod), [], dict(lagrangian_grid=g), None, mod)
        reg = io.attrs.get("lagrangian_grids")
        names = list(reg.keys()) if isinstance(reg, dict) else None
        kept = [v.alloc.id for v in reg.values() if isinstance(v, Arr)] if isinstance(reg, dict) else []
        ok = names is not None and len(names) == len(grids) and all(g.alloc.id in kept for g in grids)
        rep.ob(rule, "%dD four grids registered without a name stay four grids" % dim, ok,
               "registry holds %s for 4 registered grids" % (names,), key="%s|unnamed|%d|%s" % (rule, dim, names), nontrivial=False)


def eulerian_convenience_class(S, rep):
    """EulerianFieldIO derives the grid parameters that `load` validates from the coordinate field: they must describe the
    grid in the array's own axis order (z, y, x), otherwise a file of a shifted / different grid is accepted (or a matching one
    refused by a plain IO registered with the true parameters)"""
    import re
    I = S.I
    mod = S.module(IOMOD)
    I.skip_functions = {"generate_xdmf_eulerian", "generate_xdmf_lagrangian"}
    cls = mod.vars.get("EulerianFieldIO")
    if cls is None:
        raise Unsupported("anchor vanished: EulerianFieldIO")
    for dim in (2, 3):
        lab = "EulerianFieldIO %dD" % dim
        shape = tuple(S.grid_shape(dim))
        pos = sym_array(S, "position", (dim,) + shape)
        pos.alloc.valfn = None          # coordinates are data of the caller: only reductions over named components are tracked
        es = sym_array(S, "es_conv%d" % dim, shape)
        try:
            io = I.call(cls, [], dict(position_field=pos, eulerian_fields_dict={"es": es}), None, mod)
        except RaisedInAnalysed as ex:
            rep.ob("C17.g", lab + " construction", False, "constructor raises %s" % ex, key="C17.g|%d|ctor" % dim)
            continue
        got = {}
        for k in ("eulerian_origin", "eulerian_dx", "eulerian_grid_size"):
            v = io.attrs.get(k)
            vf = arr_valfn(v) if isinstance(v, Arr) else None
            got[k] = [vf((const(i),)) for i in range(dim)] if vf is not None else None
        # origin: component k (array axis k) is the minimum of coordinate dim-1-k
        for k in range(dim):
            coord = dim - 1 - k
            g = got["eulerian_origin"][k] if got["eulerian_origin"] else None
            m = re.fullmatch(r"amin\(position\[(\d+),[:,]*\]\)", repr(g)) if g is not None else None
            ok = m is not None and int(m.group(1)) == coord
            rep.ob("C17.g", "%s origin of array axis %d is the least %s coordinate" % (lab, k, "xyz"[coord]), ok,
                   "origin[%d] = %r, documented amin(position[%d])" % (k, g, coord), key="C17.g|%d|origin|%d|%r" % (dim, k, g),
                   sample={"class": "EulerianFieldIO", "dim": dim, "axis": k, "origin": repr(g)})
            gs = got["eulerian_grid_size"][k] if got["eulerian_grid_size"] else None
            rep.ob("C17.g", "%s grid size of array axis %d" % (lab, k), gs is not None and to_pw(gs) == to_pw(shape[k]),
                   "grid_size[%d] = %r, array extent %r" % (k, gs, shape[k]), key="C17.g|%d|size|%d|%r" % (dim, k, gs), nontrivial=False)
        # spacing: one value for every axis, the difference of two consecutive x coordinates
        dxs = got["eulerian_dx"]
        ok = dxs is not None and all(d == dxs[0] for d in dxs)
        src = None
        if ok:
            names = sorted(a[1] for a in to_pw(dxs[0]).all_atoms() if a[0] == "s")
            for al_name in {n.split("[")[0] for n in names}:
                # the flattened array the two elements are read from must be the x component of the coordinate field
                for op in I.trace:
                    if op.kind == "ElemRead" and op.arr.alloc.label == al_name:
                        der, root = getattr(op.arr.alloc, "derivation", None), op.arr
                        while der is not None and der[0] in ("reshape", "copy", "astype", "maybe_copy"):
                            root = der[1][0]
                            der = getattr(root.alloc, "derivation", None)
                        src = root
            fixed = [simplify_scalar(a[1]) for a in src.axes if a[0] == "i"] if isinstance(src, Arr) else None
            ok = isinstance(src, Arr) and src.alloc.id == pos.alloc.id and fixed == [0] and \
                to_pw(dxs[0]) == sym("%s[1]" % names[0].split("[")[0]) - sym("%s[0]" % names[0].split("[")[0])
        rep.ob("C17.g", lab + " spacing", bool(ok), "dx = %r read from %s" % (dxs, getattr(src, "describe", lambda: src)()),
               key="C17.g|%d|dx|%r" % (dim, dxs), nontrivial=False)


def derived_classes(S, rep):
    """CosseratRodIO / EulerianFieldIO register through the same two methods and add no file access of their own"""
    import ast
    import os
    tree = ast.parse(open(os.path.join(S.repo, "sopht", "utils", "io.py")).read())
    for cls in [n for n in tree.body if isinstance(n, ast.ClassDef) and n.name in ("CosseratRodIO", "EulerianFieldIO")]:
        uses_h5 = [n for n in ast.walk(cls) if isinstance(n, ast.Attribute) and isinstance(n.value, ast.Name) and n.value.id == "h5py"]
        rep.ob("C17.c", "%s has no file access of its own" % cls.name, not uses_h5, "uses h5py directly", key="C17.c|%s|h5" % cls.name, nontrivial=False)
        overrides = [f.name for f in cls.body if isinstance(f, ast.FunctionDef)]
        bad = [m for m in overrides if m in ("load", "_save", "add_as_lagrangian_fields_for_io", "add_as_eulerian_fields_for_io")]
        rep.ob("C17.c", "%s keeps the base save/load" % cls.name, not bad, "overrides %s" % bad, key="C17.c|%s|overrides|%s" % (cls.name, bad), nontrivial=False)
        # arrays a derived class registers with the IO layer are refreshed IN PLACE afterwards: rebinding the attribute leaves the
        # registered array (the one save writes and load fills) behind
        init = next((x for x in cls.body if isinstance(x, ast.FunctionDef) and x.name == "__init__"), None)
        registered = set()
        for n in ast.walk(init) if init is not None else []:
            if isinstance(n, ast.Call) and isinstance(n.func, ast.Attribute) and n.func.attr.startswith("add_as_") and n.func.attr.endswith("_for_io"):
                for v in list(n.args) + [k.value for k in n.keywords]:
                    if isinstance(v, ast.Attribute) and isinstance(v.value, ast.Name) and v.value.id == "self":
                        registered.add(v.attr)
        for f in [x for x in cls.body if isinstance(x, ast.FunctionDef) and x.name != "__init__"]:
            for st in ast.walk(f):
                tg = st.targets if isinstance(st, ast.Assign) else [st.target] if isinstance(st, (ast.AugAssign, ast.AnnAssign)) else []
                for t in tg:
                    if isinstance(t, ast.Attribute) and isinstance(t.value, ast.Name) and t.value.id == "self" and t.attr in registered \
                            and not isinstance(st, ast.AugAssign):
                        rep.ob("C17.c", "%s.%s keeps the registered array" % (cls.name, f.name), False,
                               "self.%s is registered with the IO layer in __init__ and rebound here (line %d): the registered array is no longer the one that is refreshed" % (t.attr, st.lineno),
                               key="C17.c|%s|%s|rebinds|%s" % (cls.name, f.name, t.attr))
        rep.ob("C17.c", "%s registers %d of its own arrays" % (cls.name, len(registered)), True, "registered: %s" % sorted(registered), key="C17.c|%s|registered" % cls.name, nontrivial=False)
        if "save" in overrides:
            f = next(x for x in cls.body if isinstance(x, ast.FunctionDef) and x.name == "save")
            calls = [ast.unparse(n.func) for n in ast.walk(f) if isinstance(n, ast.Call)]
            rep.ob("C17.c", "%s.save ends in the base writer" % cls.name, "self._save" in calls, "calls %s" % calls, key="C17.c|%s|save|%s" % (cls.name, calls))
