"""C13: every public grid kernel computes its documented formula on its documented region only."""
from __future__ import annotations

from ..report import Report
from ..specs.kernels import CATALOGUE, Straddle, Full, IntRing, Zones
from ..store import interior_point, roots_of, is_abstract
from ..specs.ops import at, zero
from ..summaries import expr_at_cells
from .common import entry_summary, short
from ..pwtools import pw_equal
from ..regions import Box, lt

CASE_SPLIT = True     # orderings between different grid sizes are analysed case by case (regions.run_under_size_cases)


from .common import pin_indices, refine, match_spec, filter_orders, entry_by_label


def select(tier):
    for e in CATALOGUE:
        if tier == "quick":
            if e.opts.get("width", 1) > 2 and "penalise_field_boundary" in e.gen:
                continue
            if e.opts.get("width", 1) > 2 and "at_boundaries" in e.gen:
                continue
        if "filter_order" in e.opts and e.opts["filter_order"] not in filter_orders(tier, e.opts.get("field_type", "scalar")):
            continue
        yield e


def check_entry(S, e, rep, pid="C13", rules=("a", "b", "c", "h")):
    sm, raised, kwargs, extra = entry_summary(S, e)
    res = judge_summary(S, e, rep, pid, rules, e.label(), sm, raised, extra)
    if "h" in rules and res is not None and res.raised is None and not res.problems and not res.unwritten:
        # the documented value is a function of the arguments of THIS call: the same object called again (whatever the
        # generator keeps between calls is then in its after-first-call state) must do the same
        from .common import second_call_summary
        sm2 = second_call_summary(S, e)
        if sm2 is None:
            rep.ob(pid + ".h", "%s second call" % e.label(), True, "a second call on the same generated kernel performs exactly the effects of the first",
                   key="%s.h|%s" % (pid, e.label()), nontrivial=False)
        else:
            judge_summary(S, e, rep, pid, tuple(r for r in rules if r != "h"), e.label() + " [second call on the same generated kernel]", sm2, None, extra)
    return res


def judge_summary(S, e, rep, pid, rules, lab, sm, raised, extra):
    if sm is None or sm.raised is not None:
        ex = raised or sm.raised
        rep.ob(pid + ".call", lab, False, "the generator / kernel call raises: %s" % ex,
               key="%s.call|%s|%s" % (pid, lab, ex.exc_type if hasattr(ex, "exc_type") else "raise"))
        return None
    for p in sm.problems:
        kind = getattr(p, "kind", None) or getattr(p, "pkind", "problem")
        rep.ob(pid + ".call", lab, False, "%s: %s (at %s)" % (kind, p.msg, p.where), key="%s.call|%s|%s|%s" % (pid, lab, kind, p.msg[:80]))
    if sm.problems:
        return sm
    if sm.unwritten:
        for name in sm.unwritten:
            rep.ob(pid + ".a", "%s:%s" % (lab, name), False, "documented output %s is written by no kernel launch or store of the call (%s)" % (name, e.doc),
                   key="%s.a|%s|%s|never-written" % (pid, lab, name))
        return sm
    exp = e.expected()
    for name, spec in exp.items():
        if name not in sm.final:
            rep.ob(pid + ".a", "%s:%s" % (lab, name), False, "documented output %s is not an argument array" % name)
            continue
        cells = sm.final[name]
        fb = sm.full[name]
        if isinstance(spec, tuple) and spec[0] == "deep-interior":
            got = expr_at_cells(cells, interior_point(fb))
            ok = got is not None and pw_equal(got, spec[1])
            rep.ob(pid + ".a", "%s:%s" % (lab, name), ok,
                   "deep-interior value differs from the documented form (%s): got %s" % (e.doc, short(got)) if not ok else e.doc,
                   key="%s.a|%s|%s|%s" % (pid, lab, name, short(got, 200)),
                   sample={"kernel": lab, "output": name, "region": "deep interior", "documented": e.doc})
            # region: the outermost ring of the output is outside the documented region and must be left as it was
            inner = fb.shrink(1)
            ringbad = None
            for box, x in cells:
                if is_abstract(x):
                    continue        # boundary band of an iterated stencil kept as a dependence set: not decided here (C19.d, C13.c)
                if inner.intersect(box).is_empty() and not pw_equal(x, at(name, zero(fb.rank))):
                    ringbad = "ring cell %r holds %s, documented: unchanged" % (box, short(x, 200))
                    break
            if "b" in rules:
                rep.ob(pid + ".b", "%s:%s boundary ring untouched" % (lab, name), ringbad is None, ringbad or "outermost ring unchanged",
                       key="%s.b|%s|%s|ring|%s" % (pid, lab, name, (ringbad or "")[:120]), nontrivial=False)
            continue
        bad_formula, bad_region = match_spec(cells, fb, spec)
        if "a" in rules:
            rep.ob(pid + ".a", "%s:%s" % (lab, name), bad_formula is None, bad_formula or e.doc,
                   key="%s.a|%s|%s|%s" % (pid, lab, name, (bad_formula or "")[:160]),
                   sample={"kernel": lab, "output": name, "pieces": len(cells), "documented": e.doc})
        if "b" in rules:
            rep.ob(pid + ".b", "%s:%s" % (lab, name), bad_region is None, bad_region or spec.describe(),
                   key="%s.b|%s|%s|%s" % (pid, lab, name, (bad_region or "")[:160]))
    if "c" in rules:
        extra_labels = {a.alloc.label for a in extra}
        # the documented value is a function of the inputs: no output cell may hold what a scratch array contained before
        for name in exp:
            if name not in sm.final or name.split("[")[0].split(".")[0] in extra_labels:
                continue
            roots = roots_of(sm.store, [x for _, x in sm.final[name]])
            stale = sorted(r for r in roots if r.split("[")[0].split(".")[0].split("'")[0] in extra_labels)
            rep.ob(pid + ".c", "%s:%s independent of scratch contents" % (lab, name), not stale,
                   "output depends on what %s held before the call" % stale if stale else "depends on the input arrays only",
                   key="%s.c|%s|%s|stale|%s" % (pid, lab, name, stale), nontrivial=False)
        for name in sm.final:
            base = name.split("[")[0].split(".")[0]
            if name in exp or base in extra_labels:
                continue
            ok = sm.unchanged(name)
            rep.ob(pid + ".c", "%s:%s" % (lab, name), ok, "input array %s is modified" % name if not ok else "read-only",
                   key="%s.c|%s|%s" % (pid, lab, name), nontrivial=False)
        for label in sm.extra_written:
            if label in extra_labels:
                continue
            rep.ob(pid + ".c", "%s:%s" % (lab, label), False, "writes array %s which is neither an argument nor declared scratch" % label,
                   key="%s.c|%s|extra:%s" % (pid, lab, label))
    return sm


def entry_worker(S, label, rep):
    check_entry(S, entry_by_label(label), rep)


def run(S, tier, rep):
    rep.rule_text = ("one instance per (public generator x option combination x output array): the resolved summary of the "
                     "returned callable (symbolic execution of its op trace over arbitrary array contents, wrapper plumbing "
                     "inlined) must equal the documented closed form on the documented region; other arguments unchanged")
    rep.explanation = ("C13.a formula equality of normal forms; C13.b region (interior/ring/zones) with asymptotic bound ordering; "
                       "C13.c write set; C13.call: the call itself must not raise (arity/broadcast/shape); C13.h the same generated "
                       "kernel called a second time performs the effects of the first call, or else its second-call summary is judged by a/b/c again")
    gens = set()
    entries = list(select(tier))
    from .simtools import parallel_over
    parallel_over(S, rep, "sa.props.c13", "entry_worker", [e.label() for e in entries])
    for e in entries:
        gens.add(e.gen)
    n = len(entries)
    rep.note("catalogue_entries", n)
    rep.note("generators", sorted(gens))
    rep.require_min("C13.a", 60)
