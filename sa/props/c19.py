"""C19: stabilising operators never amplify and leave admissible states fixed."""
from __future__ import annotations

from fractions import Fraction as Fr

from ..algtools import diff_rat
from ..numba_fx import elementwise_forms
from ..poly import PW, Cond, Poly, Rat, as_poly, as_rat, const, fld, fn, fn_arg, sym, PI
from ..pwtools import pieces_1d, pw_equal
from ..regions import concrete_extent
from ..signs import sign_of_poly, sign_of_rat
from ..specs.ops import comp, zero, at
from ..store import roots_of, interior_point
from ..values import Unsupported
from .common import find_entry, interiors, entry_summary, short, CATALOGUE

CASE_SPLIT = True     # orderings between different grid sizes are analysed case by case (regions.run_under_size_cases)


# ---------------------------------------------------------------------------- (a) Brinkmann
def convexity(rep, inst, e, field, target, assume):
    """e must be a*field + b*target with a, b >= 0, a + b == 1, = field when the indicator is 0,
    -> target as the penalty grows"""
    e = PW.of(e)
    if not e.is_leaf():
        rep.ob("C19.a", inst, False, "penalised value is piecewise", key="C19.a|%s|pw" % inst)
        return
    r = e.leaf
    num, den = r.num, r.den
    a = Rat(num.coeff(field, 1), den)
    b = Rat(num.coeff(target, 1), den)
    rest = Rat(num, den) - a * Rat(Poly.atom(field)) - b * Rat(Poly.atom(target))
    ok_lin = rest.is_zero() and field not in a.all_atoms() | b.all_atoms() and target not in a.all_atoms() | b.all_atoms()
    sa, sb = sign_of_rat(a, assume), sign_of_rat(b, assume)
    ok_sign = sa in ("+", "0+") and sb in ("+", "0+", "0")
    ok_sum = (a + b) == Rat(Poly.const(1))
    detail = "a=%r b=%r" % (a, b)
    rep.ob("C19.a", inst + " convex combination", ok_lin and ok_sign and ok_sum,
           "not a convex combination of field and target: %s (signs %s,%s, a+b=%r, remainder %r)" % (detail, sa, sb, a + b, rest)
           if not (ok_lin and ok_sign and ok_sum) else "out = a*f + b*t, a,b >= 0, a+b = 1 (%s)" % detail,
           key="C19.a|%s|convex|%s" % (inst, short(r, 120)), sample={"operator": inst, "a": repr(a), "b": repr(b)})
    return a, b


def brinkmann(S, rep):
    lam = ("s", "penalty_factor")
    for dim in (2, 3):
        for ft in ("scalar", "vector"):
            ex, sm = interiors(S, find_entry("gen_brinkmann_penalise_pyst_kernel_%dd" % dim, field_type=ft))
            outs = ["penalised_field"] if ft == "scalar" else [comp("penalised_vector_field", c) for c in range(dim)]
            for c, o in enumerate(outs):
                f = ("f", "field" if ft == "scalar" else comp("vector_field", c), zero(dim))
                t = ("f", "penalty_field" if ft == "scalar" else comp("penalty_vector_field", c), zero(dim))
                chi = ("f", "char_field", zero(dim))
                inst = "brinkmann_penalise_%dd %s %s" % (dim, ft, o)
                ab = convexity(rep, inst, ex[o], f, t, {chi: "0+", lam: "0+"})
                limits(rep, inst, ex[o], f, t, chi, lam)
    for ft in ("scalar", "vector"):
        ex, sm = interiors(S, find_entry("gen_brinkmann_penalise_vs_fixed_val_pyst_kernel_2d", field_type=ft))
        outs = ["penalised_field"] if ft == "scalar" else [comp("penalised_vector_field", c) for c in range(2)]
        for c, o in enumerate(outs):
            f = ("f", "field" if ft == "scalar" else comp("vector_field", c), zero(2))
            t = ("s", "t" if ft == "scalar" else "t%d" % c)
            chi = ("f", "char_field", zero(2))
            inst = "brinkmann_penalise_vs_fixed_val_2d %s %s" % (ft, o)
            convexity(rep, inst, ex[o], f, t, {chi: "0+", lam: "0+"})
            limits(rep, inst, ex[o], f, t, chi, lam)
    # Lagrangian variant (numba, whole-array arithmetic)
    mod = S.module("sopht.numeric.immersed_boundary_ops.experimental.BrinkmannBoundaryForcing")
    cls = mod.vars.get("BrinkmannBoundaryForcing")
    if cls is None or "brinkmann_penalise_lag_grid_velocity_field" not in cls.attrs:
        raise Unsupported("anchor vanished: BrinkmannBoundaryForcing.brinkmann_penalise_lag_grid_velocity_field")
    nj = cls.attrs["brinkmann_penalise_lag_grid_velocity_field"]
    nj = getattr(nj, "fn", nj)
    forms = elementwise_forms(nj)
    e = forms.get("lag_grid_penalised_velocity_field")
    if e is None:
        raise Unsupported("Lagrangian Brinkmann kernel does not assign lag_grid_penalised_velocity_field")
    f, t = ("s", "lag_grid_flow_velocity_field"), ("s", "lag_grid_body_velocity_field")
    inst = "brinkmann_penalise_lag_grid_velocity_field"
    convexity(rep, inst, e, f, t, {("s", "brinkmann_coeff"): "0+", ("s", "dt"): "0+", f: "?", t: "?"})
    limits(rep, inst, e, f, t, ("s", "dt"), ("s", "brinkmann_coeff"))


def limits(rep, inst, e, f, t, chi, lam):
    r = PW.of(e).leaf
    at0 = r.subs({chi: Poly()})
    ok0 = at0 == Rat(Poly.atom(f))
    rep.ob("C19.a", inst + " indicator 0", ok0, "with zero indicator the result is %r, not the field" % (at0,) if not ok0 else "equals the field",
           key="C19.a|%s|chi0|%s" % (inst, short(at0, 80)), nontrivial=False)
    # penalty -> infinity: ratio of the leading coefficients in lam of the target weight
    b_num, b_den = r.num.coeff(t, 1), r.den
    dn, dd = b_num.degree_in(lam), b_den.degree_in(lam)
    lim_ok = dn == dd and dn > 0 and (b_num.coeff(lam, dn) - b_den.coeff(lam, dd)).is_zero()
    a_num = r.num.coeff(f, 1)
    lim_ok = lim_ok and a_num.degree_in(lam) < dd
    rep.ob("C19.a", inst + " penalty -> infinity", lim_ok,
           "target weight does not tend to 1 (degrees %d/%d in the penalty)" % (dn, dd) if not lim_ok else "tends to the target",
           key="C19.a|%s|limit|%d/%d" % (inst, dn, dd), nontrivial=False)


# ---------------------------------------------------------------------------- (b) smooth Heaviside
def heaviside(S, rep):
    w = sym("blend_width")
    for dim in (2, 3):
        ex, sm = interiors(S, find_entry("gen_char_func_from_level_set_via_sine_heaviside_pyst_kernel_%dd" % dim))
        e = ex["char_func_field"]
        inst = "sine heaviside %dD" % dim
        res = pieces_1d(e)
        if res is None:
            rep.ob("C19.b", inst, False, "cannot cut the level-set axis into ordered regions: %s" % short(e), key="C19.b|%d|regions" % dim)
            continue
        var, ths, pieces = res
        phi = PW.of(Poly.atom(var))
        want_ths = [(-w).leaf, w.leaf]
        ths_nz = [t for t in ths if not t.is_zero()]
        ok = len(ths_nz) == 2 and ths_nz[0] == want_ths[0] and ths_nz[1] == want_ths[1]
        rep.ob("C19.b", inst + " thresholds", ok, "thresholds %r" % (ths,), key="C19.b|%d|ths|%r" % (dim, ths))
        if not ok:
            continue
        blend_leaf = None
        allok = True
        for reg, leaf in pieces:
            kind = reg[0]
            if kind == "lt":
                good = leaf.is_zero()
                what = "0 below -w"
            elif kind == "gt":
                good = leaf == Rat(Poly.const(1))
                what = "1 above w"
            elif kind == "eq":
                v = leaf.subs({var: reg[1]})
                if reg[1] == want_ths[0]:
                    good, what = v.is_zero(), "H(-w) = 0"
                elif reg[1] == want_ths[1]:
                    good, what = v == Rat(Poly.const(1)), "H(w) = 1"
                else:
                    good, what = v == Rat(Poly.const(Fr(1, 2))), "H(0) = 1/2"
            else:
                what = "blend region"
                if blend_leaf is None:
                    blend_leaf = leaf
                good = leaf == blend_leaf
            rep.ob("C19.b", "%s %s %r" % (inst, what, reg[1:]), good, "value %r" % (leaf,) if not good else what,
                   key="C19.b|%d|%s|%s" % (dim, what, short(leaf, 80)), nontrivial=kind in ("eq", "between"))
            allok = allok and good
        if blend_leaf is None:
            continue
        # monotone: dH/dphi == (1 + cos(pi phi / w)) / (2 w)  (>= 0 since cos >= -1)
        d = diff_rat(blend_leaf, var)
        verdict, why = nonneg_affine_in_cos(d)
        if verdict is None:
            raise Unsupported("cannot decide the sign of dH/dphi = %r (%s)" % (d, why))
        rep.ob("C19.b", inst + " non-decreasing", verdict, "dH/dphi = %r: %s" % (d, why),
               key="C19.b|%d|mono|%s" % (dim, short(d, 80)))
        # symmetry H(phi) + H(-phi) == 1 on the blend region (outer regions: 0 + 1)
        mirrored = blend_leaf.subs({var: -Poly.atom(var)})
        rep.ob("C19.b", inst + " H(phi) + H(-phi) = 1", (blend_leaf + mirrored) == Rat(Poly.const(1)),
               "H(phi)+H(-phi) = %r" % (blend_leaf + mirrored,), key="C19.b|%d|sym" % dim)


def nonneg_affine_in_cos(d):
    """d = (alpha + beta*cos(g)) / den with den > 0, alpha, beta constants: >= 0 everywhere iff alpha >= |beta|.
    Returns (True/False/None, reason)."""
    d = as_rat(d)
    sd = sign_of_poly(d.den)
    if sd not in ("+", "-"):
        return None, "denominator of unknown sign"
    num = d.num if sd == "+" else -d.num
    alpha, beta = Fr(0), Fr(0)
    scale = None
    for m, c in num.t.items():
        fns = [a for a, e in m if a[0] == "fn"]
        rest = tuple((a, e) for a, e in m if a[0] != "fn")
        if any(a[0] == "f" for a, _ in rest):
            return None, "field-dependent coefficient"
        # common positive symbolic factor is allowed
        key = rest
        if scale is None:
            scale = key
        elif scale != key:
            return None, "coefficients are not commensurable"
        if not fns:
            alpha += c
        elif len(fns) == 1 and fns[0][1] == "cos" and dict(m)[fns[0]] == 1:
            beta += c
        else:
            return None, "term %r" % (m,)
    if scale is not None and sign_of_poly(Poly({scale: Fr(1)})) != "+":
        return None, "scale factor of unknown sign"
    if alpha >= abs(beta):
        return True, "alpha=%s >= |beta|=%s" % (alpha, abs(beta))
    return False, "derivative takes negative values: alpha=%s < |beta|=%s" % (alpha, abs(beta))


# ---------------------------------------------------------------------------- (c) boundary-zone damping
def zone_damping(S, rep, tier):
    widths = (0, 1, 2) if tier == "quick" else (0, 1, 2, 3, 4, 5, 6)
    for e in CATALOGUE:
        if "penalise_field_boundary" not in e.gen or e.opts["width"] not in widths:
            continue
        sm, raised, _, _ = entry_summary(S, e)
        lab = e.label()
        if sm is None or sm.raised is not None or sm.problems:
            rep.ob("C19.c", lab, False, "zone damping cannot be applied: %s %s" % (raised or sm.raised, [p.msg for p in (sm.problems if sm else [])][:1]),
                   key="C19.c|%s|raises" % lab)
            continue
        w = e.opts["width"]
        for name, cells in sm.final.items():
            if name.startswith(("x_grid", "y_grid", "z_grid")):
                continue
            fb = sm.full[name]
            bad = None
            ncells = 0
            for box, ex in cells:
                cls = []
                for (lo, hi), (flo, fhi) in zip(box.iv, fb.iv):
                    from ..regions import le
                    if w and le(flo, lo) and le(hi, flo + w):
                        cls.append("lo")
                    elif w and le(fhi - w, lo) and le(hi, fhi):
                        cls.append("hi")
                    elif le(flo + w, lo) and le(hi, fhi - w):
                        cls.append("mid")
                    else:
                        cls.append("?")
                if all(c == "mid" for c in cls):
                    if not (ex == at(name, zero(e.dim))):
                        bad = "cell %r outside the zone is modified: %s" % (box, short(ex, 200))
                    continue
                if "?" in cls:
                    if not (ex == at(name, zero(e.dim))):
                        bad = "cell %r straddling the zone boundary is modified" % (box,)
                    continue
                # zone cell: value = (one field atom pinned on the inner edge) * factor, factor in [0, 1)
                r = ex.leaf if ex.is_leaf() else None
                fatoms = [a for a in ex.all_atoms() if a[0] == "f"]
                if r is None or len(fatoms) != 1 or fatoms[0][1] != name:
                    bad = "zone cell %r is not a multiple of one field value: %s" % (box, short(ex, 200))
                    continue
                fa = fatoms[0]
                factor = r / Rat(Poly.atom(fa))
                if fa in factor.all_atoms():
                    bad = "zone cell %r is not linear in the field: %s" % (box, short(ex, 200))
                    continue
                # inner-edge pinning
                for k, c in enumerate(cls):
                    o = fa[2][k]
                    if c == "lo":
                        good = (isinstance(o, tuple) and o[1] == Poly.const(w - 1)) or (isinstance(o, int) and concrete_extent(box.extent(k)) == 1
                                                                                           and (box.iv[k][0] + o).poly() == Poly.const(w - 1))
                    elif c == "hi":
                        edge = (fb.iv[k][1] - w).poly()
                        good = (isinstance(o, tuple) and o[1] == edge) or (isinstance(o, int) and concrete_extent(box.extent(k)) == 1
                                                                           and (box.iv[k][0] + o).poly() == edge)
                    else:
                        good = o == 0
                    if not good:
                        bad = "zone cell %r takes its value from offset %r along axis %d, not from the zone's inner edge" % (box, o, k)
                # factor per concrete layer
                import itertools
                rngs = []
                for k, c in enumerate(cls):
                    if c == "mid":
                        rngs.append([None])
                    else:
                        n = concrete_extent(box.extent(k))
                        rngs.append(list(range(n)))
                for js in itertools.product(*rngs):
                    sub = {}
                    outer = False
                    for k, j in enumerate(js):
                        if j is None:
                            continue
                        idx = box.iv[k][0].poly() + j
                        sub[("s", "@%d" % k)] = idx
                        dist = j + (box.iv[k][0] - fb.iv[k][0]).const_value() if cls[k] == "lo" else None
                        if cls[k] == "lo":
                            layer = int((box.iv[k][0] - fb.iv[k][0]).const_value()) + j
                        else:
                            layer = int((fb.iv[k][1] - box.iv[k][0]).const_value()) - 1 - j
                        if layer == 0:
                            outer = True
                    val = factor.subs(sub)
                    ok, why = unit_interval_sine_product(val)
                    ncells += 1
                    if not ok:
                        bad = "zone cell %r layer %r: damping factor %r is not provably in [0,1): %s" % (box, js, val, why)
                    elif outer and not val.is_zero():
                        bad = "outermost ring is not driven to zero at cell %r layer %r: factor %r" % (box, js, val)
            rep.ob("C19.c", "%s :: %s" % (lab, name), bad is None, bad or ("identity" if w == 0 else "zone values = inner-edge value * factor in [0,1), outermost ring 0, rest untouched (%d layers)" % ncells),
                   key="C19.c|%s|%s|%s" % (lab, name, (bad or "")[:120]), nontrivial=w > 0,
                   sample={"kernel": lab, "array": name, "zone_cells_checked": ncells})


def unit_interval_sine_product(val):
    """is val a product of sin(pi * r) with rational 0 <= r < 1/2 (each in [0,1)), possibly 0 or 1?"""
    val = as_rat(val)
    if val.is_const():
        c = val.const_value()
        return (0 <= c < 1) or c == 0, "constant %s" % c
    if not val.den.is_const():
        return False, "denominator"
    p = as_poly(val)
    if len(p.t) != 1:
        return False, "sum"
    (m, c), = p.t.items()
    if c != 1:
        return False, "coefficient %s" % c
    for a, e in m:
        if a[0] != "fn" or a[1] not in ("sin", "cos"):
            return False, "factor %r" % (a,)
        arg = fn_arg(a)
        if not arg.is_poly():
            return False, "argument"
        ap = as_poly(arg)
        if len(ap.t) != 1 or list(ap.t)[0] != ((("s", "pi"), 1),):
            return False, "argument %r" % (arg,)
        r = list(ap.t.values())[0]
        if a[1] == "sin" and not (0 <= r < Fr(1, 2)):
            return False, "sin(%s pi)" % r
        if a[1] == "cos" and not (0 < r <= Fr(1, 2)):
            return False, "cos(%s pi)" % r
    return True, ""


# ---------------------------------------------------------------------------- (d) Laplacian filters
def chebyshev(k, c):
    """T_k(c) as a polynomial in symbol c"""
    t0, t1 = Poly.const(1), c
    if k == 0:
        return t0
    for _ in range(k - 1):
        t0, t1 = t1, c.scale(2) * t1 - t0
    return t1


def fourier_multiplier(expr, name):
    """symbol of a linear, even stencil as a polynomial in s_a = (1 - cos theta_a)/2; None + reason otherwise"""
    e = PW.of(expr)
    if not e.is_leaf() or not e.leaf.is_poly():
        return None, "not a linear stencil"
    p = as_poly(e.leaf)
    coeffs = {}
    for m, c in p.t.items():
        if len(m) != 1 or m[0][1] != 1 or m[0][0][0] != "f" or m[0][0][1] != name:
            return None, "term %r is not a multiple of one field value" % (m,)
        coeffs[m[0][0][2]] = c
    for off, c in coeffs.items():
        for k in range(len(off)):
            mo = tuple(-o if i == k else o for i, o in enumerate(off))
            if coeffs.get(mo, 0) != c:
                return None, "stencil is not symmetric along axis %d (phase shift)" % k
    res = Poly()
    for off, c in coeffs.items():
        term = Poly.const(c)
        for k, o in enumerate(off):
            cosk = Poly.const(1) - Poly.sym("s%d" % k).scale(2)
            term = term * chebyshev(abs(o), cosk)
        res = res + term
    return res, ""


def filter_case(S, item, rep):
    ft, order, fieldt = item
    s = [Poly.sym("s%d" % k) for k in range(3)]
    if True:
        if True:
            if True:
                e = find_entry("gen_laplacian_filter_kernel_3d", field_type=fieldt, filter_type=ft, filter_order=order)
                ex, sm = interiors(S, e)
                names = ["scalar_field"] if fieldt == "scalar" else [comp("vector_field", c) for c in range(3)]
                for n in names:
                    inst = "%s :: %s" % (e.label(), n)
                    mult, why = fourier_multiplier(ex[n], n)
                    if mult is None:
                        rep.ob("C19.d", inst, False, "filter is not an even linear stencil of the field: %s" % why, key="C19.d|%s|%s|%s" % (e.label(), n, why[:60]))
                        continue
                    if ft == "multiplicative":
                        want = Poly.const(1) - (s[0] * s[1] * s[2]) ** order
                        form = "1 - (s_x s_y s_z)^%d" % order
                    else:
                        want = Poly.const(1)
                        for k in range(3):
                            want = want * (Poly.const(1) - s[k] ** order)
                        form = "prod_a (1 - s_a^%d)" % order
                    ok = (mult - want).is_zero()
                    at0 = as_poly(mult.subs({("s", "s%d" % k): Poly() for k in range(3)})).const_value() if True else None
                    at1 = as_poly(mult.subs({("s", "s%d" % k): Poly.const(1) for k in range(3)})).const_value()
                    rep.ob("C19.d", inst, ok and at0 == 1 and at1 == 0,
                           "Fourier multiplier is %r, documented %s (value at constants %s, at the checkerboard %s)" % (mult, form, at0, at1)
                           if not (ok and at0 == 1 and at1 == 0) else "multiplier %s in [0,1] on s in [0,1]^3, 1 at constants, 0 at the checkerboard" % form,
                           key="C19.d|%s|%s|%s" % (e.label(), n, short(mult, 100)),
                           sample={"filter": e.label(), "multiplier": form})
                    # independent of what the work buffers held before
                    st = sm.store
                    key = next(k for k in st.meta if st.base_name(k) == n)
                    roots = roots_of(st, [p.expr for p in st.pieces(key)])
                    stale = sorted(r for r in roots if r.split("[")[0] in ("filter_flux_buffer", "field_buffer"))
                    rep.ob("C19.d", inst + " buffer independence", not stale,
                           "filtered field depends on prior buffer contents: %s" % stale if stale else "every cell depends on the field only",
                           key="C19.d|%s|%s|stale|%s" % (e.label(), n, stale), nontrivial=False)


def filters(S, rep, tier):
    from .common import filter_orders
    from .simtools import parallel_over
    items = []
    for ft in ("multiplicative", "convolution"):
        for fieldt in ("scalar", "vector"):
            for order in filter_orders(tier, fieldt):
                if fieldt == "vector" and (tier == "quick" and order > 1):
                    continue
                items.append((ft, order, fieldt))
    parallel_over(S, rep, "sa.props.c19", "filter_case", items)
    # the 1-D factors themselves: symbol (1 - cos theta)/2 in [0, 1]
    from ..algtools import launch_exprs
    _, sm = interiors(S, find_entry("gen_laplacian_filter_kernel_3d", field_type="scalar", filter_type="convolution", filter_order=1))
    for op in sm.trace:
        if op.kind == "Launch" and op.kernel.stencil.reach() > 0:
            (out, expr), = launch_exprs(op)
            src = sorted({a[1] for a in expr.all_atoms() if a[0] == "f"})
            mult, why = fourier_multiplier(expr, src[0]) if len(src) == 1 else (None, "several inputs")
            ok = mult is not None and len(mult.atoms()) == 1 and (mult - Poly.atom(next(iter(mult.atoms())))).is_zero()
            rep.ob("C19.d", "1-D stencil %s" % op.kernel.stencil.name, ok,
                   "symbol of the 1-D filter stencil is %r, not (1 - cos theta)/2 along one axis (%s)" % (mult, why) if not ok else "symbol s = (1 - cos theta)/2 in [0,1]",
                   key="C19.d|1d|%s|%r" % (op.kernel.stencil.name, mult))


def definitely_overlap(a, b):
    """two views certainly share a cell: same allocation and, axis by axis, the same index / range or a full range"""
    from ..values import pconst, to_pw
    if a.alloc.id != b.alloc.id:
        return False
    for x, y, n in zip(a.axes, b.axes, a.alloc.shape):
        def full(t):
            return t[0] == "r" and t[1] == pconst(0) and t[2] == to_pw(n)
        same = x[0] == y[0] and all(p.key() == q.key() for p, q in zip(x[1:], y[1:]))
        if not (same or full(x) or full(y)):
            return False
    return True


def filter_construction_sites(S, rep):
    """the per-kernel analysis above gives the filter two *different* work arrays; the library's own construction sites
    must do the same, or every 1-D stencil runs in place and the result depends on what the buffers held"""
    from ..values import Arr
    from .simtools import build_sim
    found = 0
    for flt in (("multiplicative", 2), ("convolution", 2)):
        cfg = dict(kind="3d", with_forcing=False, with_free_stream_flow=False, penalty_zone_width=2, filter=flt,
                   poisson_solver_type="greens_function_convolution")
        run = build_sim(S, cfg)
        if run.raised is not None or run.inst is None:
            rep.ob("C19.e", "3D simulator with %s filter" % (flt,), False, "constructor cannot be analysed: %s" % run.raised,
                   key="C19.e|%s|raises" % (flt,))
            continue
        for op in run.init_trace:
            if op.kind != "CallBegin" or "laplacian_filter" not in op.fn.qualname.lower():
                continue
            arrs = [(k, v) for k, v in op.args.items() if isinstance(v, Arr)]
            if len(arrs) < 2:
                continue
            found += 1
            clash = [(k1, k2, v1) for i, (k1, v1) in enumerate(arrs) for k2, v2 in arrs[i + 1:] if definitely_overlap(v1, v2)]
            inst = "%s called at %s (%s filter)" % (op.fn.qualname.split(".")[-1], op.where, flt[0])
            rep.ob("C19.e", inst, not clash,
                   "work arrays %s and %s are the same memory (%s): the 1-D stencils run in place" % (clash[0][0], clash[0][1], clash[0][2].describe())
                   if clash else "work arrays %s are different allocations or disjoint views" % ", ".join(k for k, _ in arrs),
                   key="C19.e|%s|%s|%s" % (op.fn.qualname, flt[0], clash[0][:2] if clash else ""))
    rep.note("filter construction sites in the 3D simulator", found)


def simulators_use_the_given_width(S, rep, tier):
    """the damping rules above are per zone width; a simulator must build the damping kernel with the width it was configured
    with (width 0 included: it is the documented way to switch the damping off), or cells outside the configured zone change"""
    from ..values import simplify_scalar
    from .simtools import build_sim
    widths = (0, 1, 2) if tier == "quick" else (0, 1, 2, 3, 4, 5, 6)
    for kind in ("2d", "3d"):
        for w in widths:
            cfg = dict(kind=kind, with_forcing=False, with_free_stream_flow=False, penalty_zone_width=w)
            if kind == "3d":
                cfg.update(filter=None, poisson_solver_type="greens_function_convolution")
            run = build_sim(S, cfg)
            inst = "%s simulator configured with penalty_zone_width=%d" % (kind.upper(), w)
            if run.raised is not None or run.inst is None:
                rep.ob("C19.f", inst, False, "constructor cannot be analysed: %s" % run.raised, key="C19.f|%s|%d|raises" % (kind, w))
                continue
            got = [simplify_scalar(op.args["width"]) for op in run.init_trace
                   if op.kind == "CallBegin" and "penalise_field_boundary" in op.fn.qualname and "width" in op.args]
            if not got:
                raise Unsupported("anchor vanished: the %s simulator no longer builds gen_penalise_field_boundary_pyst_kernel_*" % kind)
            rep.ob("C19.f", inst, all(g == w for g in got),
                   "the damping kernel is built with width %s" % (got,), key="C19.f|%s|%d|%s" % (kind, w, got), nontrivial=False)


def run(S, tier, rep):
    rep.rule_text = ("(a) extracted Brinkmann forms are convex combinations by sign analysis; (b) the extracted Heaviside is cut into the "
                     "ordered regions of its level-set argument, with exact endpoint values, closed-form derivative and parity; (c) every zone "
                     "cell of the damping summary is the inner-edge value times a product of sin(pi r), 0 <= r < 1/2, outermost ring r = 0; "
                     "(d) the Fourier multiplier of the extracted filter composite (Chebyshev conversion) equals the documented polynomial in "
                     "s_a = (1-cos theta_a)/2 and the result does not depend on prior buffer contents; (e) every construction of the filter "
                     "by the library hands it work arrays that do not share memory; (f) the simulators build the damping kernel with the "
                     "zone width they were configured with")
    rep.explanation = "real-arithmetic facts decided from normal forms; rounding is outside (the property says 'up to rounding')"
    brinkmann(S, rep)
    heaviside(S, rep)
    zone_damping(S, rep, tier)
    filters(S, rep, tier)
    filter_construction_sites(S, rep)
    simulators_use_the_given_width(S, rep, tier)
    rep.require_min("C19.f", 6)
    rep.require_min("C19.e", 2)
    rep.require_min("C19.a", 30)
    rep.require_min("C19.b", 16)
    rep.require_min("C19.c", 8)
    rep.require_min("C19.d", 9)
