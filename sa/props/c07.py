"""C07: spreading is the adjoint of interpolation and conserves force (and torque)."""
from __future__ import annotations

from ..numba_fx import numba_effects
from ..poly import PW, const, sym
from ..values import Arr, Unsupported, simplify_scalar, to_pw
from .comm import Comm, WIDTH, transfer_records, view_window
from .traces import coupling_traces

CASE_SPLIT = "decisions"     # branches on inputs that the admissible domain does not decide are analysed both ways


def same_view(a, b):
    return isinstance(a, Arr) and isinstance(b, Arr) and a.same_cells(b)


def win_equal(w1, w2):
    return len(w1) == len(w2) and all(a[0] == b[0] and a[1] == b[1] for a, b in zip(w1, w2))


def check_pair(S, rep, dim, nc):
    lab = "%dD %s" % (dim, "vector" if nc > 1 else "scalar")
    comm = Comm(S, dim, "cosine", nc)
    R = transfer_records(comm)
    eul, lag, weights, nearest = R["eul"], R["lag"], R["weights"], R["nearest"]
    dx = comm.dx
    # ---- serial accumulation over markers
    for which in ("gather_loop", "scatter_loop"):
        loops = R[which]
        ok = len(loops) == 1 and len(loops[0].range) == 1 and to_pw(loops[0].range[0]) == comm.N
        serial = all(getattr(l, "iterator", "range") == "range" for l in loops)
        if which == "scatter_loop":
            ok = ok and serial          # accumulation into shared cells: contributions add up exactly only in a serial marker loop
        rep.ob("C07.loop", "%s %s" % (lab, which), ok, "marker loop(s): %s over %s" % ([l.range for l in loops], [getattr(l, "iterator", "range") for l in loops]),
               key="C07.loop|%s|%s|%s" % (lab, which, [getattr(l, "iterator", "range") for l in loops]), nontrivial=False)
    # ---- gather normal form
    comps = list(range(nc)) if nc > 1 else [None]
    g_by_comp = {}
    for g in R["gathers"]:
        idx = g["index"]
        c = idx[0] if (idx is not None and nc > 1) else None
        ok = idx is not None and g["aug"] is None and g.get("factors") is not None and len(g["factors"]) == 2
        if not ok:
            rep.ob("C07.gather", "%s component %s" % (lab, c), False, "interpolation is not lag[c,i] = sum(eul_window * weights) * factor: %r" % (g,),
                   key="C07.gather|%s|%s|shape" % (lab, c))
            continue
        fa = g["factors"]
        e = next((x for x in fa if isinstance(x, Arr) and x.alloc.id == eul.alloc.id), None)
        wv = next((x for x in fa if isinstance(x, Arr) and x.alloc.id == weights.alloc.id), None)
        if e is None or wv is None:
            rep.ob("C07.gather", "%s component %s" % (lab, c), False, "the summed product does not pair the Eulerian window with the weights",
                   key="C07.gather|%s|%s|operands" % (lab, c))
            continue
        fixed, win = view_window(e)
        g_by_comp[c] = {"eul_comp": fixed, "window": win, "weights": wv, "factor": g["factor"], "marker": idx[-1]}
        okc = (fixed == ((c,) if c is not None else ()))
        rep.ob("C07.gather", "%s component %s reads component %s" % (lab, c, fixed), okc, "lag component %s is interpolated from Eulerian component %s" % (c, fixed),
               key="C07.gather|%s|%s|pairing|%s" % (lab, c, fixed))
        okf = to_pw(g["factor"]) == dx ** dim
        rep.ob("C07.volume", "%s component %s cell-volume factor" % (lab, c), okf, "interpolation is scaled by %r, documented dx^%d" % (g["factor"], dim),
               key="C07.volume|%s|%s|%r" % (lab, c, g["factor"]))
    if set(g_by_comp) != set(comps):
        rep.ob("C07.gather", "%s components covered" % lab, False, "interpolation writes components %s of %s" % (sorted(map(str, g_by_comp)), comps),
               key="C07.gather|%s|coverage|%s" % (lab, sorted(map(str, g_by_comp))))
    # ---- scatter normal form
    sc = R["scatters"]
    if len(sc) != 1 and not (len(sc) == nc):
        rep.ob("C07.scatter", lab, False, "%d stores into the Eulerian field per marker" % len(sc), key="C07.scatter|%s|count|%d" % (lab, len(sc)))
    for k, s in enumerate(sc):
        inst = "%s store %d" % (lab, k)
        if s["dst"] is None or s["factors"] is None or len(s["factors"]) != 2:
            rep.ob("C07.scatter", inst, False, "spreading is not eul[window] += lag * weights", key="C07.scatter|%s|shape|%d" % (lab, k))
            continue
        rep.ob("C07.accumulate", inst, s["aug"] == "Add", "spreading uses %s" % ("+=" if s["aug"] == "Add" else ("%s=" % s["aug"] if s["aug"] else "plain assignment")),
               key="C07.accumulate|%s|%s" % (lab, s["aug"]))
        fixed, win = view_window(s["dst"])
        wv = next((x for x in s["factors"] if isinstance(x, Arr) and x.alloc.id == weights.alloc.id), None)
        lv = next((x for x in s["factors"] if isinstance(x, Arr) and x.alloc.id != weights.alloc.id), None)
        scalar_elem = None
        if lv is None and nc == 1:
            # scalar field: lag[..., i] is a single element
            for x in s["factors"]:
                if isinstance(x, PW):
                    for nm, (res, index) in getattr(lag.alloc, "elem_syms", {}).items():
                        if x == sym(nm):
                            scalar_elem = (res, index)
        if wv is None or (lv is None and scalar_elem is None):
            rep.ob("C07.scatter", inst, False, "the spread value is not (marker value * weights)", key="C07.scatter|%s|operands|%d" % (lab, k))
            continue
        if scalar_elem is not None:
            marker = scalar_elem[1][-1]
            rep.ob("C07.scatter", inst + " component pairing", len(fixed) == 0, "scalar marker value spread into %s" % s["dst"].describe(),
                   key="C07.scatter|%s|pairing|%d" % (lab, k))
            gwins = [g_by_comp[c] for c in g_by_comp]
            win_g = win[-dim:]
            okw = bool(gwins) and all(win_equal(g["window"], win_g) for g in gwins)
            rep.ob("C07.window", inst, okw, "spreading window %s differs from the interpolation window" % ([(repr(a), repr(b)) for a, b in win_g],)
                   if not okw else "identical index window", key="C07.window|%s|%d|%s" % (lab, k, [(repr(a), repr(b)) for a, b in win_g]))
            okwt = bool(gwins) and all(same_view(g["weights"], wv) for g in gwins)
            rep.ob("C07.weights", inst, okwt, "spreading indexes the weights as %s" % wv.describe(), key="C07.weights|%s|%d|%s" % (lab, k, wv.describe()))
            okm = bool(gwins) and all(to_pw(g["marker"]) == to_pw(marker) for g in gwins)
            rep.ob("C07.scatter", inst + " same marker", okm, "marker index %r" % (marker,), key="C07.scatter|%s|marker|%d" % (lab, k), nontrivial=False)
            continue
        # the spread source: lag[..., i] (possibly reshaped to (-1, 1, ..)) : component c of the marker goes to component c of the grid
        root = lv
        der = getattr(lv.alloc, "derivation", None)
        reshaped = False
        while der is not None and der[0] in ("reshape", "copy", "astype", "maybe_copy"):
            root = der[1][0]
            reshaped = reshaped or der[0] == "reshape"
            der = getattr(root.alloc, "derivation", None)
        ok_src = isinstance(root, Arr) and root.alloc.id == lag.alloc.id
        lfixed, lwin = view_window(root) if ok_src else ((), [])
        marker = lfixed[-1] if lfixed else None
        # dst components: either all (vector: leading axis is a range over components) or the single fixed one
        dst_all_comps = nc > 1 and len(fixed) == 0
        if nc > 1:
            if dst_all_comps:
                # broadcasting (nc,1,..) * weights(2w,..) into eul[:, window]: component c <- lag[c, i]
                sh = lv.shape
                okp = reshaped and len(sh) == dim + 1 and simplify_scalar(sh[0]) == nc and all(simplify_scalar(x) == 1 for x in sh[1:]) and len(lwin) == 1
            else:
                okp = len(lfixed) == 2 and lfixed[0] == fixed[0]
        else:
            okp = len(fixed) == 0 and len(lfixed) == 1
        rep.ob("C07.scatter", inst + " component pairing", ok_src and okp,
               "spread source %s into %s does not pair component c with component c" % (getattr(root, "describe", lambda: root)(), s["dst"].describe()),
               key="C07.scatter|%s|pairing|%d" % (lab, k))
        # window and weights identical to the interpolation side, for the same marker
        gwins = [g_by_comp[c] for c in g_by_comp]
        win_g = win[-dim:]
        okw = bool(gwins) and all(win_equal(g["window"], win_g) for g in gwins)
        rep.ob("C07.window", inst, okw, "spreading window %s differs from the interpolation window %s" % (
            [(repr(a), repr(b)) for a, b in win_g], [[(repr(a), repr(b)) for a, b in g["window"]] for g in gwins][:1]) if not okw
            else "identical index window idx-w+1 : idx+w+1 on every axis",
            key="C07.window|%s|%d|%s" % (lab, k, [(repr(a), repr(b)) for a, b in win_g]),
            sample={"case": lab, "window": [(repr(a), repr(b)) for a, b in win_g]})
        okwt = bool(gwins) and all(same_view(g["weights"], wv) for g in gwins)
        rep.ob("C07.weights", inst, okwt, "spreading indexes the weights as %s, interpolation as %s" % (wv.describe(), [g["weights"].describe() for g in gwins][:1]),
               key="C07.weights|%s|%d|%s" % (lab, k, wv.describe()))
        okm = bool(gwins) and all(to_pw(g["marker"]) == to_pw(marker) for g in gwins) if marker is not None else False
        rep.ob("C07.scatter", inst + " same marker", okm, "marker index %r vs %r" % (marker, [g["marker"] for g in gwins][:1]),
               key="C07.scatter|%s|marker|%d" % (lab, k), nontrivial=False)
    rep.ob("C07.scatter", lab + " writes only the Eulerian field", not R["other_writes"], "spreading also writes %s" % [o.kind for o in R["other_writes"]],
           key="C07.scatter|%s|other-writes" % lab, nontrivial=False)


def call_sites(S, rep):
    """both transfer directions receive the same weight and index arrays with no write in between"""
    for lab, tr, pr, raised, inst in coupling_traces(S):
        if raised is not None or inst is None:
            rep.ob("C07.site", lab, False, "interaction cannot be analysed: %s" % raised, key="C07.site|%s|raises" % lab)
            continue
        calls = [(i, op) for i, op in enumerate(tr) if op.kind == "NumbaCall"]
        def find(sub):
            return [(i, op) for i, op in calls if sub in op.fn.fn.node.name]
        g = [(i, op) for i, op in calls if "eulerian_to_lagrangian" in op.fn.fn.node.name]
        s = [(i, op) for i, op in calls if "lagrangian_to_eulerian" in op.fn.fn.node.name]
        if len(g) != 1 or len(s) != 1:
            raise Unsupported("cannot identify the two transfer kernel calls in %s" % lab)
        (ig, og), (is_, os_) = g[0], s[0]
        for p in ("interp_weights", "nearest_eul_grid_index_to_lag_grid"):
            a, b = og.args.get(p), os_.args.get(p)
            ok = isinstance(a, Arr) and isinstance(b, Arr) and a.same_cells(b)
            rep.ob("C07.site", "%s %s shared" % (lab, p), ok, "interpolation gets %s, spreading gets %s" % (a, b), key="C07.site|%s|%s" % (lab, p))
            if ok:
                lo, hi = min(ig, is_), max(ig, is_)
                dirty = []
                for j in range(lo + 1, hi):
                    op = tr[j]
                    if op.kind == "NumbaCall":
                        eff = numba_effects(op.fn)
                        for q in eff["writes"]:
                            v = op.args.get(q)
                            if isinstance(v, Arr) and v.alloc.id == a.alloc.id:
                                dirty.append(op.fn.fn.node.name)
                    elif op.kind == "SliceAssign" and op.dst.alloc.id == a.alloc.id:
                        dirty.append("slice assignment")
                rep.ob("C07.site", "%s %s unchanged between the two transfers" % (lab, p), not dirty, "rewritten by %s" % dirty,
                       key="C07.site|%s|%s|dirty" % (lab, p), nontrivial=False)


def run(S, tier, rep):
    rep.rule_text = ("sibling agreement of the two transfer kernels: one generic iteration of each marker loop is interpreted abstractly; "
                     "interpolation must be lag[c,i] = dx^dim * sum(eul[c, W_i] * w[..., i]) and spreading eul[c, W_i] += lag[c,i] * w[..., i] with "
                     "the identical window W_i (bounds as normal forms in the nearest index), identical weight view, component c -> c, the "
                     "cell-volume factor once, accumulation by += in a serial range loop; call sites share weights and indices")
    rep.explanation = ("with identical windows and weights the bilinear forms sum_i F_i (I u)_i and sum_cells (S F) u dx^dim are term-by-term "
                       "equal; force and (with C06's moment identity) torque conservation follow")
    for dim in (2, 3):
        for nc in (1, dim):
            check_pair(S, rep, dim, nc)
    call_sites(S, rep)
    # force / torque conservation = adjointness (above) applied to constant / affine fields, which needs the weights to sum
    # to one (times the cell volume) and, for torque, the Peskin first moment to vanish: the identities of the weight
    # kernels are decided exactly as under C06 and recorded here as the conservation clause of this property
    from ..report import Report
    from .c06 import kernel_identities, support_and_window
    tmp = Report("C07", "other")
    for dim in (2, 3):
        # the identities are statements about weights evaluated at the true distances between the marker and the cells of its
        # window (for any grid origin / shift): the support kernel must deliver exactly those
        support_and_window(S, tmp, dim)
        for kind in ("cosine", "peskin"):
            kernel_identities(S, tmp, dim, kind)
    for o in tmp.obligations:
        if o["rule"] in ("C06.c", "C06.m", "C06.a"):
            o = dict(o, rule="C07.conserve")
            if "key" in o:
                o["key"] = o["key"].replace("C06.", "C07.conserve.")
            rep.obligations.append(o)
    # through the forcing class, the spread must land in (accumulate into) the very array the caller handed in: the effect
    # classification of C10.e, recorded here as the "accumulates into the target field" clause
    from ..report import Report as _R
    from .c10 import check_instance
    tmp2 = _R("C07", "other")
    from .c10 import wrappers_forward_options as _wf
    tmpw = _R("C07", "other")
    _wf(S, tmpw, rule="C07.w")
    broken_forwarding = any(not o["ok"] for o in tmpw.obligations)
    for dim_ in (2, 3):
        for reset_ in (True, False):
            try:
                check_instance(S, dim_, reset_, tmp2)
            except Unsupported:
                if not broken_forwarding:
                    raise        # (with a transposed constructor argument the abstract instance is meaningless: C07.w reports it)
    for o in tmp2.obligations:
        if o["rule"] in ("C10.e",) or (o["rule"] == "C10.f" and "view of the caller" in o["instance"]):
            o = dict(o, rule="C07.target")
            if "key" in o:
                o["key"] = o["key"].replace("C10.", "C07.target.")
            rep.obligations.append(o)
    rep.require_min("C07.target", 8)
    # "successive calls add up" holds only if the accumulate / reset option the user chose is the one the forcing object runs
    from .c10 import wrappers_forward_options
    wrappers_forward_options(S, rep, rule="C07.w")
    rep.require_min("C07.w", 3)
    rep.require_min("C07.conserve", 20)
    rep.require_min("C07.window", 4)
    rep.require_min("C07.weights", 4)
    rep.require_min("C07.accumulate", 4)
    rep.require_min("C07.volume", 6)
    rep.require_min("C07.site", 8)
