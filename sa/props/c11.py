"""C11: the fast-diagonalisation solver solves the discrete Neumann Poisson problem."""
from __future__ import annotations

from ..poly import PW, Poly, const, sym
from ..values import Arr, DType, Inst, Op, RaisedInAnalysed, Unsupported, simplify_scalar, to_pw
from .common import short

CASE_SPLIT = "decisions"     # a branch on caller data (tolerance test of the right-hand side) is analysed on both outcomes

SPNE = "sopht.numeric.eulerian_grid_ops"
SIZES = {2: ("ny", "nx"), 3: ("nz", "ny", "nx")}
AX = {2: ("y", "x"), 3: ("z", "y", "x")}


def build(S, dim):
    mod = S.module(SPNE)
    cls = mod.vars.get("FastDiagPoissonSolver%dD" % dim)
    if cls is None:
        raise Unsupported("anchor vanished: FastDiagPoissonSolver%dD" % dim)
    kw = {"grid_size_%s" % n[1]: sym(n) for n in SIZES[dim]}
    n0, p0 = len(S.I.trace), len(S.I.problems)
    inst = S.I.call(cls, [], dict(dx=sym("dx"), real_t=S.real_t, **kw), None, mod)
    return inst, S.I.trace[n0:], S.I.problems[p0:]


def describe(x, ver=None, depth=0):
    """canonical description of how an array's content (at content version `ver`) was obtained, through views and
    whole-array overwrites"""
    if not isinstance(x, Arr):
        if isinstance(x, (list, tuple)):
            return tuple(describe(y, None, depth + 1) for y in x)
        if hasattr(x, "lo"):
            return ("slice", x.lo, x.hi, x.step)
        return ("const", repr(simplify_scalar(x)) if not isinstance(x, str) else x)
    if depth > 60:
        raise Unsupported("derivation too deep")
    al = x.alloc
    if ver is None:
        ver = getattr(al, "cver", 0)
    entry = None
    for v, src, sver in getattr(al, "content_hist", []):
        if v <= ver:
            entry = (v, src, sver)
    if entry is not None and entry[1] is not None:
        d = describe(entry[1], entry[2], depth + 1)
    elif entry is not None:
        d = ("modified", al.label, al.id, entry[0])
    else:
        der = getattr(al, "derivation", None)
        if der is None:
            d = ("array", al.label, al.id)
        else:
            how, operands, meta = der
            dv = getattr(al, "dep_versions", {})

            def sub(o):
                return describe(o, dv.get(o.alloc.id) if isinstance(o, Arr) else None, depth + 1)
            if how in ("eig_vals", "eig_vecs", "eigh_vals", "eigh_vecs"):
                d = (how, operands[0].alloc.id)
            elif how == "fancy_index":
                d = ("take", sub(operands[0]), tuple(sub(i) for i in meta.get("index", [])))
            elif how == "reversed":
                d = ("rev", sub(operands[0]))
            else:
                d = (how,) + tuple(sub(o) for o in operands)
    if not x.is_full() or x.part is not None:
        d = ("view", x.describe().split("[", 1)[1], d)
    if x.perm is not None:
        d = ("T", x.perm, d)
    return d


def eig_source(d):
    """(kind 'vals'|'vecs', matrix alloc id, order 'desc'|'asc'|'unsorted', hermitian?) for a sorted/unsorted eigen array description"""
    if d[0] in ("eig_vals", "eigh_vals"):
        return "vals", d[1], ("asc" if d[0] == "eigh_vals" else "unsorted"), d[0].startswith("eigh")
    if d[0] in ("eig_vecs", "eigh_vecs"):
        return "vecs", d[1], ("asc" if d[0] == "eigh_vecs" else "unsorted"), d[0].startswith("eigh")
    if d[0] == "take":
        base = eig_source(d[1])
        if base is None:
            return None
        idx = [i for i in d[2] if i[0] != "slice"]
        if len(idx) != 1:
            return None
        i = idx[0]
        order = None
        if i[0] == "argsort":
            src = eig_source(i[1])
            if src and src[0] == "vals" and src[1] == base[1]:
                order = "asc"
        elif i[0] == "rev" and i[1][0] == "argsort":
            src = eig_source(i[1][1])
            if src and src[0] == "vals" and src[1] == base[1]:
                order = "desc"
        if order is None:
            return None
        # vectors: permutation must act on the column index
        if base[0] == "vecs":
            if not (len(d[2]) == 2 and d[2][0][0] == "slice"):
                return None
        return base[0], base[1], order, base[3]
    return None


def matrix_role(d):
    """('V'|'Vinv', matrix id, transposed?, order) of a 2-D factor used in solve"""
    t = False
    while d[0] == "T":
        if tuple(d[1]) == (1, 0):
            t = not t
        d = d[2]
    if d[0] == "transpose":
        r = matrix_role(d[1])
        return None if r is None else (r[0], r[1], (not r[2]) != t, r[3])
    if d[0] == "inv":
        r = matrix_role(d[1])
        if r is None or r[0] != "V":
            return None
        # (V^T)^-1 = (V^-1)^T
        return ("Vinv", r[1], r[2] != t, r[3])
    e = eig_source(d)
    if e is not None and e[0] == "vecs":
        return ("V", e[1], t, e[2])
    return None


def check_dim(S, rep, dim):
    lab = "%dD" % dim
    try:
        inst, init_tr, init_pr = build(S, dim)
    except RaisedInAnalysed as ex:
        rep.ob("C11.a", lab, False, "constructor raises %s" % ex, key="C11.a|%s|ctor" % lab)
        return
    prec = [p for p in init_pr if getattr(p, "pkind", "") == "precision"]
    rep.ob("C11.d", lab + " operator assembled in the working precision", not prec, prec[0].msg + " at " + str(prec[0].where) if prec else "no fixed-precision conversion",
           key="C11.d|%s|ctor-precision|%s" % (lab, prec[0].msg[:60] if prec else ""), nontrivial=False)
    sizes = {a: sym(n) for a, n in zip(AX[dim], SIZES[dim])}
    inv_dx2 = const(1) / (sym("dx") * sym("dx"))
    # ---- (a) the operator table: matrices handed to the eigen-solver
    mats = {}
    for op in init_tr:
        if op.kind == "NumpyOp" and op.fn in ("eig_vals", "eigh_vals"):
            m = op.reads[0]
            ax = [a for a, n in sizes.items() if to_pw(m.shape[0]) == n and to_pw(m.shape[1]) == n]
            if len(ax) != 1:
                rep.ob("C11.a", "%s matrix %s" % (lab, m.describe()), False, "a %s x %s matrix matches no grid axis" % m.shape, key="C11.a|%s|size|%s" % (lab, m.shape))
                continue
            mats[ax[0]] = (m, op.fn.startswith("eigh"))
    rep.ob("C11.a", lab + " one operator per axis", set(mats) == set(AX[dim]), "matrices for axes %s" % sorted(mats), key="C11.a|%s|axes|%s" % (lab, sorted(mats)))
    for a, (m, herm) in sorted(mats.items()):
        vf = m.alloc.valfn
        n = sizes[a]
        if vf is None:
            rep.ob("C11.a", "%s operator along %s" % (lab, a), False, "matrix has no closed form", key="C11.a|%s|%s|noform" % (lab, a))
            continue
        i = sym("i")
        entries = {"diag": vf((i, i)), "upper": vf((i, i + 1)), "lower": vf((i + 1, i)), "far": vf((i, i + 2)),
                   "first": vf((const(0), const(0))), "last": vf((n - 1, n - 1)), "first_off": vf((const(0), const(1))), "last_off": vf((n - 1, n - 2))}
        want = {"diag": const(2) * inv_dx2, "upper": -inv_dx2, "lower": -inv_dx2, "far": const(0), "first": inv_dx2, "last": inv_dx2,
                "first_off": -inv_dx2, "last_off": -inv_dx2}
        bad = {k: v for k, v in entries.items() if not (to_pw(v) == want[k])}
        nover = len(getattr(m.alloc, "overrides", []))
        rep.ob("C11.a", "%s operator along %s" % (lab, a), not bad and nover == 2,
               "entries differ from (1/dx^2) tridiag(-1,2,-1) with both corner diagonals 1/dx^2: %s (%d overridden entries)" % (
                   {k: repr(v) for k, v in bad.items()}, nover), key="C11.a|%s|%s|%s" % (lab, a, sorted(bad)),
               sample={"dim": dim, "axis": a, "diag": repr(entries["diag"]), "corner": repr(entries["first"])})
    mat_axis = {m.alloc.id: a for a, (m, _) in mats.items()}
    # ---- (c) null space: where is the infinite eigenvalue put, and how are the eigenvalues sorted?
    inv_eig = inst.attrs.get("inv_eig_val_matrix")
    if inv_eig is None:
        raise Unsupported("anchor vanished: inv_eig_val_matrix")
    der = getattr(inv_eig.alloc, "derivation", None)
    E = None
    if der is not None and der[0] == "div" and to_pw(der[1][0]) == const(1) if not isinstance(der[1][0], Arr) else False:
        E = der[1][1]
    if E is None:
        raise Unsupported("spectral scaling is not 1 / (sum of eigenvalues): %r" % (der and der[0],))
    infs = [op for op in init_tr if op.kind == "ElemAssign" and op.arr.alloc.id == E.alloc.id]
    # terms of the eigenvalue sum
    terms = []
    dE = None

    def flatten(d):
        if d[0] == "add":
            flatten(d[1])
            flatten(d[2])
        else:
            terms.append(d)
    dE = describe(Arr(E.alloc), 0)
    flatten(dE)
    axis_of_term = {}
    orders = {}
    ok_sum = len(terms) == dim
    for t in terms:
        if t[0] != "tile" or t[1][0] != "reshape":
            ok_sum = False
            continue
        e = eig_source(t[1][1])
        if e is None or e[0] != "vals":
            ok_sum = False
            continue
        a = mat_axis.get(e[1])
        orders[a] = e[2]
        # which array axis carries this eigenvalue index?
        axis_of_term[a] = None
    # array-axis pairing through the reshape shapes (recorded in the derivation of each reshape)
    pos_ok = True
    walk = [E.alloc]
    seen_reshapes = []

    def collect(al):
        der = getattr(al, "derivation", None)
        if der is None:
            return
        how, operands, meta = der
        if how == "reshape":
            seen_reshapes.append((operands[0], meta.get("new_shape")))
        for o in operands:
            if isinstance(o, Arr):
                collect(o.alloc)
    collect(E.alloc)
    for src, shp in seen_reshapes:
        e = eig_source(describe(src))
        if e is None:
            pos_ok = False
            continue
        a = mat_axis.get(e[1])
        want_pos = AX[dim].index(a) if a in AX[dim] else None
        nonunit = [k for k, d in enumerate(shp) if not (simplify_scalar(d) == 1)]
        if nonunit != [want_pos]:
            pos_ok = False
    rep.ob("C11.b", lab + " spectral scaling = 1/(sum over axes of the axis' own eigenvalues)", ok_sum and pos_ok and len(seen_reshapes) == dim,
           "eigenvalue array is built from %d terms; eigenvalues of axis a must run along array axis a" % len(terms),
           key="C11.b|%s|eigsum|%s|%s" % (lab, ok_sum, pos_ok), sample={"dim": dim, "terms": len(terms)})
    ok_null = len(infs) == 1 and to_pw(infs[0].value) == sym("inf")
    detail = "%d element overrides of the eigenvalue sum" % len(infs)
    if ok_null:
        idx = [simplify_scalar(i) for i in infs[0].index]
        for k, a in enumerate(AX[dim]):
            o = orders.get(a)
            n = sizes[a]
            at_last = to_pw(idx[k]) == n - 1
            at_first = to_pw(idx[k]) == const(0)
            good = (o == "desc" and at_last) or (o == "asc" and at_first)
            if not good:
                ok_null = False
                detail = "axis %s: eigenvalues sorted %s but the null mode is taken at index %r" % (a, o, idx[k])
    rep.ob("C11.c", lab + " null mode = smallest eigenvalue of every axis", ok_null, detail if not ok_null else "mean mode gets 1/inf = 0",
           key="C11.c|%s|%s" % (lab, detail[:80]))
    # ---- solve(): axis algebra
    mod = S.module(SPNE)
    rhs, sol = S.scalar_field("rhs", dim), S.scalar_field("sol", dim)
    n0, p0 = len(S.I.trace), len(S.I.problems)
    raised = None
    try:
        S.I.call(S.I.get_attr(inst, "solve", None, mod), [], dict(solution_field=sol, rhs_field=rhs), None, mod)
    except RaisedInAnalysed as ex:
        raised = ex
    tr, pr = S.I.trace[n0:], S.I.problems[p0:]
    # ---- (d) real output: dtype-kind flow
    dtype_pr = [p for p in pr if p.pkind == "dtype"]
    rep.ob("C11.d", lab + " real arithmetic reaches the real output", not dtype_pr and raised is None,
           (dtype_pr[0].msg if dtype_pr else "solve raises %s" % raised), key="C11.d|FastDiagPoissonSolver%dD.solve|complex-to-real-out" % dim,
           sample={"dim": dim, "eig_dtype": "possibly complex" if any(not h for _, h in mats.values()) else "real (eigh)"})
    other = [p for p in pr if p.pkind != "dtype"]
    for p in other:
        rep.ob("C11.b", lab + " solve", False, "%s: %s" % (p.pkind, p.msg), key="C11.b|%s|%s|%s" % (lab, p.pkind, p.msg[:80]))
    state = {rhs.alloc.id: {"order": tuple(AX[dim]), "applied": {a: [] for a in AX[dim]}, "src": "rhs"}}

    def get_state(x):
        st = state.get(x.alloc.id)
        if st is None:
            return None
        if x.perm is not None:
            st = dict(st, order=tuple(st["order"][i] for i in x.perm))
        return st

    def role_of(x):
        r = matrix_role(describe(x))
        if r is None:
            return None
        return r + (mat_axis.get(r[1]),)

    problems = []
    for op in tr:
        if op.kind == "NumpyOp" and op.fn == "tensordot":
            x, y = op.args[0], op.args[1]
            p, q = op.meta["axes"]
            sx, sy = get_state(x), get_state(y)
            if sx is not None and sy is None:
                r = role_of(y)
                t, ti, mi, tensor_first = sx, p, q, True
            elif sy is not None and sx is None:
                r = role_of(x)
                t, ti, mi, tensor_first = sy, q, p, False
            else:
                problems.append("tensordot of two field tensors or two matrices")
                continue
            if r is None:
                problems.append("tensordot factor %s is not an eigenvector matrix or its inverse" % (y if tensor_first else x).describe())
                continue
            kind, mid, transposed, order, maxis = r
            s = t["order"][ti]
            # contraction over the matrix' second index applies M, over the first index applies M^T
            applies_T = (mi == 0)
            if transposed:
                applies_T = not applies_T
            rest = tuple(a for k, a in enumerate(t["order"]) if k != ti)
            new_order = rest + (s,) if tensor_first else (s,) + rest
            applied = {a: list(v) for a, v in t["applied"].items()}
            applied[s].append((kind + ("^T" if applies_T else ""), maxis))
            state[op.out.alloc.id] = {"order": new_order, "applied": applied, "src": t["src"]}
        elif op.kind == "NumpyOp" and op.fn == "multi_dot":
            ms_ = op.args
            if len(ms_) != 3:
                problems.append("multi_dot of %d factors" % len(ms_))
                continue
            t = get_state(ms_[1])
            ra, rb = role_of(ms_[0]), role_of(ms_[2])
            if t is None or ra is None or rb is None:
                problems.append("multi_dot is not (matrix, field, matrix)")
                continue
            applied = {a: list(v) for a, v in t["applied"].items()}
            s0, s1 = t["order"][0], t["order"][1]
            applied[s0].append((ra[0] + ("^T" if ra[2] else ""), ra[4]))
            applied[s1].append((rb[0] + ("" if rb[2] else "^T"), rb[4]))
            state[op.out.alloc.id] = {"order": t["order"], "applied": applied, "src": t["src"]}
        elif op.kind == "NumpyOp" and op.fn == "mul" and op.meta.get("out_kw"):
            t = None
            scal = None
            for x in op.args:
                if isinstance(x, Arr) and get_state(x) is not None:
                    t = get_state(x)
                elif isinstance(x, Arr) and x.alloc.id == inv_eig.alloc.id:
                    scal = x
            if t is None or scal is None:
                problems.append("spectral scaling does not multiply the transformed field by the inverse eigenvalue array")
                continue
            if t["order"] != tuple(AX[dim]):
                problems.append("spectral scaling applied while the axes are ordered %s" % (t["order"],))
            applied = {a: list(v) + [("scale", a)] for a, v in t["applied"].items()}
            state[op.out.alloc.id] = {"order": t["order"], "applied": applied, "src": t["src"]}
        elif op.kind == "SliceAssign" and isinstance(op.src, Arr):
            t = get_state(op.src)
            if t is not None and op.dst.is_full():
                if op.aug is not None:
                    problems.append("the result is combined with the previous content of %s by %s= (the solve must overwrite its output)" % (
                        op.dst.alloc.label, {"Add": "+", "Sub": "-", "Mult": "*", "Div": "/"}.get(op.aug, op.aug)))
                state[op.dst.alloc.id] = t
        elif op.kind == "SliceAssign" and op.dst.alloc.id == sol.alloc.id and op.aug is not None:
            problems.append("the output is updated in place by %s=" % op.aug)
    fin = state.get(sol.alloc.id)
    ok = fin is not None and not problems and fin["order"] == tuple(AX[dim])
    detail = "; ".join(problems) if problems else ""
    if fin is None:
        detail = detail or "the solution array never receives the transformed field"
    elif ok:
        for a in AX[dim]:
            want_seq = [("Vinv", a), ("scale", a), ("V", a)]
            if fin["applied"][a] != want_seq:
                ok = False
                detail = "along %s the field undergoes %s, documented V^-1, spectral scaling, V of that same axis" % (a, fin["applied"][a])
    elif not detail:
        detail = "result axes are ordered %s" % (fin["order"],)
    rep.ob("C11.b", lab + " forward transform, scaling, backward transform per axis", ok, detail or "each axis: V^-1 (inverse eigenvectors) -> 1/lambda -> V, axes back in order",
           key="C11.b|%s|algebra|%s" % (lab, detail[:100]), sample={"dim": dim, "per_axis": {a: [x[0] for x in fin["applied"][a]] for a in AX[dim]} if fin else None})
    # ---- (e) vector solve
    if dim == 3:
        rv, sv = S.vector_field("rhsv", 3), S.vector_field("solv", 3)
        n0 = len(S.I.trace)
        try:
            S.I.call(S.I.get_attr(inst, "vector_field_solve", None, mod), [], dict(solution_vector_field=sv, rhs_vector_field=rv), None, mod)
        except RaisedInAnalysed as ex:
            rep.ob("C11.e", "3D vector solve", False, "raises %s" % ex, key="C11.e|raises")
            return
        calls = [op for op in S.I.trace[n0:] if op.kind == "CallBegin" and op.fn.qualname.endswith(".solve")]
        pairs = []
        for op in calls:
            s_, r_ = op.args.get("solution_field"), op.args.get("rhs_field")
            pairs.append((s_.describe() if isinstance(s_, Arr) else None, r_.describe() if isinstance(r_, Arr) else None))
        want = [("solv[%d,:,:,:]" % c, "rhsv[%d,:,:,:]" % c) for c in range(3)]
        rep.ob("C11.e", "3D vector solve = three scalar solves, component i -> i", sorted(pairs) == sorted(want), "scalar solves on %s" % pairs,
               key="C11.e|pairs|%s" % pairs)


def run(S, tier, rep):
    rep.rule_text = ("the solver classes are instantiated abstractly with symbolic sizes; closed forms of the banded matrices (diagonal, "
                     "off-diagonals, corner overrides) give the operator table; provenance terms of the eigen arrays give the sort order and the "
                     "null-mode index; an index-signature evaluation of tensordot / transpose / multi_dot over the solve trace gives, per axis, "
                     "the sequence of transforms; a dtype-kind flow tracks possibly-complex results of numpy.linalg.eig into real `out=` arrays")
    rep.explanation = ("decides operator table, axis algebra, null mode, real output and vector pairing; the accuracy of LAPACK's "
                       "eigendecomposition and inverse is the stated remainder")
    for dim in (2, 3):
        check_dim(S, rep, dim)
    rep.require_min("C11.a", 7)
    rep.require_min("C11.b", 4)
    rep.require_min("C11.c", 2)
    rep.require_min("C11.d", 2)
