"""C15: results do not depend on thread count or iteration order."""
from __future__ import annotations

import ast

from ..numba_fx import numba_effects
from ..regions import bound, le
from ..values import Arr, Unsupported, simplify_scalar
from .traces import all_traces, syntactic_inventory

CASE_SPLIT = True     # orderings between different grid sizes are analysed case by case (regions.run_under_size_cases)


def views_overlap(a, b):
    """may two views of arrays share a cell?  (False only when provably disjoint)"""
    if a.alloc.id != b.alloc.id:
        return False
    if a.part is not None and b.part is not None and a.part != b.part:
        return False
    for x, y in zip(a.axes, b.axes):
        lx, hx = (x[1], x[1] + 1) if x[0] == "i" else (x[1], x[2])
        ly, hy = (y[1], y[1] + 1) if y[0] == "i" else (y[1], y[2])
        try:
            if le(bound(hx), bound(ly)) or le(bound(hy), bound(lx)):
                return False
        except Unsupported:
            continue
    return True


def run(S, tier, rep):
    rep.rule_text = ("C15.a per stencil: every read of a written field is at the written cell and no two assignments write one field; "
                     "C15.b per kernel launch in every trace: an array bound to a written parameter may alias another parameter only if both "
                     "bind the very same cells and the other parameter is read at the centre cell only; C15.c: no @njit kernel is parallel, "
                     "marker loops are serial range loops")
    rep.explanation = ("with (a)-(c) each cell's new value is a function of values no other cell's update writes, so any thread count / "
                       "iteration order gives identical results; spreading accumulates in program order")
    launches = 0
    traces = 0
    numba_calls = 0
    for lab, tr, pr, raised in all_traces(S, tier):
        traces += 1
        if raised is not None:
            # configuration errors are reported by the properties that own them
            pass
        for op in tr:
            if op.kind == "Launch":
                launches += 1
                sd = op.kernel.stencil
                written = {a.field for a in sd.assigns}
                reads = {}
                for f, off in sd.accesses():
                    reads.setdefault(f, set()).add(off)
                bad = None
                ws = sorted(written)
                for w in ws:
                    aw = op.arrays[w]
                    for p, ap in op.arrays.items():
                        if p == w:
                            continue
                        if not views_overlap(aw, ap):
                            continue
                        centre_only = all(all(o == 0 for o in off) for off in reads.get(p, ()))
                        if p in written:
                            bad = "two written parameters %s and %s share memory (%s, %s)" % (w, p, aw.describe(), ap.describe())
                        elif not aw.same_cells(ap):
                            bad = "output %s=%s overlaps differently indexed input %s=%s" % (w, aw.describe(), p, ap.describe())
                        elif not centre_only:
                            bad = "output %s and neighbour-read input %s are the same memory %s" % (w, p, aw.describe())
                rep.ob("C15.b", "%s :: %s @%s" % (lab, sd.name, op.where.split(".")[-1]), bad is None, bad or "no output aliases a neighbour-read input",
                       key="C15.b|%s|%s|%s" % (sd.qualname, "/".join(op.stack[-2:]), (bad or "")[:80]),
                       nontrivial=any(any(o != 0 for o in off) for offs in reads.values() for off in offs),
                       sample={"trace": lab, "kernel": sd.name, "bindings": {k: v.describe() for k, v in op.arrays.items()}})
            elif op.kind == "NumbaCall":
                numba_calls += 1
                eff = numba_effects(op.fn)
                bad = None
                for w in eff["writes"]:
                    aw = op.args.get(w)
                    if not isinstance(aw, Arr):
                        continue
                    for p, ap in op.args.items():
                        if p == w or not isinstance(ap, Arr):
                            continue
                        if views_overlap(aw, ap):
                            bad = "numba kernel %s: written argument %s shares memory with %s" % (op.fn.fn.node.name, w, p)
                rep.ob("C15.b", "%s :: numba %s" % (lab, op.fn.fn.node.name), bad is None, bad or "distinct arrays",
                       key="C15.b|numba|%s|%s" % (op.fn.fn.qualname, (bad or "")[:80]), nontrivial=False)
    rep.note("traces", traces)
    rep.note("launches", launches)
    rep.note("numba_calls", numba_calls)

    # ---- (a) per stencil
    ps_k, njit = syntactic_inventory(S.repo)
    seen = {}
    for sd in S.I.stencils:
        seen.setdefault((sd.module, sd.lineno), []).append(sd)
    missing = [k for k in ps_k if (k[0], k[1]) not in seen]
    if missing:
        raise Unsupported("stencil definitions never reached by the analysis: %s" % missing[:5])
    for (mod, line), sds in sorted(seen.items()):
        for sd in sds[:1] + [s for s in sds[1:] if repr([repr(a) for a in s.assigns]) != repr([repr(a) for a in sds[0].assigns])]:
            written = [a.field for a in sd.assigns]
            bad = None
            if len(set(written)) != len(written):
                bad = "two assignments write the same field"
            for a in sd.assigns:
                if any(o != 0 for o in a.offset):
                    bad = "writes %s at offset %s" % (a.field, a.offset)
            for f, off in sd.accesses():
                if f in written and any(o != 0 for o in off):
                    bad = "reads its own output %s at neighbour offset %s (loop-carried dependence)" % (f, off)
            rep.ob("C15.a", "%s:%s" % (mod.split(".")[-1], sd.name), bad is None, bad or "written fields are read at the centre cell only",
                   key="C15.a|%s|%s" % (sd.qualname, bad), nontrivial=sd.reach() > 0)
    # ---- (c) numba kernels are serial
    for mod, line, name, dec, node in njit:
        bad = None
        if "parallel" in dec and "parallel=False" not in dec:
            bad = "decorated %s" % dec
        for n in ast.walk(node):
            if isinstance(n, ast.Name) and n.id == "prange":
                bad = "uses prange"
            if isinstance(n, ast.Attribute) and n.attr == "prange":
                bad = "uses prange"
        accumulates = any(isinstance(n, ast.AugAssign) and isinstance(n.target, ast.Subscript) for n in ast.walk(node))
        if accumulates:
            # the accumulation must sit in a plain `for ... in range(...)` loop
            for n in ast.walk(node):
                if isinstance(n, ast.For) and any(isinstance(x, ast.AugAssign) for x in ast.walk(n)):
                    it = ast.unparse(n.iter)
                    fn_name = ast.unparse(n.iter.func).split(".")[-1] if isinstance(n.iter, ast.Call) else None
                    if fn_name == "prange":
                        bad = "accumulation loop iterates over %s" % it
                    elif fn_name is not None and fn_name not in ("range", "enumerate", "zip", "reversed", "arange", "sorted", "list"):
                        raise Unsupported("accumulation loop of %s iterates over %s: not a known serial or parallel iterator" % (name, it))
        rep.ob("C15.c", "%s:%s" % (mod.split(".")[-1], name), bad is None, bad or ("serial range loop with +=" if accumulates else "serial @njit"),
               key="C15.c|%s|%s|%s" % (mod, name, bad), nontrivial=accumulates)
    # the thread count must only ever select the kernels' threading: a wrapper that hands `num_threads` to another option of
    # the base class (e.g. the forcing-reset flag) makes results depend on it
    from .c10 import wrappers_forward_options
    wrappers_forward_options(S, rep, rule="C15.w")
    rep.require_min("C15.w", 2)
    rep.require_min("C15.a", 63)
    rep.require_min("C15.b", 500)
    rep.require_min("C15.c", 19)
