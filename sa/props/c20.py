"""C20: time-stepping kernels realise their nominal integration scheme."""
from __future__ import annotations

from fractions import Fraction as Fr

from ..poly import PW, Poly, as_poly, const, fld, sym
from ..pwtools import pw_equal
from ..specs.ops import comp, zero, at
from ..store import compose
from ..summaries import summarize
from .common import find_entry, interiors, rename_fields, short
from ..values import Unsupported

CASE_SPLIT = True     # orderings between different grid sizes are analysed case by case (regions.run_under_size_cases)


def stepped(S, rep, what, entry):
    """summary of a time-step kernel; a documented component that no launch writes is a violation found before execution"""
    from .common import OutputNeverWritten
    try:
        return interiors(S, entry)
    except OutputNeverWritten as ex:
        for n in ex.names:
            rep.ob("C20.euler", "%s %s" % (what, n), False, "the step never writes %s: it is not field + step*flux(field)" % n,
                   key="C20.euler|%s|%s|never-written" % (what, n))
        return None, None


def no_scratch_dependence(rep, what, sm, names):
    """field + step*flux(field) is a function of the field, the velocity and the step only: on no cell (ring included) may the
    result contain what the caller's flux / work array held before the call"""
    for n in names:
        bad = []
        for box, e in sm.final[n]:
            for a in PW.of(e).all_atoms():
                if a[0] == "f" and ("flux" in a[1] or "buffer" in a[1]):
                    bad.append("cell %r contains the prior content of %s" % (box, a[1]))
        rep.ob("C20.euler", "%s %s: independent of the scratch array" % (what, n), not bad, "; ".join(sorted(set(bad))[:2]) if bad else
               "all %d cells depend on the field, velocity and step only" % len(sm.final[n]),
               key="C20.euler|scratch|%s|%s|%s" % (what, n, sorted(set(b.split(" contains ")[1] for b in bad))[:2]), nontrivial=False)


def generators_keep_no_partial_memo(S, rep):
    """a time-step kernel is built from generator calls (flux, boundary reset, sums ...): each must return the kernel for the
    arguments it is GIVEN. A generator that memoises its result in a module-level container is right only if the memo key
    holds every parameter the result depends on; one keyed on fewer (precision and thread count but not the ring width) hands
    a kernel built for other arguments to the next caller, so what a time step does depends on what was generated before it."""
    import ast, os
    base = os.path.join(S.repo, "sopht", "numeric")
    n_gen, n_memo = 0, 0
    for root, _, files in os.walk(base):
        for f in sorted(files):
            if not f.endswith(".py"):
                continue
            path = os.path.join(root, f)
            tree = ast.parse(open(path).read())
            containers = set()
            for st in tree.body:
                tgt = st.targets[0] if isinstance(st, ast.Assign) and len(st.targets) == 1 else (st.target if isinstance(st, ast.AnnAssign) else None)
                val = getattr(st, "value", None)
                if isinstance(tgt, ast.Name) and isinstance(val, (ast.Dict, ast.List, ast.Set)) or \
                        (isinstance(tgt, ast.Name) and isinstance(val, ast.Call) and isinstance(val.func, ast.Name) and val.func.id in ("dict", "list", "set", "OrderedDict", "defaultdict")):
                    containers.add(tgt.id)
            for fn in [n for n in tree.body if isinstance(n, ast.FunctionDef) and n.name.startswith("gen")]:
                n_gen += 1
                if not containers:
                    continue
                params = [a.arg for a in fn.args.posonlyargs + fn.args.args + fn.args.kwonlyargs]
                own = [n for n in ast.walk(fn) if isinstance(n, ast.FunctionDef) and n is not fn]
                inner = {id(x) for o in own for x in ast.walk(o)}
                # parameters the generated kernel depends on: read anywhere in the generator (its closures included)
                used = {n.id for n in ast.walk(fn) if isinstance(n, ast.Name) and isinstance(n.ctx, ast.Load) and n.id in params}
                keys = []
                for n in ast.walk(fn):
                    if id(n) in inner:
                        continue
                    k = None
                    if isinstance(n, ast.Subscript) and isinstance(n.value, ast.Name) and n.value.id in containers:
                        k = n.slice
                    elif isinstance(n, ast.Compare) and len(n.ops) == 1 and isinstance(n.ops[0], (ast.In, ast.NotIn)) \
                            and isinstance(n.comparators[0], ast.Name) and n.comparators[0].id in containers:
                        k = n.left
                    elif isinstance(n, ast.Call) and isinstance(n.func, ast.Attribute) and isinstance(n.func.value, ast.Name) \
                            and n.func.value.id in containers and n.func.attr in ("get", "setdefault", "pop") and n.args:
                        k = n.args[0]
                    if k is not None:
                        keys.append(k)
                if not keys:
                    continue
                n_memo += 1
                names = set()
                for k in keys:
                    for x in ast.walk(k):
                        if isinstance(x, ast.Name):
                            names.add(x.id)
                # a key held in a local: the names of the expression it was assigned from
                for st in ast.walk(fn):
                    if isinstance(st, ast.Assign) and len(st.targets) == 1 and isinstance(st.targets[0], ast.Name) and st.targets[0].id in names:
                        names |= {x.id for x in ast.walk(st.value) if isinstance(x, ast.Name)}
                missing = sorted(q for q in used if q not in names)
                rep.ob("C20.memo", "%s memoises on every parameter it uses" % fn.name, not missing,
                       "%s keeps its result in a module-level container keyed without %s: a kernel generated for one value is returned for another" % (fn.name, ", ".join(missing))
                       if missing else "memo key holds %s" % sorted(used), key="C20.memo|%s|%s" % (fn.name, missing), nontrivial=False)
    rep.note("generator_functions", n_gen)
    rep.note("memoising_generators", n_memo)
    if n_gen < 40:
        raise Unsupported("expected the gen_* kernel generators under sopht/numeric, found %d" % n_gen)


def run(S, tier, rep):
    rep.rule_text = ("Euler kernels: resolved summary == field + step * (the library's own flux kernel applied to the field) with the step "
                     "parameter unscaled; SSP-RK3: summary == (I + A + A^2/2 + A^3/6) omega where A is the operator extracted from the "
                     "Euler kernel for the same step parameter (composition of extracted operators, exact)")
    rep.explanation = "dataflow through the wrappers is resolved by the symbolic store; A is linear in omega for frozen velocity"
    generators_keep_no_partial_memo(S, rep)
    rep.trusted_base = ["A1", "A2", "A7"]
    # ---- Euler forward kernels: field + step * flux(field) with the library's flux kernel
    for dim in (2, 3):
        fts = ("scalar",) if dim == 2 else ("scalar", "vector")
        flux, _ = interiors(S, find_entry("gen_advection_flux_conservative_eno3_pyst_kernel_%dd" % dim))
        for ft in fts:
            opts = {} if dim == 2 else {"field_type": ft}
            ex, sm_ = stepped(S, rep, "advection %dD %s" % (dim, ft), find_entry("gen_advection_timestep_euler_forward_conservative_eno3_pyst_kernel_%dd" % dim, **opts))
            if ex is None:
                continue
            names = ["field"] if ft == "scalar" else [comp("vector_field", c) for c in range(dim)]
            no_scratch_dependence(rep, "advection %dD %s" % (dim, ft), sm_, names)
            for n in names:
                # library flux kernel: advection_flux += inv_dx * D(field): with flux buffer 0 and inv_dx = -dt_by_dx
                lib = rename_fields(flux["advection_flux"], {"field": n}) if n != "field" else flux["advection_flux"]
                if n != "field":
                    lib = lib.map_atoms(lambda a, n=n: ("f", n, a[2]) if a[0] == "f" and a[1] == "field" else a)
                lib = lib.subs({("f", "advection_flux", zero(dim)): Poly(), ("s", "inv_dx"): -Poly.sym("dt_by_dx")})
                want = at(n, zero(dim)) + lib
                ok = pw_equal(ex[n], want)
                rep.ob("C20.euler", "advection %dD %s %s" % (dim, ft, n), ok,
                       "advection step is not field + dt_by_dx * (-ENO3 flux difference) of the library flux kernel: %s" % short(ex[n]) if not ok
                       else "field + (-dt_by_dx) * ENO3 flux difference", key="C20.euler|adv|%d|%s|%s" % (dim, ft, n),
                       sample={"kernel": "advection timestep %dD %s" % (dim, ft), "form": "field + step*flux(field)"})
        dflux, _ = interiors(S, find_entry("gen_diffusion_flux_pyst_kernel_%dd" % dim, reset_ghost_zone=True, **({"field_type": "scalar"} if dim == 3 else {})))
        for ft in fts:
            opts = {} if dim == 2 else {"field_type": ft}
            ex, sm_ = stepped(S, rep, "diffusion %dD %s" % (dim, ft), find_entry("gen_diffusion_timestep_euler_forward_pyst_kernel_%dd" % dim, **opts))
            if ex is None:
                continue
            names = ["field"] if ft == "scalar" else [comp("vector_field", c) for c in range(dim)]
            no_scratch_dependence(rep, "diffusion %dD %s" % (dim, ft), sm_, names)
            for n in names:
                lib = dflux["diffusion_flux"].map_atoms(lambda a, n=n: ("f", n, a[2]) if a[0] == "f" and a[1] == "field" else a)
                lib = lib.subs({("s", "prefactor"): Poly.sym("nu_dt_by_dx2")})
                ok = pw_equal(ex[n], at(n, zero(dim)) + lib)
                rep.ob("C20.euler", "diffusion %dD %s %s" % (dim, ft, n), ok,
                       "diffusion step is not field + nu_dt_by_dx2 * Laplacian-sum(field): %s" % short(ex[n]) if not ok else "field + step*flux",
                       key="C20.euler|diff|%d|%s|%s" % (dim, ft, n))
    sflux, _ = interiors(S, find_entry("gen_vorticity_stretching_flux_pyst_kernel_3d"))
    eul, sm_ = interiors(S, find_entry("gen_vorticity_stretching_timestep_euler_forward_pyst_kernel_3d"))
    no_scratch_dependence(rep, "vortex stretching", sm_, [comp("vorticity_field", c) for c in range(3)])
    A = {}
    for c in range(3):
        lib = sflux[comp("vorticity_stretching_flux_field", c)].subs({("s", "prefactor"): Poly.sym("dt_by_2_dx")})
        n = comp("vorticity_field", c)
        ok = pw_equal(eul[n], at(n, zero(3)) + lib)
        rep.ob("C20.euler", "vortex stretching %s" % n, ok,
               "Euler stretching step is not omega + dt_by_2_dx * stretching flux: %s" % short(eul[n]) if not ok else "omega + step*flux",
               key="C20.euler|stretch|%d" % c)
        A[n] = eul[n] - at(n, zero(3))     # the Euler flux operator A applied to omega (full step)
    # ---- SSP-RK3
    gen = S.gen("gen_vorticity_stretching_timestep_ssprk3_pyst_kernel_3d", real_t=S.real_t,
                midstep_buffer_vector_field=S.vector_field("midstep_buffer_vector_field", 3))
    sm = summarize(S, gen, dict(vorticity_field=S.vector_field("vorticity_field", 3), velocity_field=S.vector_field("velocity_field", 3),
                                vorticity_stretching_flux_field=S.vector_field("vorticity_stretching_flux_field", 3),
                                dt_by_2_dx=sym("dt_by_2_dx")))
    if sm.raised or sm.problems:
        rep.ob("C20.ssprk3", "call", False, "SSP-RK3 kernel cannot be analysed: %s %s" % (sm.raised, sm.problems[:2]), key="C20.ssprk3|call")
        return
    names = [comp("vorticity_field", c) for c in range(3)]
    ident = {n: at(n, zero(3)) for n in names}
    A1 = dict(A)
    A2 = {n: compose(A[n], A1) for n in names}
    A3 = {n: compose(A[n], A2) for n in names}
    for n in names:
        want = ident[n] + A1[n] + const(Fr(1, 2)) * A2[n] + const(Fr(1, 6)) * A3[n]
        got = sm.interior(n)
        ok = got is not None and pw_equal(got, want)
        detail = ""
        if not ok and got is not None:
            # express the result in the basis I, A, A^2, A^3 when possible
            detail = fit_polynomial(got, ident[n], A1[n], A2[n], A3[n])
        rep.ob("C20.ssprk3", "SSP-RK3 %s" % n, ok,
               "SSP-RK3 kernel does not realise (I + A + A^2/2 + A^3/6) for the step it is given; %s" % detail if not ok else
               "equals I + A + A^2/2 + A^3/6 with A the Euler operator at the full step",
               key="C20.ssprk3|%s|%s" % (n, detail[:120]),
               sample={"kernel": "vorticity_stretching_timestep_ssprk3", "component": n, "terms_in_A3": len(as_poly(A3[n].leaf).t)})
    # the step taken is the step given, in the kernel's own precision: a double-precision kernel must not route the step (or any
    # other computed scalar) through single precision.  Traced (no symbolic execution) with a double-precision session.
    from ..driver import Session
    from .common import CATALOGUE, entry_trace
    S64 = Session(S.repo, "float64")
    n64 = 0
    for e in CATALOGUE:
        if "timestep" not in e.gen:
            continue
        tr, pr, raised = entry_trace(S64, e)
        prec = [p for p in pr if getattr(p, "pkind", "") == "precision"]
        n64 += 1
        rep.ob("C20.euler", "%s in double precision: no scalar routed through single precision" % e.label(), not prec,
               "%s at %s" % (prec[0].msg, prec[0].where) if prec else "no narrowing conversion", key="C20.euler|f64|%s|%s" % (e.label(), bool(prec)), nontrivial=False)
    if n64 < 6:
        raise Unsupported("expected the time-step kernels in the catalogue, found %d" % n64)
    rep.require_min("C20.euler", 26)
    rep.require_min("C20.ssprk3", 3)


def fit_polynomial(got, i0, a1, a2, a3):
    """find rational c0..c3 with got == c0 I + c1 A + c2 A^2 + c3 A^3 (diagnostics only)"""
    from ..poly import as_poly
    try:
        g = as_poly(got.leaf)
        basis = [as_poly(x.leaf) for x in (i0, a1, a2, a3)]
    except Exception:
        return ""
    coeffs = []
    rem = g
    for b in reversed(basis):
        # pick a monomial unique to this basis element (highest degree in velocity)
        m = max(b.t, key=lambda mm: (sum(e for a, e in mm if a[0] == "f" and a[1].startswith("velocity")), repr(mm)))
        c = rem.t.get(m, 0) / b.t[m]
        coeffs.append(c)
        rem = rem - b.scale(c)
    coeffs.reverse()
    if rem.is_zero():
        return "it realises %s I + %s A + %s A^2 + %s A^3" % tuple(coeffs)
    return ""
