"""Algebraic tools on extracted expressions: renaming through launch bindings, application of a
stencil to polynomial test fields, telescoping test, symmetry transforms."""
from __future__ import annotations

import itertools
from fractions import Fraction as Fr

from .poly import PW, Cond, Poly, Rat, as_poly, as_rat, const, fld, sym, poly_diff, fn_arg
from .values import Arr, Unsupported, simplify_scalar, to_pw
from .store import ViewInfo, comp_rank


# ---------------------------------------------------------------------------- launches
def bound_name(arr):
    """base name of the array component a launch parameter is bound to"""
    vi = ViewInfo(arr)
    lab = vi.alloc.label.split(".")[-1]
    comps = vi.comp_tuples()
    if len(comps) != 1:
        return lab, None
    c = comps[0]
    s = lab + ("[" + ",".join(str(x) for x in c) + "]" if c else "")
    if vi.part:
        s += "." + vi.part
    return s, vi


def launch_exprs(op):
    """assignments of one launch with stencil fields renamed to the bound array components and
    scalar parameters substituted: list of (out_name, expr)"""
    sd = op.kernel.stencil
    names = {}
    for f, a in op.arrays.items():
        n, vi = bound_name(a)
        if vi is None:
            raise Unsupported("launch on a multi-component view")
        names[f] = n
    scal = {("s", n): to_pw(v) for n, v in op.scalars.items()}
    out = []
    for asg in sd.assigns:
        e = asg.expr.map_atoms(lambda a: ("f", names[a[1]], a[2]) if a[0] == "f" else a)
        if scal:
            e = e.subs(scal)
        out.append((names[asg.field], e))
    return out


# ---------------------------------------------------------------------------- polynomial test fields
COORD = ("X", "Y", "Z")


def generic_poly(name, dim, degree, extra_cubic_axes=()):
    """polynomial in the coordinates with symbolic coefficients a_<name>_<i><j><k>"""
    p = Poly()
    for exps in itertools.product(range(degree + 1), repeat=dim):
        if sum(exps) > degree:
            continue
        term = Poly.sym("a_%s_%s" % (name, "".join(str(e) for e in exps)))
        for ax, e in enumerate(exps):
            term = term * (Poly.sym(COORD[ax]) ** e)
        p = p + term
    for ax in extra_cubic_axes:
        p = p + Poly.sym("a_%s_cub%d" % (name, ax)) * (Poly.sym(COORD[ax]) ** 3)
    return p


def eval_at_offset(p, off, dim, h):
    """value of polynomial p(X, Y, Z) at the cell displaced by array offset `off` (x = last axis)"""
    sub = {}
    for ax in range(dim):
        o = off[dim - 1 - ax]
        sub[("s", COORD[ax])] = h.scale(o) if isinstance(h, Poly) else Poly.sym("h").scale(o)
    return as_poly(p.subs(sub))


def apply_to_fields(expr, fields, dim, h=None):
    """substitute field atoms by the values of polynomial test fields at the accessed cells"""
    h = h if h is not None else Poly.sym("h")
    sub = {}
    for a in expr.all_atoms():
        if a[0] == "f" and a[1] in fields:
            sub[a] = eval_at_offset(fields[a[1]], a[2][-dim:], dim, h)
    return expr.subs(sub)


def d_dx(p, axis):
    return poly_diff(p, ("s", COORD[axis]))


def at_origin(p):
    return as_poly(p.subs({("s", c): Poly() for c in COORD}))


# ---------------------------------------------------------------------------- telescoping
def monomial_shape(m):
    """canonical translate of a monomial: (shape, translation) where translation is the offset of
    its lexicographically smallest field atom"""
    facc = [(a, e) for a, e in m if a[0] == "f"]
    if not facc:
        return None, None
    if any(not all(isinstance(o, int) for o in a[2]) for a, _ in facc):
        return None, None
    base = min(a[2] for a, _ in facc)
    rank = len(base)
    if any(len(a[2]) != rank for a, _ in facc):
        return None, None
    shape = []
    for a, e in m:
        if a[0] == "f":
            shape.append((("f", a[1], tuple(o - b for o, b in zip(a[2], base))), e))
        else:
            shape.append((a, e))
    return tuple(sorted(shape, key=repr)), base


def telescopes(expr):
    """does the sum over all cells of expr vanish identically for compactly supported fields?
    Criterion: grouping monomials that are translates of one another, coefficients sum to zero.
    Returns (ok, offending shape or None)."""
    expr = PW.of(expr)
    if not expr.is_leaf():
        return False, "piecewise"
    r = expr.leaf
    if not r.den.atoms() <= {a for a in r.den.atoms() if a[0] == "s"}:
        return False, "field-dependent denominator"
    sums = {}
    for m, c in r.num.t.items():
        shape, base = monomial_shape(m)
        if shape is None:
            return False, "constant or absolute term %r" % (m,)
        sums[shape] = sums.get(shape, 0) + c
    for shape, c in sums.items():
        if c != 0:
            return False, shape
    return True, None


def linear_coefficient_sums(expr, names):
    """for an expression linear in the atoms of the given field names: name -> sum of coefficients"""
    expr = PW.of(expr)
    if not expr.is_leaf():
        raise Unsupported("piecewise")
    r = expr.leaf
    out = {n: Rat(Poly()) for n in names}
    for m, c in r.num.t.items():
        fs = [(a, e) for a, e in m if a[0] == "f" and a[1] in names]
        if len(fs) != 1 or fs[0][1] != 1:
            continue
        rest = tuple((a, e) for a, e in m if not (a[0] == "f" and a[1] in names))
        out[fs[0][0][1]] = out[fs[0][0][1]] + Rat(Poly({rest: c}), r.den)
    return out


# ---------------------------------------------------------------------------- symmetry transforms
class GridTransform:
    """element of the grid symmetry group acting on coordinates: perm maps coordinate axis a to
    perm[a]; mirror is a set of coordinate axes whose direction is reversed."""

    def __init__(self, dim, perm=None, mirror=()):
        self.dim = dim
        self.perm = tuple(perm) if perm is not None else tuple(range(dim))
        self.mirror = frozenset(mirror)

    @property
    def det(self):
        # parity of the permutation times (-1)^mirrors
        p = list(self.perm)
        sign = 1
        for i in range(len(p)):
            while p[i] != i:
                j = p[i]
                p[i], p[j] = p[j], p[i]
                sign = -sign
        return sign * (-1) ** len(self.mirror)

    def map_offset(self, off):
        """array offset (last axis = x) -> transformed array offset"""
        dim = self.dim
        lead, g = off[:-dim] if len(off) > dim else (), off[-dim:]
        new = [0] * dim
        for a in range(dim):
            o = g[dim - 1 - a]
            b = self.perm[a]
            if isinstance(o, int):
                v = -o if b in self.mirror else o
            else:
                raise Unsupported("symmetry transform of an absolute offset")
            new[dim - 1 - b] = v
        return tuple(lead) + tuple(new)

    def comp_sign(self, kind, c):
        """(new component, sign) of component c of a field of the given kind"""
        if kind == "scalar":
            return None, 1
        if kind == "pseudoscalar":
            return None, self.det
        b = self.perm[c]
        s = -1 if b in self.mirror else 1
        if kind == "pseudovector":
            s *= self.det
        return b, s

    def describe(self):
        names = "xyz"
        s = "perm(%s)" % ",".join("%s->%s" % (names[a], names[b]) for a, b in enumerate(self.perm))
        if self.mirror:
            s += " mirror(%s)" % ",".join(names[a] for a in sorted(self.mirror))
        return s


def split_name(n):
    """'F[2]' -> ('F', 2); 'f' -> ('f', None)"""
    if n.endswith("]") and "[" in n:
        b, _, c = n[:-1].rpartition("[")
        try:
            return b, int(c)
        except ValueError:
            return n, None
    return n, None


def transform_expr(expr, T, kinds, sym_kinds=None):
    """apply T to every field atom (and to vector-valued symbol families like free_stream[c]).
    kinds: base array name -> 'scalar' | 'pseudoscalar' | 'vector' | 'pseudovector'"""
    sym_kinds = sym_kinds or {}
    sub = {}
    for a in expr.all_atoms():
        if a[0] == "f":
            base, c = split_name(a[1])
            kind = kinds.get(base)
            if kind is None:
                raise Unsupported("no tensor kind declared for array %s" % base)
            if c is None:
                _, s = T.comp_sign(kind, None)
                nn = a[1]
            else:
                b, s = T.comp_sign(kind, c)
                nn = "%s[%d]" % (base, b)
            na = ("f", nn, T.map_offset(a[2]))
            if na != a or s != 1:
                sub[a] = Poly.atom(na).scale(s)
        elif a[0] == "s":
            base, c = split_name(a[1])
            if c is not None and base in sym_kinds:
                b, s = T.comp_sign(sym_kinds[base], c)
                na = ("s", "%s[%d]" % (base, b))
                if na != a or s != 1:
                    sub[a] = Poly.atom(na).scale(s)
    if not sub:
        return expr
    return _simultaneous_subs(expr, sub)


def _simultaneous_subs(expr, sub):
    """substitution where targets may also be sources: go through fresh placeholders"""
    tmp = {}
    back = {}
    for i, (a, v) in enumerate(sub.items()):
        ph = ("f", "__ph%d" % i, ())      # a field-like atom: no sign is assumed for it
        tmp[a] = Poly.atom(ph)
        back[ph] = v
    return expr.subs(tmp).subs(back)


def grid_group(dim, with_mirrors=True):
    """generators of the grid symmetry group: transpositions / cyclic permutation and mirrors"""
    out = []
    if dim == 2:
        out.append(GridTransform(2, (1, 0)))
    else:
        out.append(GridTransform(3, (1, 0, 2)))
        out.append(GridTransform(3, (1, 2, 0)))
        out.append(GridTransform(3, (0, 2, 1)))
    if with_mirrors:
        for a in range(dim):
            out.append(GridTransform(dim, None, (a,)))
    return out


# ---------------------------------------------------------------------------- differentiation
def diff_rat(r, atom):
    """d r / d atom for a rational function whose function atoms are sin/cos of rational arguments"""
    from .poly import mk_fn
    r = as_rat(r)

    def dpoly(p):
        res = Rat(Poly())
        for m, c in p.t.items():
            for i, (a, e) in enumerate(m):
                if a == atom:
                    da = Rat(Poly.const(1))
                elif a[0] == "fn":
                    arg = fn_arg(a)
                    if atom not in arg.all_atoms():
                        continue
                    darg = diff_rat(arg, atom)
                    if a[1] == "sin":
                        da = as_rat(mk_fn("cos", arg)) * darg
                    elif a[1] == "cos":
                        da = -as_rat(mk_fn("sin", arg)) * darg
                    else:
                        raise Unsupported("derivative of %s" % a[1])
                else:
                    continue
                rest = tuple(x for j, x in enumerate(m) if j != i)
                term = Rat(Poly({rest: c})) * Rat(Poly.atom(a) ** (e - 1)) * da * e if e > 1 else Rat(Poly({rest: c})) * da
                res = res + term
        return res
    dn, dd = dpoly(r.num), dpoly(r.den)
    return (dn * Rat(r.den) - Rat(r.num) * dd) / Rat(r.den * r.den)
