"""Abstract model of an HDF5 file as used through h5py (trusted: h5py stores and returns array data bit-exactly)."""
from __future__ import annotations

from .values import Arr, Opaque, RaisedInAnalysed, SliceVal, Unsupported


class H5Model:
    def __init__(self, name):
        self.name = name
        self.groups = []       # creation order
        self.datasets = {}     # path -> Arr (content at creation)
        self.attrs = {}        # path -> {key: value}
        self.order = []

    def paths(self):
        return list(self.order)


class H5Node:
    """file / group / dataset handle"""

    def __init__(self, model, path, kind, mode):
        self.model, self.path, self.kind, self.mode = model, path, kind, mode

    def child(self, name):
        return (self.path + "/" + name) if self.path else name

    def sa_getattr(self, I, attr, node, ms):
        if attr == "attrs":
            return H5Attrs(self.model, self.path, self.mode)
        if attr in ("create_group", "create_dataset", "visit", "keys", "close", "require_group"):
            return H5Method(self, attr)
        if attr == "shape" and self.kind == "dataset":
            return self.model.datasets[self.path].shape
        raise Unsupported("h5py attribute %s" % attr)

    def sa_index(self, I, idx, node, ms):
        if self.kind == "dataset":
            arr = self.model.datasets[self.path]
            I.trace.append(_op("H5Read", path=self.path, file=self.model.name, index=idx, where=I.where(node, ms)))
            if len(idx) == 1 and idx[0] is Ellipsis:
                return arr
            return I.index_array(arr, idx, node, ms)
        if len(idx) != 1 or not isinstance(idx[0], str):
            raise Unsupported("h5py group index %r" % (idx,))
        p = self.child(idx[0])
        if p in self.model.datasets:
            return H5Node(self.model, p, "dataset", self.mode)
        if p in self.model.groups:
            return H5Node(self.model, p, "group", self.mode)
        raise RaisedInAnalysed("KeyError", "h5py: object %r does not exist in %s" % (p, self.model.name), I.where(node, ms))

    def sa_contains(self, I, item):
        p = self.child(item)
        return p in self.model.datasets or p in self.model.groups

    def sa_enter(self):
        return self

    def __repr__(self):
        return "<h5 %s %s:%s>" % (self.kind, self.model.name, self.path)


class H5Attrs:
    def __init__(self, model, path, mode):
        self.model, self.path, self.mode = model, path, mode

    def sa_store(self, I, idx, v, node, ms):
        self.model.attrs.setdefault(self.path, {})[idx[0]] = v
        I.trace.append(_op("H5AttrWrite", path=self.path, key=idx[0], value=v, file=self.model.name, where=I.where(node, ms)))

    def sa_getattr(self, I, attr, node, ms):
        if attr == "create":
            return H5AttrCreate(self)
        raise Unsupported("h5py attribute-manager member %s" % attr)

    def sa_index(self, I, idx, node, ms):
        d = self.model.attrs.get(self.path, {})
        if idx[0] not in d:
            raise RaisedInAnalysed("KeyError", "h5py: attribute %r missing on %r" % (idx[0], self.path), I.where(node, ms))
        I.trace.append(_op("H5AttrRead", path=self.path, key=idx[0], file=self.model.name, where=I.where(node, ms)))
        return d[idx[0]]


class H5AttrCreate:
    """attrs.create(name, data, shape=None, dtype=None): with an explicit dtype the value is converted on the way to the file"""

    def __init__(self, attrs):
        self.attrs = attrs

    def sa_call(self, I, args, kwargs, node, ms):
        from .values import DType, Opaque
        names = ("name", "data", "shape", "dtype")
        kw = dict(zip(names, args))
        kw.update(kwargs)
        if "name" not in kw or "data" not in kw:
            raise Unsupported("attrs.create without name/data")
        v, dt = kw["data"], kw.get("dtype")
        if kw.get("shape") is not None:
            raise Unsupported("attrs.create with an explicit shape")
        if dt is not None and not (isinstance(dt, DType) and dt.name == "float64"):
            v = Opaque("converted to %r" % (dt,), (v, dt))      # not the caller's value any more (narrowing for float32)
        self.attrs.sa_store(I, (kw["name"],), v, node, ms)
        return None


class H5Method:
    def __init__(self, node, name):
        self.node, self.name = node, name

    def sa_call(self, I, args, kwargs, node, ms):
        n, m = self.node, self.node.model
        if self.name in ("create_group", "require_group"):
            p = n.child(args[0])
            if p in m.groups and self.name == "create_group":
                raise RaisedInAnalysed("ValueError", "h5py: group %r already exists" % p, I.where(node, ms))
            if p not in m.groups:
                m.groups.append(p)
                m.order.append(p)
            return H5Node(m, p, "group", n.mode)
        if self.name == "create_dataset":
            p = n.child(args[0])
            data = kwargs.get("data", args[1] if len(args) > 1 else None)
            if not isinstance(data, Arr):
                raise Unsupported("create_dataset with data %r" % (data,))
            if p in m.datasets:
                raise RaisedInAnalysed("ValueError", "h5py: dataset %r already exists" % p, I.where(node, ms))
            m.datasets[p] = data
            m.order.append(p)
            I.trace.append(_op("H5Write", path=p, data=data, file=m.name, where=I.where(node, ms)))
            return H5Node(m, p, "dataset", n.mode)
        if self.name == "visit":
            fn = args[0]
            for p in m.paths():
                I.call(fn, [p], {}, node, ms)
            return None
        if self.name == "keys":
            pre = n.path + "/" if n.path else ""
            return [p[len(pre):] for p in m.paths() if p.startswith(pre) and "/" not in p[len(pre):]]
        if self.name == "close":
            return None
        raise Unsupported("h5py method %s" % self.name)


def _op(kind, **kw):
    from .values import Op
    return Op(kind, **kw)


def open_file(I, args, kwargs, node, ms):
    name = args[0]
    mode = args[1] if len(args) > 1 else kwargs.get("mode", "r")
    files = I.__dict__.setdefault("h5_files", {})
    if not isinstance(name, str):
        name = str(name)
    if mode == "w":
        files[name] = H5Model(name)
    elif name not in files:
        raise RaisedInAnalysed("FileNotFoundError", "no such file %s" % name, I.where(node, ms))
    return H5Node(files[name], "", "file", mode)
