"""Summaries of the external libraries SophT calls (assumptions A1, A3-A5 of DESIGN 3).

Only what the analysed code uses; anything else raises Unsupported.
"""
from __future__ import annotations

import ast
from fractions import Fraction

from . import poly
from .poly import PW, Cond, const as pconst, sym as psym
from .values import (Alloc, Arr, Bound, Class, DType, Ext, FFTPlan, Field, Func, Inst, Kernel,
                     KernelAST, KernelConfig, ModuleRef, Njit, Op, Opaque, RaisedInAnalysed,
                     SliceVal, StencilDef, Unsupported, is_num, is_scalar, simplify_scalar, to_pw)

ALIASES = {
    "numpy.linalg": "numpy.linalg",
    "scipy.sparse": "scipy.sparse",
}

DTYPES = {"numpy.float32": "float32", "numpy.float64": "float64", "numpy.complex64": "complex64",
          "numpy.complex128": "complex128", "numpy.int32": "int32", "numpy.int64": "int64",
          "numpy.int_": "int64", "numpy.bool_": "bool", "numpy.double": "float64",
          "numpy.single": "float32"}

TYPING_NAMES = {"typing", "typing_extensions", "collections.abc", "abc"}


def _dim_eq(a, b):
    a, b = simplify_scalar(a), simplify_scalar(b)
    if is_num(a) and is_num(b):
        return a == b
    return to_pw(a) == to_pw(b)


def _is_one(a):
    a = simplify_scalar(a)
    return is_num(a) and a == 1


def broadcast_shapes(shapes):
    """numpy broadcasting on (possibly symbolic) shapes; returns shape or None if incompatible"""
    n = max(len(s) for s in shapes)
    out = []
    for k in range(1, n + 1):
        dim = None
        for s in shapes:
            if len(s) < k:
                continue
            d = s[-k]
            if dim is None or _is_one(dim):
                dim = d
            elif _is_one(d) or _dim_eq(d, dim):
                pass
            else:
                return None
        out.append(dim)
    return tuple(reversed(out))


def arr_valfn(arr):
    """content function of a *view*: view index tuple -> PW (or None if unknown)"""
    base = arr.alloc.valfn
    if base is None:
        return None
    axes = arr.axes
    part = arr.part
    perm = arr.perm

    def f(idx):
        idx = list(idx)
        if perm is not None:
            un = [None] * len(idx)
            for newpos, oldpos in enumerate(perm):
                un[oldpos] = idx[newpos]
            idx = un
        full = []
        k = 0
        for a in axes:
            if a[0] == "i":
                full.append(a[1])
            else:
                full.append(a[1] + to_pw(idx[k]))
                k += 1
        v = base(tuple(full))
        if part is not None:
            raise Unsupported("content of a real/imag part")
        return v
    return f


def lead_done(lead):
    return any(v is None for v in lead)


class ExtLib:
    def __init__(self, interp):
        self.I = interp
        self.tmp = 0

    # ------------------------------------------------------------------ helpers
    def new_alloc(self, label, shape, dtype, how, valfn=None, node=None, ms=None):
        if label is None:
            self.tmp += 1
            label = "_tmp%d" % self.tmp
        a = Alloc(label, shape, dtype, how, valfn)
        if node is not None and ms is not None:
            a.site = (getattr(ms, "module", "?"), getattr(node, "lineno", 0))
        return a

    def derived_array(self, how, reads, shape, dtype, node, ms, valfn=None, meta=None):
        al = self.new_alloc(None, shape, dtype, "derived:" + how, valfn, node, ms)
        out = Arr(al)
        self.I.trace.append(Op("NumpyOp", fn=how, reads=[r for r in reads if isinstance(r, Arr)], out=out,
                               meta=meta or {}, where=self.I.where(node, ms), stack=tuple(self.I.call_stack),
                               args=list(reads)))
        al.derivation = (how, list(reads), meta or {})
        deps = {}
        for r in list(reads) + list((meta or {}).get("index", []) if isinstance((meta or {}).get("index", []), (list, tuple)) else []):
            if isinstance(r, Arr):
                deps[r.alloc.id] = getattr(r.alloc, "cver", 0)
        al.dep_versions = deps
        return out

    def shape_arg(self, v):
        if isinstance(v, (tuple, list)):
            return tuple(v)
        return (v,)

    def dtype_arg(self, v, default="float64"):
        if v is None:
            return DType(default)
        if isinstance(v, DType):
            return v
        if isinstance(v, Opaque) and v.tag == "builtin" and v.info in ("int", "float", "bool", "complex"):
            return DType({"int": "int64", "float": "float64", "bool": "bool", "complex": "complex128"}[v.info])
        if isinstance(v, str):
            return DType(v)
        raise Unsupported("dtype argument %r" % (v,))

    # ------------------------------------------------------------------ attribute access
    def attr(self, ext, attr):
        path = ext.path + "." + attr
        if path in DTYPES:
            return DType(DTYPES[path])
        if path in ("typing.TYPE_CHECKING", "typing_extensions.TYPE_CHECKING"):
            return False
        if path == "numpy.pi":
            return psym("pi")
        if path == "numpy.inf":
            return psym("inf")
        if path == "numpy.newaxis":
            return Opaque("newaxis")
        return Ext(path)

    def dtype_attr(self, d, attr):
        if attr == "type":
            return d            # numpy.dtype(...).type is the scalar type; the abstraction uses one value for both
        raise Unsupported("dtype attribute %s" % attr)

    def array_attr(self, arr, attr, e, ms):
        if attr == "shape":
            return arr.shape
        if attr == "ndim":
            return arr.ndim
        if attr == "dtype":
            return arr.dtype
        if attr == "size":
            n = 1
            for s in arr.shape:
                n = n * s
            return simplify_scalar(n)
        if attr in ("real", "imag"):
            if arr.dtype.kind != "c":
                if attr == "real":
                    return arr
                raise Unsupported(".imag of a real array")
            if arr.part is not None:
                raise Unsupported("part of part")
            return Arr(arr.alloc, arr.axes, attr, arr.perm)
        if attr == "T":
            return self.transpose(arr, None, e, ms)
        if attr == "flags":
            return Opaque("arrflags", arr)
        if attr in ("view", "astype", "copy", "reshape", "transpose", "argsort", "toarray", "sum", "fill",
                    "max", "min", "mean", "flatten", "ravel", "tolist", "item", "all", "any", "squeeze", "setflags"):
            return Opaque("arrmethod", (arr, attr))
        raise Unsupported("array attribute %s at %s" % (attr, self.I.where(e, ms)))

    def opaque_attr(self, o, attr, e, ms):
        if o.tag == "logger":
            return Opaque("logmethod", attr)
        if o.tag == "finfo":
            if attr == "eps":
                return psym("eps")
            raise Unsupported("finfo.%s" % attr)
        if o.tag == "sparse":
            if attr == "toarray":
                return Opaque("sparse_toarray", o.info)
        if o.tag == "fftbuilder":
            return Opaque("fftbuilder", (o.info, attr))
        if o.tag == "errstate":
            return o
        if o.tag == "generic":
            return o
        if o.tag == "arrflags":
            return Opaque("flagval", (o.info, attr))
        raise Unsupported("attribute %s of %r at %s" % (attr, o, self.I.where(e, ms)))

    def opaque_index(self, o, idx, e, ms):
        raise Unsupported("index into %r at %s" % (o, self.I.where(e, ms)))

    def opaque_binop(self, name, a, b, e, ms):
        if isinstance(a, Opaque) and a.tag == "sparse" and is_scalar(b):
            a, b = b, a
        if isinstance(b, Opaque) and b.tag == "sparse" and is_scalar(a) and name == "Mult":
            d = dict(b.info)
            d["scale"] = to_pw(d.get("scale", 1)) * to_pw(a)
            return Opaque("sparse", d)
        raise Unsupported("operator %s on %r, %r at %s" % (name, a, b, self.I.where(e, ms)))

    def opaque_contains(self, o, item, positive, e, ms):
        raise Unsupported("membership in %r" % (o,))

    def opaque_len(self, o, e, ms):
        raise Unsupported("len of %r" % (o,))

    def opaque_list(self, o, e, ms):
        raise Unsupported("list of %r" % (o,))

    def sorted_(self, args, kwargs, node, ms):
        raise Unsupported("sorted()")

    def sym_minmax(self, name, vals, node, ms):
        """python min/max over symbolic scalars: returned as an explicit MinMax node"""
        return MinMax(name, [to_pw(v) for v in vals])

    def isinstance_(self, v, t):
        v = simplify_scalar(v)
        def one(t):
            if isinstance(t, Opaque) and t.tag == "builtin":
                if t.info == "int":
                    if isinstance(v, PW):
                        # symbolic sizes / counts are integers; other symbols are not known to be
                        return getattr(v, "_is_int", None) if hasattr(v, "_is_int") else self.sym_is_int(v)
                    return isinstance(v, int) and not isinstance(v, bool)
                if t.info == "float":
                    return isinstance(v, Fraction) or (isinstance(v, PW) and not self.sym_is_int(v))
                if t.info == "bool":
                    return isinstance(v, bool)
                if t.info == "str":
                    return isinstance(v, str)
                if t.info in ("tuple", "list", "dict"):
                    return isinstance(v, {"tuple": tuple, "list": list, "dict": dict}[t.info])
            if isinstance(t, Class):
                return isinstance(v, Inst) and t in v.cls.mro()
            if isinstance(t, Ext) and t.path == "numpy.ndarray":
                return isinstance(v, Arr)
            if isinstance(t, Ext):
                if isinstance(v, Opaque) and v.tag == "extobj":
                    return v.info.get("cls") == t.path
                return False
            raise Unsupported("isinstance against %r" % (t,))
        if isinstance(t, tuple):
            return any(one(x) for x in t)
        return one(t)

    INT_SYMBOLS = set()

    def sym_is_int(self, v):
        ats = v.all_atoms()
        return bool(ats) and all(a[0] == "s" and a[1] in self.INT_SYMBOLS for a in ats)

    def type_of(self, v):
        v = simplify_scalar(v)
        if isinstance(v, bool):
            return Opaque("type", "bool")
        if isinstance(v, int):
            return Opaque("type", "int")
        if isinstance(v, tuple):
            return Opaque("type", "tuple")
        if isinstance(v, list):
            return Opaque("type", "list")
        if isinstance(v, Inst):
            return v.cls
        if isinstance(v, (Fraction, PW)):
            return Opaque("type", "float")
        return Opaque("type", type(v).__name__)

    def cast(self, dt, args, kwargs, node, ms):
        """real_t(x): identity up to rounding (A2)"""
        v = args[0]
        if isinstance(v, Arr):
            return self.astype(v, dt, node, ms)
        wp = getattr(self, "working_precision", None)
        if wp is not None and wp.name == "float64" and dt.name in ("float32", "float16") and not is_num(simplify_scalar(v)) and is_scalar(v):
            # a double-precision object that converts a computed scalar to single precision (whichever way the narrower type
            # was obtained, e.g. a helper's default) no longer works "up to rounding" of its own precision
            self.I.problem("precision", "a computed value is converted to %s in a double-precision computation" % dt.name, node, ms)
        return v

    # ------------------------------------------------------------------ element values
    def element_value(self, res, index, node, ms):
        al = res.alloc
        self.I.trace.append(Op("ElemRead", arr=res, index=index, where=self.I.where(node, ms),
                               stack=tuple(self.I.call_stack)))
        if al.valfn is not None:
            try:
                v = al.valfn(tuple(index))
            except Unsupported:
                v = None
            if isinstance(v, PW):
                return simplify_scalar(v)
        name = "%s[%s]" % (al.label, ",".join(str(simplify_scalar(i)) for i in index))
        al.elem_syms = getattr(al, "elem_syms", {})
        al.elem_syms[name] = (res, index)
        return psym(name)

    # ------------------------------------------------------------------ numpy-level array operations
    def astype(self, arr, dt, node, ms):
        return self.derived_array("astype", [arr], arr.shape, dt, node, ms, valfn=arr_valfn(arr))

    def transpose(self, arr, perm, node, ms):
        n = arr.ndim
        if perm is None:
            perm = tuple(reversed(range(n)))
        perm = tuple(simplify_scalar(p) for p in perm)
        if arr.perm is not None:
            perm = tuple(arr.perm[p] for p in perm)
        return Arr(arr.alloc, arr.axes, arr.part, perm)

    OPNAMES = {"Add": "add", "Sub": "sub", "Mult": "mul", "Div": "div", "Pow": "pow", "neg": "neg",
               "abs": "abs", "FloorDiv": "floordiv", "Mod": "mod",
               "Eq": "eq", "NotEq": "ne", "Lt": "lt", "LtE": "le", "Gt": "gt", "GtE": "ge"}

    def scalar_op(self, name, vals):
        I = self.I
        vals = [int(v) if isinstance(v, bool) else v for v in vals]
        if name in ("add", "sub", "mul", "div", "pow", "floordiv", "mod"):
            astname = {"add": "Add", "sub": "Sub", "mul": "Mult", "div": "Div", "pow": "Pow",
                       "floordiv": "FloorDiv", "mod": "Mod"}[name]
            return to_pw(I.scalar_binop(astname, vals[0], vals[1]))
        if name == "neg":
            return -to_pw(vals[0])
        if name in ("abs", "fabs"):
            return poly.fn("abs", to_pw(vals[0]))
        if name in ("sqrt", "log", "sin", "cos", "exp", "floor", "rint", "ceil", "trunc"):
            # (rint / ceil / trunc are opaque functions of their argument: equal only to themselves, never to floor)
            return poly.fn(name, to_pw(vals[0]))
        if name in ("eq", "ne", "lt", "le", "gt", "ge"):
            a, b = to_pw(vals[0]), to_pw(vals[1])
            d = a - b
            op = {"lt": "<", "le": "<=", "gt": ">", "ge": ">="}.get(name)
            if op is None:
                raise Unsupported("equality comparison content")

            def ind(t):
                if t.is_leaf():
                    return PW.ite(Cond(t.leaf, op), pconst(1), pconst(0))
                return PW.ite(t.cond, ind(t.a), ind(t.b))
            return ind(d)
        if name in ("minimum", "maximum"):
            a, b = to_pw(vals[0]), to_pw(vals[1])
            d = a - b
            if not d.is_leaf():
                raise Unsupported("min of piecewise")
            c = Cond(d.leaf, "<" if name == "minimum" else ">")
            return PW.ite(c, a, b)
        raise Unsupported("elementwise %s content" % name)

    def elementwise(self, opname, operands, node, ms, out=None):
        name = self.OPNAMES.get(opname, opname)
        arrs = [o for o in operands if isinstance(o, Arr)]
        for o in operands:
            if not isinstance(o, Arr) and not is_scalar(o) and not isinstance(o, MinMax):
                if isinstance(o, (list, tuple)):
                    raise Unsupported("sequence operand in array arithmetic at %s" % self.I.where(node, ms))
                raise Unsupported("operand %r in array arithmetic at %s" % (o, self.I.where(node, ms)))
        shape = broadcast_shapes([a.shape for a in arrs])
        if shape is None:
            self.I.problem("broadcast", "operands could not be broadcast together: %s" % ", ".join(
                "%s%s" % (a.describe(), a.shape) for a in arrs), node, ms)
            raise RaisedInAnalysed("ValueError", "broadcast", self.I.where(node, ms))
        kinds = [a.dtype.kind for a in arrs]
        dt = arrs[0].dtype
        for a in arrs:
            if a.dtype.kind in ("c", "pc"):
                dt = a.dtype
        if name in ("eq", "ne", "lt", "le", "gt", "ge"):
            dt = DType("bool")
        if name == "div" and dt.kind == "i":
            dt = DType("float64")
        fns = []
        ok = True
        for o in operands:
            if isinstance(o, Arr):
                f = arr_valfn(o)
                if f is None:
                    ok = False
                fns.append((o, f))
            else:
                fns.append((o, None))
        valfn = None
        if ok and name not in ("eq", "ne"):
            def valfn(idx, fns=fns, name=name, shape=shape):
                vals = []
                for o, f in fns:
                    if isinstance(o, Arr):
                        sh = o.shape
                        sub = list(idx[len(idx) - len(sh):]) if len(sh) else []
                        sub = [pconst(0) if _is_one(d) and not _is_one(full) else i
                               for i, d, full in zip(sub, sh, shape[len(shape) - len(sh):])]
                        vals.append(f(tuple(sub)))
                    else:
                        vals.append(o)
                return self.scalar_op(name, vals)
        if out is not None:
            if dt.kind in ("c", "pc") and out.dtype.kind not in ("c", "pc"):
                self.I.problem("dtype", "numpy ufunc with out=%s: operands may be complex (result of numpy.linalg.eig) but the output "
                               "array is real; numpy refuses the cast" % out.describe(), node, ms)
            self.I.trace.append(Op("NumpyOp", fn=name, reads=arrs, out=out, meta={"out_kw": True},
                                   where=self.I.where(node, ms), stack=tuple(self.I.call_stack), args=list(operands)))
            return out
        return self.derived_array(name, operands, shape, dt, node, ms, valfn=valfn)

    def matmul(self, a, b, node, ms):
        if not (isinstance(a, Arr) and isinstance(b, Arr)):
            raise Unsupported("matmul operands")
        sa, sb = a.shape, b.shape
        if len(sa) == 2 and len(sb) == 2:
            shape = (sa[0], sb[1])
        elif len(sa) == 2 and len(sb) == 1:
            shape = (sa[0],)
        elif len(sa) == 1 and len(sb) == 2:
            shape = (sb[1],)
        else:
            raise Unsupported("matmul ranks")
        return self.derived_array("matmul", [a, b], shape, a.dtype, node, ms)

    def c_functools_lru_cache(self, args, kwargs, node, ms):
        from .values import Func
        if args and isinstance(args[0], Func):
            self.I.memoised.append((args[0], False, self.I.where(node, ms)))
            return args[0]
        typed = kwargs.get("typed", args[1] if len(args) > 1 else False)
        return Opaque("memo-decorator", {"typed": typed is True})

    def c_functools_cache(self, args, kwargs, node, ms):
        from .values import Func
        if args and isinstance(args[0], Func):
            self.I.memoised.append((args[0], False, self.I.where(node, ms)))
            return args[0]
        raise Unsupported("functools.cache applied to %r at %s" % (args, self.I.where(node, ms)))

    # ------------------------------------------------------------------ calls
    def call(self, ext, args, kwargs, node, ms):
        p = ext.path
        root = p.split(".")[0]
        h = getattr(self, "c_" + p.replace(".", "_"), None)
        if h is not None:
            return h(args, kwargs, node, ms)
        if root == "logging":
            if p == "logging.getLogger":
                return Opaque("logger")
            return Opaque("logging")
        if root in ("typing", "typing_extensions", "abc"):
            return Opaque("generic", p)
        raise Unsupported("external call %s at %s" % (p, self.I.where(node, ms)))

    def call_opaque(self, o, args, kwargs, node, ms):
        if o.tag == "logmethod":
            return None
        if o.tag == "arrmethod":
            arr, m = o.info
            return self.array_method(arr, m, args, kwargs, node, ms)
        if o.tag == "pymethod":
            obj, m = o.info
            return self.py_method(obj, m, args, kwargs, node, ms)
        if o.tag == "sparse_toarray":
            return self.sparse_toarray(o.info, node, ms)
        if o.tag == "njit-factory":
            return Opaque("njit-decorator", kwargs)
        if o.tag == "generic":
            return Opaque("generic", "call")
        raise Unsupported("call of %r at %s" % (o, self.I.where(node, ms)))

    def py_method(self, obj, m, args, kwargs, node, ms):
        if isinstance(obj, dict):
            if m == "get":
                k = args[0]
                return obj.get(k, args[1] if len(args) > 1 else kwargs.get("default"))
            if m == "setdefault":
                return obj.setdefault(args[0], args[1] if len(args) > 1 else None)
            if m == "keys":
                return list(obj.keys())
            if m == "values":
                return list(obj.values())
            if m == "items":
                return list(obj.items())
            if m == "update":
                obj.update(args[0] if args else {})
                obj.update(kwargs)
                return None
        if isinstance(obj, list):
            if m == "append":
                obj.append(args[0])
                return None
            if m == "extend":
                obj.extend(args[0])
                return None
            if m == "index":
                return obj.index(args[0])
        if isinstance(obj, str):
            if m in ("format", "replace", "split", "join", "startswith", "endswith", "lower", "upper", "strip"):
                try:
                    return getattr(obj, m)(*args, **kwargs)
                except Exception as ex:
                    raise Unsupported("str.%s: %s" % (m, ex))
        raise Unsupported("method %s of %s at %s" % (m, type(obj).__name__, self.I.where(node, ms)))

    def array_method(self, arr, m, args, kwargs, node, ms):
        if m == "setflags":
            if args or set(kwargs) != {"write"}:
                raise Unsupported("setflags other than write= at %s" % self.I.where(node, ms))
            self.I.trace.append(Op("SetFlag", arr=arr, flag="writeable", value=kwargs["write"], where=self.I.where(node, ms)))
            return None
        if m == "view":
            if args or kwargs:
                raise Unsupported("view with dtype")
            return Arr(arr.alloc, arr.axes, arr.part, arr.perm)
        if m == "astype":
            if kwargs.get("copy") is False:
                return self.maybe_copy(arr, self.dtype_arg(args[0] if args else kwargs.get("dtype")), node, ms, "astype")
            return self.astype(arr, self.dtype_arg(args[0] if args else kwargs.get("dtype")), node, ms)
        if m == "copy":
            return self.derived_array("copy", [arr], arr.shape, arr.dtype, node, ms, valfn=arr_valfn(arr))
        if m == "transpose":
            perm = args[0] if len(args) == 1 and isinstance(args[0], (tuple, list)) else (tuple(args) if args else None)
            return self.transpose(arr, perm, node, ms)
        if m == "reshape":
            shape = args[0] if len(args) == 1 and isinstance(args[0], (tuple, list)) else tuple(args)
            return self.reshape(arr, tuple(shape), node, ms)
        if m == "argsort":
            return self.derived_array("argsort", [arr], arr.shape, DType("int64"), node, ms)
        if m == "sum":
            return self.c_numpy_sum([arr] + list(args), kwargs, node, ms)
        if m in ("min", "max") and not args and not kwargs:
            # whole-view reduction: an explicit symbol naming the reduced view (which component / slice it is)
            self.I.trace.append(Op("NumpyOp", fn="a" + m, reads=[arr], out=None, meta={}, where=self.I.where(node, ms),
                                   stack=tuple(self.I.call_stack), args=[arr]))
            name = "a%s(%s)" % (m, arr.describe())
            self.reductions = getattr(self, "reductions", {})
            self.reductions[name] = ("a" + m, arr)
            return psym(name)
        if m == "any" and not args and not kwargs:
            return self.c_numpy_any([arr], {}, node, ms)
        if m == "fill":
            self.I.trace.append(Op("SliceAssign", dst=arr, src=args[0], aug=None, where=self.I.where(node, ms),
                                   stack=tuple(self.I.call_stack), node=node))
            return None
        raise Unsupported("array method %s at %s" % (m, self.I.where(node, ms)))

    def reshape(self, arr, shape, node, ms):
        shape = tuple(simplify_scalar(s) for s in shape)
        old = arr.shape
        if any(isinstance(s, int) and s == -1 for s in shape):
            tot = pconst(1)
            for d in old:
                tot = tot * to_pw(d)
            rest = pconst(1)
            for d in shape:
                if not (isinstance(d, int) and d == -1):
                    rest = rest * to_pw(d)
            shape = tuple(simplify_scalar(tot / rest) if (isinstance(d, int) and d == -1) else d for d in shape)
        f = arr_valfn(arr)
        valfn = None
        # recognise insertion/removal of unit axes
        core_old = [d for d in old if not _is_one(d)]
        core_new = [d for d in shape if not _is_one(d)]
        if len(core_old) == len(core_new) and all(_dim_eq(a, b) for a, b in zip(core_old, core_new)):
            meta = {"unit_axes_only": True}
            if f is not None:
                def valfn(idx, f=f, old=old, shape=shape):
                    core = [i for i, d in zip(idx, shape) if not _is_one(d)]
                    it = iter(core)
                    return f(tuple(pconst(0) if _is_one(d) else next(it) for d in old))
        else:
            meta = {"unit_axes_only": False}
        return self.derived_array("reshape", [arr], shape, arr.dtype, node, ms, valfn=valfn,
                                  meta=dict(meta, new_shape=shape))

    # ---- numpy constructors
    def _alloc(self, how, args, kwargs, node, ms, fill=None):
        shape = self.shape_arg(args[0] if args else kwargs["shape"])
        dt = self.dtype_arg(kwargs.get("dtype", args[1] if len(args) > 1 else None))
        valfn = None
        if fill is not None:
            valfn = lambda idx, fill=fill: pconst(fill)
        al = self.new_alloc(None, shape, dt, how, valfn, node, ms)
        self.I.trace.append(Op("Alloc", alloc=al, how=how, where=self.I.where(node, ms)))
        return Arr(al)

    def c_numpy_zeros(self, a, k, n, ms):
        return self._alloc("zeros", a, k, n, ms, fill=0)

    def c_numpy_ones(self, a, k, n, ms):
        return self._alloc("ones", a, k, n, ms, fill=1)

    def c_numpy_empty(self, a, k, n, ms):
        return self._alloc("empty", a, k, n, ms)

    def c_pyfftw_empty_aligned(self, a, k, n, ms):
        return self._alloc("empty", a, k, n, ms)

    def _alloc_like(self, how, a, k, n, ms, fill=None):
        src = a[0]
        if not isinstance(src, Arr):
            raise Unsupported("%s_like of %r" % (how, src))
        dt = self.dtype_arg(k.get("dtype"), src.dtype.name) if k.get("dtype") is not None else src.dtype
        valfn = (lambda idx, fill=fill: pconst(fill)) if fill is not None else None
        al = self.new_alloc(None, src.shape, dt, how, valfn, n, ms)
        self.I.trace.append(Op("Alloc", alloc=al, how=how, where=self.I.where(n, ms)))
        return Arr(al)

    def c_numpy_zeros_like(self, a, k, n, ms):
        return self._alloc_like("zeros", a, k, n, ms, fill=0)

    def c_numpy_ones_like(self, a, k, n, ms):
        return self._alloc_like("ones", a, k, n, ms, fill=1)

    def c_numpy_empty_like(self, a, k, n, ms):
        return self._alloc_like("empty", a, k, n, ms)

    def c_numpy_linspace(self, a, k, n, ms):
        start, stop, num = to_pw(a[0]), to_pw(a[1]), a[2] if len(a) > 2 else k.get("num", 50)
        numpw = to_pw(num)
        step = (stop - start) / (numpw - 1)
        valfn = lambda idx, start=start, step=step: start + to_pw(idx[0]) * step
        al = self.new_alloc(None, (num,), DType("float64"), "linspace", valfn, n, ms)
        al.affine = (start, step)
        return Arr(al)

    def c_numpy_arange(self, a, k, n, ms):
        if len(a) == 1:
            lo, hi = 0, a[0]
        else:
            lo, hi = a[0], a[1]
        if len(a) > 2:
            raise Unsupported("arange with step")
        lo_pw = to_pw(lo)
        valfn = lambda idx, lo_pw=lo_pw: lo_pw + to_pw(idx[0])
        dt = self.dtype_arg(k.get("dtype"), "int64")
        al = self.new_alloc(None, (simplify_scalar(to_pw(hi) - lo_pw),), dt, "arange", valfn, n, ms)
        al.affine = (lo_pw, pconst(1))
        return Arr(al)

    def c_numpy_meshgrid(self, a, k, n, ms):
        indexing = k.get("indexing", "xy")
        arrs = list(a)
        for x in arrs:
            if not isinstance(x, Arr) or x.ndim != 1:
                raise Unsupported("meshgrid of non-1D")
        nd = len(arrs)
        order = list(range(nd))
        if indexing == "xy" and nd >= 2:
            order[0], order[1] = 1, 0     # output axis 0 runs over input 1 and vice versa
        shape = tuple(arrs[order[ax]].shape[0] for ax in range(nd))
        outs = []
        for kk, x in enumerate(arrs):
            axis = order.index(kk)
            f = arr_valfn(x)
            valfn = (lambda idx, f=f, axis=axis: f((idx[axis],))) if f is not None else None
            o = self.derived_array("meshgrid", [x], shape, x.dtype, n, ms, valfn=valfn,
                                   meta={"varies_along": axis, "input": kk, "indexing": indexing})
            o.alloc.varies_along = axis
            outs.append(o)
        return outs

    def c_numpy_array(self, a, k, n, ms):
        v = a[0]
        if isinstance(v, Arr):
            return self.derived_array("copy", [v], v.shape, v.dtype, n, ms, valfn=arr_valfn(v))
        if isinstance(v, (list, tuple)) and v and all(isinstance(x, Arr) for x in v):
            sh = v[0].shape
            fs = [arr_valfn(x) for x in v]
            valfn = None
            if all(f is not None for f in fs):
                def valfn(idx, fs=fs):
                    i0 = simplify_scalar(idx[0])
                    if not isinstance(i0, int):
                        raise Unsupported("symbolic component index")
                    return fs[i0](tuple(idx[1:]))
            return self.derived_array("stack", list(v), (len(v),) + tuple(sh), v[0].dtype, n, ms, valfn=valfn)
        if isinstance(v, (list, tuple)) and all(is_scalar(x) for x in v):
            vals = [to_pw(x) for x in v]
            def valfn(idx, vals=vals):
                i0 = simplify_scalar(idx[0])
                if not isinstance(i0, int):
                    raise Unsupported("symbolic index")
                return vals[i0]
            dt = self.dtype_arg(k.get("dtype"), "float64")
            al = self.new_alloc(None, (len(v),), dt, "literal", valfn, n, ms)
            return Arr(al)
        raise Unsupported("np.array of %r at %s" % (v, self.I.where(n, ms)))

    c_numpy_asarray = c_numpy_array

    def c_numpy_stack(self, a, k, n, ms):
        if k.get("axis", 0) != 0:
            raise Unsupported("np.stack along a non-leading axis")
        return self.c_numpy_array([list(a[0])], {}, n, ms)

    def c_numpy_flipud(self, a, k, n, ms):
        v = a[0]
        f = arr_valfn(v)
        n0 = to_pw(v.shape[0])
        valfn = (lambda idx, f=f, n0=n0: f((n0 - 1 - to_pw(idx[0]),) + tuple(idx[1:]))) if f is not None else None
        return self.derived_array("flipud", [v], v.shape, v.dtype, n, ms, valfn=valfn)

    def _unary(self, name):
        def h(a, k, n, ms):
            v = a[0]
            if isinstance(v, Arr):
                return self.elementwise(name, [v], n, ms, out=k.get("out"))
            return simplify_scalar(self.scalar_op(name, [v]))
        return h

    def c_numpy_sqrt(self, a, k, n, ms):
        return self._unary("sqrt")(a, k, n, ms)

    def c_numpy_log(self, a, k, n, ms):
        return self._unary("log")(a, k, n, ms)

    def c_numpy_fabs(self, a, k, n, ms):
        return self._unary("fabs")(a, k, n, ms)

    def c_numpy_abs(self, a, k, n, ms):
        return self._unary("fabs")(a, k, n, ms)

    def c_numpy_sin(self, a, k, n, ms):
        return self._unary("sin")(a, k, n, ms)

    def c_numpy_cos(self, a, k, n, ms):
        return self._unary("cos")(a, k, n, ms)

    def c_numpy_floor(self, a, k, n, ms):
        return self._unary("floor")(a, k, n, ms)

    def c_numpy_rint(self, a, k, n, ms):
        return self._unary("rint")(a, k, n, ms)

    c_numpy_round = c_numpy_around = c_numpy_rint

    def c_numpy_ceil(self, a, k, n, ms):
        return self._unary("ceil")(a, k, n, ms)

    def c_numpy_trunc(self, a, k, n, ms):
        return self._unary("trunc")(a, k, n, ms)

    def _binary(self, name, a, k, n, ms):
        if isinstance(a[0], Arr) or isinstance(a[1], Arr):
            return self.elementwise(name, [a[0], a[1]], n, ms, out=k.get("out"))
        return simplify_scalar(self.scalar_op(name, [a[0], a[1]]))

    def c_numpy_minimum(self, a, k, n, ms):
        return self._binary("minimum", a, k, n, ms)

    def c_numpy_maximum(self, a, k, n, ms):
        return self._binary("maximum", a, k, n, ms)

    def c_numpy_multiply(self, a, k, n, ms):
        return self._binary("mul", a, k, n, ms)

    def c_numpy_add(self, a, k, n, ms):
        return self._binary("add", a, k, n, ms)

    def c_numpy_subtract(self, a, k, n, ms):
        return self._binary("sub", a, k, n, ms)

    def c_numpy_sum(self, a, k, n, ms):
        v = a[0]
        axis = k.get("axis", a[1] if len(a) > 1 else None)
        if not isinstance(v, Arr):
            raise Unsupported("np.sum of %r" % (v,))
        if axis is None:
            self.I.trace.append(Op("NumpyOp", fn="sum_all", reads=[v], out=None, meta={}, where=self.I.where(n, ms),
                                   stack=tuple(self.I.call_stack), args=[v]))
            return SumAll(v, pconst(1))
        axis = simplify_scalar(axis)
        if axis < 0:
            axis += v.ndim
        shape = tuple(s for i, s in enumerate(v.shape) if i != axis)
        f = arr_valfn(v)
        cnt = simplify_scalar(v.shape[axis])
        valfn = None
        if f is not None and isinstance(cnt, int):
            def valfn(idx, f=f, axis=axis, cnt=cnt):
                tot = pconst(0)
                for j in range(cnt):
                    tot = tot + f(tuple(idx[:axis]) + (pconst(j),) + tuple(idx[axis:]))
                return tot
        return self.derived_array("sum", [v], shape, v.dtype, n, ms, valfn=valfn, meta={"axis": axis})

    def c_numpy_amax(self, a, k, n, ms):
        v = a[0]
        self.I.trace.append(Op("NumpyOp", fn="amax", reads=[v], out=None, meta={}, where=self.I.where(n, ms),
                               stack=tuple(self.I.call_stack), args=[v]))
        s = psym("amax(%s)" % v.alloc.label)
        self.reductions = getattr(self, "reductions", {})
        self.reductions["amax(%s)" % v.alloc.label] = ("amax", v)
        return s

    c_numpy_max = c_numpy_amax

    def c_numpy_amin(self, a, k, n, ms):
        """minimum of a view with a small known number of elements: the nested minimum of its elements (a column of marker
        indices); any other view gets a reduction symbol like amax"""
        v = a[0]
        if isinstance(v, Arr) and not k and len(a) == 1 and v.ndim == 1 and isinstance(simplify_scalar(v.shape[0]), int) \
                and 1 <= simplify_scalar(v.shape[0]) <= 4:
            fixed = []
            pos = None
            for j, ax in enumerate(v.axes):
                if ax[0] == "r":
                    pos = j
            els = []
            for t in range(simplify_scalar(v.shape[0])):
                idx = tuple(ax[1] if ax[0] == "i" else ax[1] + pconst(t) for ax in v.axes)
                els.append(self.element_value(Arr(v.alloc), idx, n, ms))
            out = els[0]
            for e in els[1:]:
                out = simplify_scalar(self.scalar_op("minimum", [out, e]))
            return out
        self.I.trace.append(Op("NumpyOp", fn="amin", reads=[v], out=None, meta={}, where=self.I.where(n, ms),
                               stack=tuple(self.I.call_stack), args=[v]))
        name = "amin(%s)" % v.alloc.label
        self.reductions = getattr(self, "reductions", {})
        self.reductions[name] = ("amin", v)
        return psym(name)

    c_numpy_min = c_numpy_amin

    def c_numpy_shares_memory(self, a, k, n, ms):
        """exact overlap test: distinct parameters of a public kernel are distinct arrays (A8)"""
        x, y = a[0], a[1]
        if not (isinstance(x, Arr) and isinstance(y, Arr)):
            raise Unsupported("numpy.shares_memory of non-arrays")
        if x.alloc.id != y.alloc.id:
            return False
        if x.same_cells(y):
            return True
        raise Unsupported("numpy.shares_memory of two views of one array at %s" % self.I.where(n, ms))

    def c_numpy_may_share_memory(self, a, k, n, ms):
        """bounds-only test: it is also True for views with disjoint elements whose address ranges interleave (components
        0::2 / 1::2 of one buffer), so for two different argument arrays both outcomes are possible"""
        x, y = a[0], a[1]
        if not (isinstance(x, Arr) and isinstance(y, Arr)):
            raise Unsupported("numpy.may_share_memory of non-arrays")
        if x.alloc.id == y.alloc.id:
            return True
        from .regions import CURRENT_CASE, NeedDecision
        key = "may_share_memory(%s, %s)" % (x.alloc.label, y.alloc.label)
        d = CURRENT_CASE[0].decision(key)
        if d is None:
            raise NeedDecision(key, "%s at %s" % (key, self.I.where(n, ms)))
        return d

    def c_numpy_mean(self, a, k, n, ms):
        """whole-array mean (no axis): an explicit reduction symbol naming the reduced view"""
        v = a[0]
        if not isinstance(v, Arr) or k.get("axis") is not None or len(a) > 1:
            raise Unsupported("numpy.mean with an axis / of a non-array at %s" % self.I.where(n, ms))
        self.I.trace.append(Op("NumpyOp", fn="mean", reads=[v], out=None, meta={}, where=self.I.where(n, ms),
                               stack=tuple(self.I.call_stack), args=[v]))
        name = "mean(%s)" % v.describe()
        self.reductions = getattr(self, "reductions", {})
        self.reductions[name] = ("mean", v)
        return psym(name)

    def maybe_copy(self, v, dt, n, ms, why):
        """numpy returns the argument itself when it already has the requested layout / element type and a detached copy
        otherwise: the result is a separate allocation for the analysis (same values at this point), so that a later write
        through it, or a later read of it after the source changed, is not mistaken for an access to the source"""
        out = self.derived_array("maybe_copy", [v], v.shape, dt or v.dtype, n, ms, valfn=arr_valfn(v), meta={"why": why})
        out.alloc.label = "%s(%s)" % (why, v.alloc.label)
        out.alloc.maybe_copy_of = v
        return out

    def c_numpy_ascontiguousarray(self, a, k, n, ms):
        v = a[0]
        if not isinstance(v, Arr):
            return v
        if v.perm is None and all(ax[0] == "i" for ax in v.axes[:sum(1 for ax in v.axes if ax[0] == "i")]) and self._is_trailing_full(v):
            return v            # leading indices fixed, trailing axes in full: contiguous for every input, numpy returns it as is
        return self.maybe_copy(v, None, n, ms, "ascontiguousarray")

    def _is_trailing_full(self, v):
        seen_range = False
        for ax, nfull in zip(v.axes, v.alloc.shape):
            if ax[0] == "i":
                if seen_range:
                    return False
                continue
            seen_range = True
            if not (ax[1] == pconst(0) and ax[2] == to_pw(nfull)):
                return False
        return v.alloc.how in ("zeros", "empty", "ones", "full", "zeros_like", "empty_like") or v.alloc.how.startswith("derived")

    def c_numpy_asarray(self, a, k, n, ms):
        v = a[0]
        dt = k.get("dtype", a[1] if len(a) > 1 else None)
        if not isinstance(v, Arr):
            return self.c_numpy_array(a[:1], {}, n, ms)
        if dt is None:
            return v
        return self.maybe_copy(v, self.dtype_arg(dt), n, ms, "asarray")

    def c_numpy_require(self, a, k, n, ms):
        v = a[0]
        if not isinstance(v, Arr):
            raise Unsupported("numpy.require of a non-array")
        return self.maybe_copy(v, None, n, ms, "require")

    def c_numpy_finfo(self, a, k, n, ms):
        return Opaque("finfo", a[0])

    def c_numpy_errstate(self, a, k, n, ms):
        return Opaque("errstate")

    def c_numpy_transpose(self, a, k, n, ms):
        perm = a[1] if len(a) > 1 else k.get("axes")
        return self.transpose(a[0], perm, n, ms)

    def c_numpy_tile(self, a, k, n, ms):
        v = a[0]
        reps = k.get("reps", a[1] if len(a) > 1 else None)
        reps = self.shape_arg(reps)
        if len(reps) != v.ndim:
            raise Unsupported("tile with rank change")
        shape = tuple(simplify_scalar(to_pw(s) * to_pw(r)) for s, r in zip(v.shape, reps))
        f = arr_valfn(v)
        ok = all(_is_one(s) or _is_one(r) for s, r in zip(v.shape, reps))
        valfn = None
        if f is not None and ok:
            vs = v.shape
            valfn = lambda idx, f=f, vs=vs: f(tuple(pconst(0) if _is_one(s) else i for i, s in zip(idx, vs)))
        return self.derived_array("tile", [v], shape, v.dtype, n, ms, valfn=valfn, meta={"reps": reps, "broadcast_only": ok})

    def c_numpy_tensordot(self, a, k, n, ms):
        x, y = a[0], a[1]
        axes = k.get("axes", a[2] if len(a) > 2 else 2)
        if not (isinstance(axes, (tuple, list)) and len(axes) == 2):
            raise Unsupported("tensordot axes form")
        ax, ay = simplify_scalar(axes[0]), simplify_scalar(axes[1])
        if not (isinstance(ax, int) and isinstance(ay, int)):
            raise Unsupported("tensordot multi-axes")
        sx, sy = x.shape, y.shape
        if not _dim_eq(sx[ax], sy[ay]):
            self.I.problem("shape", "tensordot contraction of mismatched axes %s[%d] and %s[%d]" % (x.describe(), ax, y.describe(), ay), n, ms)
        shape = tuple(s for i, s in enumerate(sx) if i != ax) + tuple(s for i, s in enumerate(sy) if i != ay)
        dt = y.dtype if y.dtype.kind in ("c", "pc") else x.dtype
        return self.derived_array("tensordot", [x, y], shape, dt, n, ms, meta={"axes": (ax, ay)})

    def c_numpy_linalg_eig(self, a, k, n, ms):
        m = a[0]
        nn = m.shape[0]
        vals = self.derived_array("eig_vals", [m], (nn,), DType("possibly_complex"), n, ms)
        vecs = self.derived_array("eig_vecs", [m], (nn, nn), DType("possibly_complex"), n, ms)
        return (vals, vecs)

    def c_numpy_linalg_eigh(self, a, k, n, ms):
        m = a[0]
        nn = m.shape[0]
        vals = self.derived_array("eigh_vals", [m], (nn,), m.dtype, n, ms)
        vecs = self.derived_array("eigh_vecs", [m], (nn, nn), m.dtype, n, ms)
        return (vals, vecs)

    def c_numpy_linalg_inv(self, a, k, n, ms):
        m = a[0]
        return self.derived_array("inv", [m], m.shape, m.dtype, n, ms)

    def c_numpy_linalg_multi_dot(self, a, k, n, ms):
        mats = a[0]
        out = k.get("out")
        shape = (mats[0].shape[0], mats[-1].shape[-1])
        if out is not None:
            if any(m.dtype.kind in ("c", "pc") for m in mats) and out.dtype.kind not in ("c", "pc"):
                self.I.problem("dtype", "numpy.linalg.multi_dot(..., out=%s): a factor may be complex (result of numpy.linalg.eig) but the "
                               "output array is real; numpy rejects the output array" % out.describe(), n, ms)
            self.I.trace.append(Op("NumpyOp", fn="multi_dot", reads=list(mats), out=out, meta={"out_kw": True},
                                   where=self.I.where(n, ms), stack=tuple(self.I.call_stack), args=list(mats)))
            return out
        return self.derived_array("multi_dot", list(mats), shape, mats[0].dtype, n, ms)

    def c_numpy_linalg_norm(self, a, k, n, ms):
        v = a[0]
        self.I.trace.append(Op("NumpyOp", fn="norm", reads=[v], out=None, meta={}, where=self.I.where(n, ms),
                               stack=tuple(self.I.call_stack), args=[v]))
        return psym("norm(%s)" % v.alloc.label)

    # ---- scipy.sparse
    def c_scipy_sparse_diags(self, a, k, n, ms):
        diags, offsets = a[0], a[1]
        return Opaque("sparse", {"diags": [to_pw(d) for d in diags], "offsets": [simplify_scalar(o) for o in offsets],
                                 "shape": k.get("shape"), "scale": pconst(1)})

    def sparse_toarray(self, info, node, ms):
        shape = tuple(info["shape"])
        al = self.new_alloc(None, shape, DType("float64"), "banded", None, node, ms)
        al.banded = {o: d * info["scale"] for o, d in zip(info["offsets"], info["diags"])}
        al.overrides = []

        def valfn(idx, al=al):
            i, j = simplify_scalar(idx[0]), simplify_scalar(idx[1])
            for tgt, val in reversed(al.overrides):
                if all(to_pw(x) == t for x, t in zip(idx, tgt)):
                    return val
            d = simplify_scalar(to_pw(j) - to_pw(i))
            if isinstance(d, int):
                return al.banded.get(d, pconst(0))
            raise Unsupported("banded element at symbolic distance")
        al.valfn = valfn
        return Arr(al)

    # ---- pystencils / sympy / numba
    def c_pystencils_fields(self, a, k, n, ms):
        spec = a[0]
        if not isinstance(spec, str):
            raise Unsupported("ps.fields spec %r" % (spec,))
        names, _, typ = spec.partition(":")
        names = [x.strip() for x in names.split(",") if x.strip()]
        typ = typ.strip()
        dtype, _, dims = typ.partition("[")
        dims = dims.rstrip("]").strip()
        if dims.endswith("D") and dims[:-1].isdigit():
            rank = int(dims[:-1])
        else:
            rank = len([x for x in dims.split(",") if x.strip()])
        sd = self.I.in_stencil
        out = []
        for nm in names:
            f = Field(nm, rank, dtype.strip(), spec)
            if sd is not None:
                if nm in sd.fields and sd.fields[nm].rank != rank:
                    raise Unsupported("field redeclared with another rank")
                sd.fields[nm] = f
                sd.field_groups = getattr(sd, "field_groups", []) + [tuple(names)] if nm == names[0] else getattr(sd, "field_groups", [])
            out.append(f)
        return out[0] if len(out) == 1 else tuple(out)

    def c_sympy_symbols(self, a, k, n, ms):
        spec = a[0]
        names = [x.strip() for x in spec.replace(",", " ").split() if x.strip()]
        sd = self.I.in_stencil
        if sd is not None:
            sd.symbols.update(names)
        out = [psym(nm) for nm in names]
        return out[0] if len(out) == 1 else tuple(out)

    def c_sympy_sin(self, a, k, n, ms):
        return poly.fn("sin", to_pw(a[0]))

    def c_sympy_cos(self, a, k, n, ms):
        return poly.fn("cos", to_pw(a[0]))

    def c_sympy_sqrt(self, a, k, n, ms):
        return poly.fn("sqrt", to_pw(a[0]))

    def c_pystencils_CreateKernelConfig(self, a, k, n, ms):
        return KernelConfig(dict(k))

    def c_pystencils_create_kernel(self, a, k, n, ms):
        st = a[0]
        if not isinstance(st, StencilDef):
            raise Unsupported("create_kernel of %r" % (st,))
        cfg = k.get("config")
        if cfg is not None and not isinstance(cfg, KernelConfig):
            raise Unsupported("kernel config %r" % (cfg,))
        self.I.trace.append(Op("CreateKernel", stencil=st, config=cfg, where=self.I.where(n, ms)))
        return KernelAST(st, cfg)

    def c_numba_njit(self, a, k, n, ms):
        if a and isinstance(a[0], Func):
            return Njit(a[0], {})
        return Opaque("njit-decorator", dict(k))

    # ---- h5py
    def c_h5py_File(self, a, k, n, ms):
        from .h5model import open_file
        return open_file(self.I, a, k, n, ms)

    def c_numpy_moveaxis(self, a, k, n, ms):
        v, src, dst = a[0], simplify_scalar(a[1]), simplify_scalar(a[2])
        nd = v.ndim
        src %= nd
        dst %= nd
        order = [i for i in range(nd) if i != src]
        order.insert(dst, src)
        return self.transpose(v, tuple(order), n, ms)

    def c_numpy_allclose(self, a, k, n, ms):
        x, y = a[0], a[1]
        self.I.trace.append(Op("Compare", fn="allclose", args=[x, y], where=self.I.where(n, ms)))
        if isinstance(x, Arr) and isinstance(y, Arr):
            if x.same_cells(y):
                return True
            fx, fy = arr_valfn(x), arr_valfn(y)
            if fx is not None and fy is not None:
                if len(x.shape) != len(y.shape) or not all(_dim_eq(p, q) for p, q in zip(x.shape, y.shape)):
                    return False
                dims = [simplify_scalar(d) for d in x.shape]
                if all(isinstance(d, int) and d <= 8 for d in dims):
                    import itertools
                    return all(fx(tuple(pconst(i) for i in ix)) == fy(tuple(pconst(i) for i in ix))
                               for ix in itertools.product(*[range(d) for d in dims]))
                idx = tuple(psym("@%d" % i) for i in range(x.ndim))
                return fx(idx) == fy(idx)
            return False
        if isinstance(x, Arr) and is_scalar(y) and (arr_valfn(x) is None or not str(x.alloc.how).startswith("derived")):
            # (an allocated state array: what it holds when this code runs is not what it was allocated with)
            # a tolerance test of caller-supplied data against a constant: true for every array within atol of it, not only for
            # the array that equals it, so both outcomes are possible and the true outcome pins no element
            from .regions import CURRENT_CASE, NeedDecision
            key = "allclose(%s, %r)" % (x.alloc.label, simplify_scalar(y))
            d = CURRENT_CASE[0].decision(key)
            if d is None:
                raise NeedDecision(key, "%s at %s" % (key, self.I.where(n, ms)))
            return d
        raise Unsupported("allclose of %r, %r" % (x, y))

    def c_numpy_any(self, a, k, n, ms):
        """`x.any()` / `np.any(x)` of caller data that nothing has written yet: both outcomes are possible; on the false outcome
        the array is identically zero, so its initial contents are replaced by 0 for the whole path (a shortcut that is exact
        for an all-zero operand verifies, one that also skips work owed to another operand does not)"""
        x = a[0]
        if len(a) != 1 or k or not isinstance(x, Arr) or x.part is not None or x.perm is not None:
            raise Unsupported("numpy.any of %r at %s" % (x, self.I.where(n, ms)))
        if arr_valfn(x) is not None and str(x.alloc.how).startswith("derived"):
            raise Unsupported("numpy.any of a computed array at %s" % self.I.where(n, ms))
        from .driver import written_allocs
        if x.alloc.id in written_allocs(self.I.trace):
            raise Unsupported("numpy.any of an array the analysed code has already written at %s" % self.I.where(n, ms))
        lab = x.alloc.label.split(".")[-1]
        lead = []
        for ax, size in zip(x.axes, x.alloc.shape):
            if ax[0] == "i" and not lead_done(lead):
                v = simplify_scalar(ax[1])
                if not isinstance(v, int):
                    raise Unsupported("numpy.any of a view with a symbolic index at %s" % self.I.where(n, ms))
                lead.append(v)
            elif ax[0] == "r" and ax[1] == pconst(0) and ax[2] == to_pw(size):
                lead.append(None)
            else:
                raise Unsupported("numpy.any of a partial view at %s" % self.I.where(n, ms))
        fixed = []
        for v in lead:
            if v is None:
                break
            fixed.append(v)
        if any(v is not None for v in lead[len(fixed):]):
            raise Unsupported("numpy.any of a view fixed on an inner axis at %s" % self.I.where(n, ms))
        names = []
        if fixed:
            names.append("%s[%s]" % (lab, ",".join(str(c) for c in fixed)))
        else:
            names.append(lab)
            first = simplify_scalar(x.alloc.shape[0])
            if isinstance(first, int) and first <= 3 and len(x.alloc.shape) >= 3:
                names += ["%s[%d]" % (lab, c) for c in range(first)]      # a vector field: every component
        from .regions import CURRENT_CASE, NeedDecision
        key = "any(%s)" % ";".join(names)
        d = CURRENT_CASE[0].decision(key)
        if d is None:
            raise NeedDecision(key, "%s at %s" % (key, self.I.where(n, ms)))
        return d

    # ---- pyfftw
    def c_pyfftw_FFTW(self, a, k, n, ms):
        return FFTPlan(a[0], a[1], k.get("direction", "FFTW_FORWARD"), dict(k))

    def c_pyfftw_builders_fftn(self, a, k, n, ms):
        return Opaque("fftbuilder", ("fftn", a[0]))

    def c_pyfftw_builders_ifftn(self, a, k, n, ms):
        return Opaque("fftbuilder", ("ifftn", a[0]))

    def c_pyfftw_builders_rfftn(self, a, k, n, ms):
        return Opaque("fftbuilder", ("rfftn", a[0]))

    def c_pyfftw_builders_irfftn(self, a, k, n, ms):
        return Opaque("fftbuilder", ("irfftn", a[0]))

    def call_fft(self, plan, args, kwargs, node, ms):
        inp = kwargs.get("input_array", args[0] if args else plan.in_arr)
        out = kwargs.get("output_array", args[1] if len(args) > 1 else plan.out_arr)
        self.I.trace.append(Op("FFT", plan=plan, inp=inp, out=out, direction=plan.direction,
                               where=self.I.where(node, ms), stack=tuple(self.I.call_stack), node=node))
        return out


class SumAll:
    """np.sum(array) * factor, kept structured (gather kernels of the grid communicators)"""

    def __init__(self, arr, factor):
        self.arr, self.factor = arr, factor

    def __mul__(self, o):
        return SumAll(self.arr, self.factor * to_pw(o))

    __rmul__ = __mul__

    def __repr__(self):
        return "sum(%s) * %r" % (self.arr.describe(), self.factor)


class MinMax:
    """python-level min(...)/max(...) of symbolic scalars, kept explicit (C16)"""

    def __init__(self, name, args):
        self.name, self.args = name, args

    def __mul__(self, o):
        o = to_pw(o)
        return MinMaxScaled(self, o)

    __rmul__ = __mul__

    def __repr__(self):
        return "%s(%s)" % (self.name, ", ".join(repr(a) for a in self.args))


class MinMaxScaled:
    def __init__(self, mm, factor):
        self.mm, self.factor = mm, factor

    def __repr__(self):
        return "%r * %r" % (self.mm, self.factor)
