"""Pointwise tensor evaluator for the forcing-grid methods (DESIGN 4.5 `frames`, used by C08/C09).

The position / velocity / force-transfer methods of the forcing grids are straight-line numpy code
that acts identically on every marker (or element).  They are interpreted here over *generic
elements*: an array with a batch axis (nodes, elements, markers) is represented by the small tensor
of one generic entry whose components are polynomials in symbols; slicing the batch axis only
changes which generic entry is meant:
    node array [..., 1:] / [..., :-1]   ->  the element's next / previous node   (n+: / n-: symbols)
    marker array [:, s:e] with the class' own segment bounds -> that segment of markers
    inside `for i in range(n_elems)`:  [.., start[i]:end[i]] = markers of element i,  [.., i:i+1] = element i
Sums over markers are kept as linear `S{...}` symbols with marker-independent factors pulled out.
Every value carries a frame tag (Lab / Mat) checked at cross products, sums and rotations.
"""
from __future__ import annotations

import ast
from fractions import Fraction

from .poly import PW, Poly, as_poly, const, sym
from .values import Unsupported

LAB, MAT = "Lab", "Mat"


class FrameError(Exception):
    pass


LENIENT = [False]     # after a frame error has been recorded the statement is re-evaluated without frame checks


class A:
    """abstract array: small explicit leading dims + an implicit batch axis"""

    def __init__(self, lead, comps, batch=None, frame=None, rot=None, name=None):
        self.lead = tuple(lead)
        self.comps = comps          # dict index tuple -> PW
        self.batch = batch          # None | 'node' | 'elem' | 'marker'
        self.frame = frame          # None (scalar / untyped) | Lab | Mat
        self.rot = rot              # for 3x3 rotation matrices: 'Q' (lab->mat) or 'Qt'
        self.name = name

    def copy(self):
        return A(self.lead, dict(self.comps), self.batch, self.frame, self.rot, self.name)

    def __repr__(self):
        return "A(%s %s %s %s)" % (self.lead, self.batch, self.frame, {k: repr(v) for k, v in self.comps.items()})


class Seg:
    """marker array given segment-wise (edge grid): segment name -> A"""

    def __init__(self, lead, frame=None):
        self.lead = tuple(lead)
        self.segs = {}
        self.frame = frame


class NodeAcc:
    """node-indexed array built from element contributions: value(node k) = plus[k-1] + minus[k]"""

    def __init__(self, lead, frame=None):
        self.lead = tuple(lead)
        self.plus = zeros(lead, "elem", frame)     # contribution of an element to its next node
        self.minus = zeros(lead, "elem", frame)    # contribution of an element to its previous node
        self.direct = None                          # node-batched value assigned as a whole (nodal grid)
        self.frame = frame


def zeros(lead, batch=None, frame=None):
    import itertools
    return A(lead, {ix: const(0) for ix in itertools.product(*[range(d) for d in lead])}, batch, frame)


def indices(lead):
    import itertools
    return list(itertools.product(*[range(d) for d in lead]))


def named(prefix, lead, batch, frame=None, rot=None):
    return A(lead, {ix: sym("%s[%s]" % (prefix, ",".join(str(i) for i in ix))) if ix else sym(prefix) for ix in indices(lead)}, batch, frame, rot, prefix)


def join_batch(a, b):
    order = {None: 0, "elem": 1, "node": 1, "marker": 2}
    if a == b or b is None:
        return a
    if a is None:
        return b
    if {a, b} == {"elem", "marker"}:
        return "marker"        # element quantities broadcast to the element's markers
    if {a, b} == {"node", "marker"}:
        return "marker"        # nodal grid: the markers are the rod nodes
    raise Unsupported("arrays over %s and %s combined" % (a, b))


def join_frame(a, b, what):
    if a is None:
        return b
    if b is None or a == b:
        return a
    if LENIENT[0]:
        return a
    raise FrameError("%s of a %s-frame and a %s-frame vector" % (what, a, b))


def bcast(x, y, what, f):
    """elementwise combination with numpy broadcasting over the small leading dims"""
    lx, ly = x.lead, y.lead
    n = max(len(lx), len(ly))
    px = (1,) * (n - len(lx)) + lx
    py = (1,) * (n - len(ly)) + ly
    lead = []
    for a, b in zip(px, py):
        if a == b or b == 1:
            lead.append(a)
        elif a == 1:
            lead.append(b)
        else:
            raise Unsupported("shapes %s and %s do not broadcast" % (lx, ly))
    out = {}
    for ix in indices(lead):
        ixx = tuple(0 if d == 1 else i for i, d in zip(ix, px))[n - len(lx):]
        iyy = tuple(0 if d == 1 else i for i, d in zip(ix, py))[n - len(ly):]
        out[ix] = f(x.comps[ixx], y.comps[iyy])
    return tuple(lead), out


def add(x, y, sign=1):
    lead, comps = bcast(x, y, "sum", lambda a, b: a + b if sign > 0 else a - b)
    fr = join_frame(x.frame, y.frame, "sum") if (is_vec(x) and is_vec(y)) else (x.frame or y.frame)
    return A(lead, comps, join_batch(x.batch, y.batch), fr)


def is_vec(x):
    return x.frame is not None


def mul(x, y):
    lead, comps = bcast(x, y, "product", lambda a, b: a * b)
    if is_vec(x) and is_vec(y):
        fr = join_frame(x.frame, y.frame, "componentwise product")
    else:
        fr = x.frame or y.frame
    return A(lead, comps, join_batch(x.batch, y.batch), fr)


def div(x, y):
    lead, comps = bcast(x, y, "quotient", lambda a, b: a / b)
    return A(lead, comps, join_batch(x.batch, y.batch), x.frame)


def neg(x):
    return A(x.lead, {k: -v for k, v in x.comps.items()}, x.batch, x.frame, None)


def scalar(v):
    return A((), {(): v if isinstance(v, PW) else const(v)})


def cross(x, y):
    if x.lead != (3,) or y.lead != (3,):
        raise Unsupported("cross product of shapes %s, %s" % (x.lead, y.lead))
    fr = join_frame(x.frame, y.frame, "cross product")
    c = {}
    for a in range(3):
        b, d = (a + 1) % 3, (a + 2) % 3
        c[(a,)] = x.comps[(b,)] * y.comps[(d,)] - x.comps[(d,)] * y.comps[(b,)]
    return A((3,), c, join_batch(x.batch, y.batch), fr)


def transpose(m):
    if len(m.lead) != 2:
        raise Unsupported("transpose of shape %s" % (m.lead,))
    rot = {"Q": "Qt", "Qt": "Q"}.get(m.rot)
    return A((m.lead[1], m.lead[0]), {(j, i): v for (i, j), v in m.comps.items()}, m.batch, m.frame, rot)


def matvec(m, v):
    if len(m.lead) != 2 or len(v.lead) != 1 or m.lead[1] != v.lead[0]:
        raise Unsupported("matrix-vector product of shapes %s, %s" % (m.lead, v.lead))
    fr = v.frame
    if m.rot == "Q":
        if v.frame == MAT and not LENIENT[0]:
            raise FrameError("director matrix (lab -> material) applied to a material-frame vector")
        fr = MAT if v.frame == LAB else v.frame
    elif m.rot == "Qt":
        if v.frame == LAB and not LENIENT[0]:
            raise FrameError("transposed director (material -> lab) applied to a lab-frame vector")
        fr = LAB if v.frame == MAT else v.frame
    c = {}
    for i in range(m.lead[0]):
        s = const(0)
        for j in range(m.lead[1]):
            s = s + m.comps[(i, j)] * v.comps[(j,)]
        c[(i,)] = s
    return A((m.lead[0],), c, join_batch(m.batch, v.batch), fr)


# ---------------------------------------------------------------------------- sums over markers
PER_MARKER = ("m:",)


def marker_dependent(atom):
    return atom[0] == "s" and (atom[1].startswith("m:") or atom[1].startswith("S{") is False and atom[1].startswith("m:"))


def msum(expr, scope):
    """sum over the markers of `scope` ('all' or 'elem') of a polynomial in marker / body symbols, by linearity"""
    expr = PW.of(expr)
    if not expr.is_leaf() or not expr.leaf.is_poly():
        raise Unsupported("sum over markers of a non-polynomial expression")
    p = as_poly(expr.leaf)
    out = const(0)
    for m, c in p.t.items():
        dep = tuple((a, e) for a, e in m if a[0] == "s" and a[1].startswith("m:"))
        ind = tuple((a, e) for a, e in m if not (a[0] == "s" and a[1].startswith("m:")))
        if not dep:
            raise Unsupported("sum over markers of a marker-independent term (needs the marker count)")
        name = "S{%s|%s}" % (scope, "*".join("%s^%d" % (a[1], e) if e != 1 else a[1] for a, e in sorted(dep)))
        out = out + PW.of(Poly({ind: c})) * sym(name)
    return out


def reduce_markers(x, scope):
    return A(x.lead, {k: msum(v, scope) for k, v in x.comps.items()}, "elem" if scope == "elem" else None, x.frame)
