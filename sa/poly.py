"""Exact algebra for the analyser (DESIGN 4.1).

Polynomials over Q in hash-consed *atoms*; rational functions; piecewise trees.

Atoms (tuples):
  ('s', name)                      scalar symbol (kernel parameter, closure constant, pi, ...)
  ('f', field, (o_0, ..., o_k))    field access `field[o_0, ..., o_k]` (relative offsets)
  ('fn', fname, key)               function application; key interns the (rational) argument

Everything is immutable.  No floating point is ever used: float literals are
read as the decimal rationals they denote (assumption A2).
"""
from __future__ import annotations

from fractions import Fraction
from functools import lru_cache

F = Fraction


class AlgebraError(Exception):
    pass


def _akey(a):
    return repr(a)


# ----------------------------------------------------------------------------
# Polynomials
# ----------------------------------------------------------------------------
TIE_LOG = None     # list while a caller watches for conditions decided on an exact tie (C03: rounding robustness)
SYM_SUBS = {}      # size symbol -> Poly, installed by regions.set_case for the equality branches of a size case


class Poly:
    __slots__ = ("t", "_h")

    def __init__(self, t=None):
        self.t = {m: c for m, c in (t or {}).items() if c != 0}
        self._h = None

    # -- constructors
    @staticmethod
    def const(c):
        c = F(c)
        return Poly({(): c}) if c != 0 else Poly()

    @staticmethod
    def atom(a):
        return Poly({((a, 1),): F(1)})

    @staticmethod
    def sym(name):
        if SYM_SUBS and name in SYM_SUBS:
            return SYM_SUBS[name]        # equality branch of a size case (regions.SizeCase)
        return Poly.atom(("s", name))

    # -- predicates
    def is_zero(self):
        return not self.t

    def is_const(self):
        return all(m == () for m in self.t)

    def const_value(self):
        if not self.is_const():
            raise AlgebraError("not a constant: %s" % self)
        return self.t.get((), F(0))

    def atoms(self):
        s = set()
        for m in self.t:
            for a, _ in m:
                s.add(a)
        return s

    def all_atoms(self):
        """atoms, including those nested inside function arguments"""
        out = set()
        for a in self.atoms():
            out.add(a)
            if a[0] == "fn":
                out |= fn_arg(a).all_atoms()
        return out

    # -- arithmetic
    def __add__(self, o):
        o = as_poly(o)
        t = dict(self.t)
        for m, c in o.t.items():
            t[m] = t.get(m, 0) + c
        return Poly(t)

    __radd__ = __add__

    def __neg__(self):
        return Poly({m: -c for m, c in self.t.items()})

    def __sub__(self, o):
        return self + (-as_poly(o))

    def __rsub__(self, o):
        return as_poly(o) - self

    def __mul__(self, o):
        o = as_poly(o)
        t = {}
        for m1, c1 in self.t.items():
            for m2, c2 in o.t.items():
                m, extra = _mono_mul(m1, m2)
                if extra is None:
                    t[m] = t.get(m, 0) + c1 * c2
                else:
                    # sqrt(p)^2 -> p, abs(p)^2 -> p^2 produced a polynomial factor
                    for m3, c3 in _mul_mono_poly(m, c1 * c2, extra).items():
                        t[m3] = t.get(m3, 0) + c3
        return Poly(t)

    __rmul__ = __mul__

    def __pow__(self, n):
        if not isinstance(n, int) or n < 0:
            raise AlgebraError("bad power %r" % (n,))
        r = Poly.const(1)
        b = self
        while n:
            if n & 1:
                r = r * b
            b = b * b
            n >>= 1
        return r

    def scale(self, c):
        c = F(c)
        return Poly({m: k * c for m, k in self.t.items()})

    # -- structure
    def __eq__(self, o):
        if not isinstance(o, Poly):
            try:
                o = as_poly(o)
            except Exception:
                return NotImplemented
        return self.t == o.t

    def __hash__(self):
        if self._h is None:
            self._h = hash(frozenset(self.t.items()))
        return self._h

    def key(self):
        return tuple(sorted(((tuple(sorted(m, key=_akey)), c) for m, c in self.t.items()), key=repr))

    def degree_in(self, atom):
        d = 0
        for m in self.t:
            for a, e in m:
                if a == atom:
                    d = max(d, e)
        return d

    def coeff(self, atom, k):
        """polynomial coefficient of atom**k"""
        t = {}
        for m, c in self.t.items():
            e = 0
            rest = []
            for a, x in m:
                if a == atom:
                    e = x
                else:
                    rest.append((a, x))
            if e == k:
                t[tuple(rest)] = t.get(tuple(rest), 0) + c
        return Poly(t)

    def subs(self, mapping):
        """mapping: atom -> Poly/Rat/number.  Function-argument atoms are rewritten too."""
        if not mapping:
            return Rat(self)
        keys = set(mapping)
        # which atoms of this polynomial are affected (directly or through a function argument)?
        affected = {}
        for a in self.atoms():
            if a in keys:
                affected[a] = as_rat(mapping[a])
            elif a[0] == "fn":
                arg = fn_arg(a)
                if arg.all_atoms() & keys:
                    affected[a] = as_rat(mk_fn(a[1], arg.subs(mapping)))
        if not affected:
            return Rat(self)
        keep = {}
        res = Rat(Poly())
        pow_cache = {}
        all_poly = all(v.den.is_const() for v in affected.values())
        acc = Poly()
        for m, c in self.t.items():
            if not any(a in affected for a, _ in m):
                keep[m] = c
                continue
            rest = tuple((a, e) for a, e in m if a not in affected)
            if all_poly:
                term = Poly({rest: c})
                for a, e in m:
                    if a in affected:
                        k = (a, e)
                        if k not in pow_cache:
                            pow_cache[k] = as_poly(affected[a]) ** e
                        term = term * pow_cache[k]
                acc = acc + term
            else:
                term = Rat(Poly({rest: c}))
                for a, e in m:
                    if a in affected:
                        k = (a, e)
                        if k not in pow_cache:
                            pow_cache[k] = affected[a] ** e
                        term = term * pow_cache[k]
                res = res + term
        if all_poly:
            return Rat(Poly(keep) + acc)
        return res + Rat(Poly(keep))

    def map_atoms(self, fn):
        """fn(atom) -> atom (structural renaming, recurses into function args)."""
        def ren(a):
            if a[0] == "fn":
                arg = fn_arg(a)
                return ("rat", mk_fn(a[1], arg.map_atoms(fn)))
            return fn(a)
        res = Rat(Poly())
        for m, c in self.t.items():
            term = Rat(Poly.const(c))
            for a, e in m:
                na = ren(a)
                if na[0] == "rat":
                    v = as_rat(na[1])
                else:
                    v = Rat(Poly.atom(na))
                term = term * (v ** e)
            res = res + term
        if not res.den.is_const():
            raise AlgebraError("map_atoms produced a denominator")
        return res.num.scale(1 / res.den.const_value())

    def content(self):
        if not self.t:
            return F(0)
        from math import gcd
        num = 0
        den = 1
        for c in self.t.values():
            num = gcd(num, abs(c.numerator))
            den = den * c.denominator // gcd(den, c.denominator)
        return F(num, den)

    def leading(self):
        """deterministic 'leading' term (largest key)"""
        if not self.t:
            return None, F(0)
        m = max(self.t, key=lambda m: repr(tuple(sorted(m, key=_akey))))
        return m, self.t[m]

    def __repr__(self):
        if not self.t:
            return "0"
        parts = []
        for m, c in sorted(self.t.items(), key=lambda kv: repr(tuple(sorted(kv[0], key=_akey)))):
            ms = "*".join((atom_str(a) + ("^%d" % e if e != 1 else "")) for a, e in sorted(m, key=lambda ae: _akey(ae[0])))
            if not ms:
                parts.append(str(c))
            elif c == 1:
                parts.append(ms)
            elif c == -1:
                parts.append("-" + ms)
            else:
                parts.append("%s*%s" % (c, ms))
        return " + ".join(parts).replace("+ -", "- ")


def _mul_mono_poly(m, c, extra):
    return (Poly({m: c}) * extra).t


def _mono_mul(m1, m2):
    """multiply monomials; returns (monomial, extra_poly_or_None) where extra comes
    from sqrt(p)^2 = p and abs(p)^2 = p^2."""
    if not m1:
        return m2, None
    if not m2:
        return m1, None
    d = dict(m1)
    for a, e in m2:
        d[a] = d.get(a, 0) + e
    extra = None
    for a in list(d):
        if a[0] == "fn" and a[1] in ("sqrt", "abs") and d[a] >= 2:
            arg = fn_arg(a)
            if arg.den.is_const():
                base = arg.num.scale(1 / arg.den.const_value())
                k, r = divmod(d[a], 2)
                if a[1] == "abs":
                    base = base * base
                p = base ** k
                extra = p if extra is None else extra * p
                if r:
                    d[a] = r
                else:
                    del d[a]
    return tuple(sorted(d.items(), key=lambda ae: _akey(ae[0]))), extra


def atom_str(a):
    if a[0] == "s":
        return a[1]
    if a[0] == "f":
        return "%s@%s" % (a[1], ",".join(str(x) for x in a[2]))
    if a[0] == "fn":
        return "%s(%s)" % (a[1], fn_arg(a))
    return repr(a)


def as_poly(x):
    if isinstance(x, Poly):
        return x
    if isinstance(x, (int, Fraction)) and not isinstance(x, bool):
        return Poly.const(x)
    if isinstance(x, Rat):
        if x.den.is_const():
            return x.num.scale(1 / x.den.const_value())
        raise AlgebraError("rational function is not a polynomial: %s" % x)
    if isinstance(x, float):
        return Poly.const(F(repr(x)))
    raise AlgebraError("cannot make polynomial from %r" % (x,))


# ----------------------------------------------------------------------------
# Rational functions
# ----------------------------------------------------------------------------
class Rat:
    __slots__ = ("num", "den")

    def __init__(self, num, den=None):
        num = as_poly(num)
        den = Poly.const(1) if den is None else as_poly(den)
        if den.is_zero():
            raise AlgebraError("division by zero")
        if num.is_zero():
            den = Poly.const(1)
        elif den.is_const():
            num = num.scale(1 / den.const_value())
            den = Poly.const(1)
        else:
            num, den = _reduce(num, den)
        self.num = num
        self.den = den

    def is_poly(self):
        return self.den.is_const()

    def is_const(self):
        return self.den.is_const() and self.num.is_const()

    def const_value(self):
        return as_poly(self).const_value()

    def is_zero(self):
        return self.num.is_zero()

    def __add__(self, o):
        o = as_rat(o)
        if self.den == o.den:
            return Rat(self.num + o.num, self.den)
        return Rat(self.num * o.den + o.num * self.den, self.den * o.den)

    __radd__ = __add__

    def __neg__(self):
        return Rat(-self.num, self.den)

    def __sub__(self, o):
        return self + (-as_rat(o))

    def __rsub__(self, o):
        return as_rat(o) - self

    def __mul__(self, o):
        o = as_rat(o)
        return Rat(self.num * o.num, self.den * o.den)

    __rmul__ = __mul__

    def __truediv__(self, o):
        o = as_rat(o)
        if o.num.is_zero():
            raise AlgebraError("division by zero")
        return Rat(self.num * o.den, self.den * o.num)

    def __rtruediv__(self, o):
        return as_rat(o) / self

    def __pow__(self, n):
        if isinstance(n, Rat) and n.is_const():
            n = n.const_value()
        if isinstance(n, Fraction) and n.denominator == 1:
            n = int(n)
        if isinstance(n, Fraction) and n == F(1, 2):
            return as_rat(mk_fn("sqrt", self))
        if not isinstance(n, int):
            raise AlgebraError("bad power %r" % (n,))
        if n < 0:
            return Rat(self.den ** (-n), self.num ** (-n))
        return Rat(self.num ** n, self.den ** n)

    def __eq__(self, o):
        try:
            o = as_rat(o)
        except Exception:
            return NotImplemented
        if self.den.t == o.den.t:
            return self.num.t == o.num.t
        if self.den.is_const() and o.den.is_const():
            return False   # both normalised to denominator 1
        return (self.num * o.den) == (o.num * self.den)

    def struct_eq(self, o):
        return self.num.t == o.num.t and self.den.t == o.den.t

    def __hash__(self):
        return hash((self.num, self.den))

    def subs(self, mapping):
        return self.num.subs(mapping) / self.den.subs(mapping)

    def map_atoms(self, fn):
        return Rat(self.num.map_atoms(fn), self.den.map_atoms(fn))

    def atoms(self):
        return self.num.atoms() | self.den.atoms()

    def all_atoms(self):
        return self.num.all_atoms() | self.den.all_atoms()

    def key(self):
        return (self.num.key(), self.den.key())

    def __repr__(self):
        if self.den.is_const():
            return repr(self.num)
        return "(%r)/(%r)" % (self.num, self.den)


def _reduce(num, den):
    """cheap normalisation: common monomial factor, content, sign; exact division
    when den divides num as a single-term or by trial."""
    # content / sign
    cn, cd = num.content(), den.content()
    _, lc = den.leading()
    s = -1 if lc < 0 else 1
    num = num.scale(F(s) / cd)
    den = den.scale(F(s) / cd)
    # common monomial factor
    common = None
    for p in (num, den):
        for m in p.t:
            d = dict(m)
            if common is None:
                common = d
            else:
                common = {a: min(e, d.get(a, 0)) for a, e in common.items() if a in d}
            if not common:
                break
        if not common:
            break
    if common:
        def strip(p):
            t = {}
            for m, c in p.t.items():
                d = dict(m)
                for a, e in common.items():
                    d[a] -= e
                    if d[a] == 0:
                        del d[a]
                t[tuple(sorted(d.items(), key=lambda ae: _akey(ae[0])))] = c
            return Poly(t)
        num, den = strip(num), strip(den)
    if den.is_const():
        return num.scale(1 / den.const_value()), Poly.const(1)
    q = poly_div_exact(num, den)
    if q is not None:
        return q, Poly.const(1)
    # den = monomial * rest: cancel rest if it divides num (and symmetrically)
    for swap in (False, True):
        a, b = (num, den) if not swap else (den, num)
        mono, rest = _split_monomial_content(b)
        if mono and not rest.is_const() and len(rest.t) < len(b.t) + 1 and rest != b:
            qq = poly_div_exact(a, rest)
            if qq is not None:
                a2, b2 = qq, Poly({mono: Fraction(1)})
                num, den = (a2, b2) if not swap else (b2, a2)
                return _reduce(num, den) if not den.is_const() else (num.scale(1 / den.const_value()), Poly.const(1))
    q = poly_div_exact(den, num)
    if q is not None and not q.is_zero():
        # num/den = 1/q
        _, lc = q.leading()
        s = -1 if lc < 0 else 1
        return Poly.const(s), q.scale(s)
    return num, den


def _split_monomial_content(p):
    """p = mono * rest with mono the gcd of its monomials (None if trivial)"""
    common = None
    if not p.t:
        return None, p
    for m in p.t:
        d = dict(m)
        common = d if common is None else {a: min(e, d.get(a, 0)) for a, e in common.items() if a in d}
        if not common:
            return None, p
    t = {}
    for m, c in p.t.items():
        d = dict(m)
        for a, e in common.items():
            d[a] -= e
            if d[a] == 0:
                del d[a]
        t[tuple(sorted(d.items(), key=lambda ae: _akey(ae[0])))] = c
    return tuple(sorted(common.items(), key=lambda ae: _akey(ae[0]))), Poly(t)


def poly_div_exact(a, b):
    """a / b if b divides a exactly (multivariate, lexicographic-by-repr order), else None."""
    if b.is_zero():
        return None
    if a.is_zero():
        return Poly()
    alist = sorted(a.atoms() | b.atoms(), key=_akey)
    aidx = {x: i for i, x in enumerate(alist)}

    def gorder(m):
        v = [0] * len(alist)
        for at, e in m:
            v[aidx[at]] = e
        return (sum(v), tuple(v))
    bm = max(b.t, key=gorder)
    bc = b.t[bm]
    q = {}
    r = dict(a.t)
    guard = 0
    while r:
        guard += 1
        if guard > 5000:
            return None
        m = max(r, key=gorder)
        c = r[m]
        dm = dict(m)
        ok = True
        for at, e in bm:
            if dm.get(at, 0) < e:
                ok = False
                break
            dm[at] -= e
            if dm[at] == 0:
                del dm[at]
        if not ok:
            return None
        qm = tuple(sorted(dm.items(), key=lambda ae: _akey(ae[0])))
        qc = c / bc
        q[qm] = q.get(qm, 0) + qc
        # r -= qc*qm*b   (plain monomial product: no sqrt folding here)
        for m2, c2 in b.t.items():
            d2 = dict(qm)
            for at, e in m2:
                d2[at] = d2.get(at, 0) + e
            mm = tuple(sorted(d2.items(), key=lambda ae: _akey(ae[0])))
            nv = r.get(mm, 0) - qc * c2
            if nv == 0:
                r.pop(mm, None)
            else:
                r[mm] = nv
    return Poly(q)


def as_rat(x):
    if isinstance(x, Rat):
        return x
    if isinstance(x, PW):
        if x.is_leaf():
            return x.leaf
        raise AlgebraError("piecewise value where a rational is required: %s" % x)
    return Rat(as_poly(x))


# ----------------------------------------------------------------------------
# Function atoms
# ----------------------------------------------------------------------------
_FN_ARGS = {}


def fn_arg(atom):
    return _FN_ARGS[atom[2]]


def _intern(r):
    k = r.key()
    _FN_ARGS.setdefault(k, r)
    return k


PI = Poly.sym("pi")


def _lead_sign(r):
    _, lc = r.num.leading()
    return -1 if lc < 0 else 1


def _pi_multiple(r):
    """if r == c*pi for rational c return c else None"""
    if not r.is_poly():
        return None
    p = as_poly(r)
    if p.is_zero():
        return F(0)
    if len(p.t) == 1:
        (m, c), = p.t.items()
        if m == ((("s", "pi"), 1),):
            return c
    return None


def _split_pi_const(r):
    """r = rest + c*pi  with c rational (pure-pi term split off); only for polynomials"""
    if not r.is_poly():
        return r, F(0)
    p = as_poly(r)
    m = ((("s", "pi"), 1),)
    c = p.t.get(m, F(0))
    if c == 0:
        return r, F(0)
    t = dict(p.t)
    del t[m]
    return Rat(Poly(t)), c


def _factorize(n):
    """prime factorisation of a small positive integer: [(prime, exponent)]"""
    out, p = [], 2
    while p * p <= n:
        e = 0
        while n % p == 0:
            n //= p
            e += 1
        if e:
            out.append((p, e))
        p += 1 if p == 2 else 2
    if n > 1:
        out.append((n, 1))
    return out


def _numeric_sign(p):
    """sign of a polynomial whose only atoms are sqrt(rational constant), by interval arithmetic with 40 digits; None when 0 is
    not excluded"""
    from math import isqrt
    scale = 10 ** 40
    lo_t, hi_t = F(0), F(0)
    for m, c in p.t.items():
        lo, hi = F(1), F(1)
        for a, e in m:
            if not (a[0] == "fn" and a[1] == "sqrt"):
                return None
            q = fn_arg(a)
            if not q.is_const():
                return None
            v = q.const_value()
            if v < 0:
                return None
            r = isqrt((v.numerator * scale * scale) // v.denominator)
            l1, h1 = F(r, scale), F(r + 1, scale)
            lo, hi = lo * l1 ** e, hi * h1 ** e
        if c >= 0:
            lo_t, hi_t = lo_t + c * lo, hi_t + c * hi
        else:
            lo_t, hi_t = lo_t + c * hi, hi_t + c * lo
    if lo_t > 0:
        return 1
    if hi_t < 0:
        return -1
    return None


def mk_fn(name, arg):
    """build name(arg) with the simplification rules of DESIGN 4.1; returns Rat"""
    arg = as_rat(arg)
    if name in ("sin", "cos"):
        rest, c = _split_pi_const(arg)
        # reduce the pi-multiple modulo 2pi into quarter turns when it is a multiple of pi/2
        if c != 0 and (2 * c).denominator == 1:
            q = int(2 * c) % 4
            # sin(x + q*pi/2), cos(x + q*pi/2)
            if name == "sin":
                table = [("sin", 1), ("cos", 1), ("sin", -1), ("cos", -1)]
            else:
                table = [("cos", 1), ("sin", -1), ("cos", -1), ("sin", 1)]
            n2, s = table[q]
            return _mk_trig(n2, rest) * s
        return _mk_trig(name, arg)
    if name == "sqrt":
        if arg.is_const():
            v = arg.const_value()
            if v < 0:
                raise AlgebraError("sqrt of negative constant")
            from math import isqrt
            n, d = v.numerator, v.denominator
            if isqrt(n) ** 2 == n and isqrt(d) ** 2 == d:
                return Rat(Poly.const(F(isqrt(n), isqrt(d))))
            if n * d < 10 ** 12:
                # sqrt(n/d) = sqrt(n*d)/d = (s/d) * sqrt(f) with n*d = s^2 * f, f square-free: canonical
                sq, free = 1, 1
                for pr, e in _factorize(n * d):
                    sq *= pr ** (e // 2)
                    free *= pr ** (e % 2)
                if sq != 1 or d != 1:
                    return Rat(Poly.const(F(sq, d))) * Rat(Poly.atom(("fn", "sqrt", _intern(Rat(Poly.const(free))))))
        # sqrt(a/b) = sqrt(a)/sqrt(b) when the denominator is a square monomial of positive symbols times a square constant
        if not arg.den.is_const() and len(arg.den.t) == 1:
            (dm, dc), = arg.den.t.items()
            from math import isqrt as _isq
            if dc > 0 and all(a[0] == "s" and e % 2 == 0 for a, e in dm) and _isq(dc.numerator) ** 2 == dc.numerator and _isq(dc.denominator) ** 2 == dc.denominator:
                root = Poly({tuple((a, e // 2) for a, e in dm): F(_isq(dc.numerator), _isq(dc.denominator))})
                return mk_fn("sqrt", Rat(arg.num)) / Rat(root)
        # sqrt(s^2 * p) -> s * sqrt(p) for positive symbols s in the monomial content
        if arg.is_poly():
            p0 = as_poly(arg)
            mono, rest = _split_monomial_content(p0) if p0.t else ((), p0)
            mono = mono or ()
            pulled = tuple((a, e // 2) for a, e in mono if a[0] == "s" and e >= 2)
            if pulled:
                left = tuple((a, e % 2) for a, e in mono if a[0] == "s" and e % 2) + tuple((a, e) for a, e in mono if a[0] != "s")
                inner = rest * Poly({tuple(sorted(left, key=lambda ae: _akey(ae[0]))): F(1)}) if left else rest
                return Rat(Poly({pulled: F(1)})) * mk_fn("sqrt", Rat(inner))
        # sqrt(q^2 * p) -> q * sqrt(p) for rational constant squares in the content
        if arg.is_poly():
            p = as_poly(arg)
            c = p.content()
            _, lc = p.leading()
            if lc < 0:
                c = c  # keep sign inside
            from math import isqrt
            n, d = c.numerator, c.denominator
            if c != 1 and isqrt(n) ** 2 == n and isqrt(d) ** 2 == d:
                return Rat(Poly.const(F(isqrt(n), isqrt(d)))) * mk_fn("sqrt", Rat(p.scale(1 / c)))
        return Rat(Poly.atom(("fn", "sqrt", _intern(arg))))
    if name == "abs":
        if arg.is_const():
            return Rat(Poly.const(abs(arg.const_value())))
        # |s * q| = s * |q| for positive symbols s; |a/b| = |a|/|b|
        if not arg.den.is_const():
            return mk_fn("abs", Rat(arg.num)) / mk_fn("abs", Rat(arg.den))
        pa = as_poly(arg)
        mono, rest = _split_monomial_content(pa)
        if mono:
            sym_part = tuple((a, e) for a, e in mono if a[0] == "s")
            other = tuple((a, e) for a, e in mono if a[0] != "s")
            if sym_part:
                inner = rest * Poly({other: Fraction(1)}) if other else rest
                return Rat(Poly({sym_part: Fraction(1)})) * mk_fn("abs", Rat(inner))
        c = pa.content()
        if c != 1 and c != 0:
            return Rat(Poly.const(c)) * mk_fn("abs", Rat(pa.scale(1 / c)))
        if _lead_sign(arg) < 0:
            arg = -arg
        return Rat(Poly.atom(("fn", "abs", _intern(arg))))
    if name == "log":
        if arg.is_const() and arg.const_value() == 1:
            return Rat(Poly())
        # log(a/b) = log a - log b ; log(c * m1^e1 ...) for single-term polynomials
        if not arg.den.is_const():
            return mk_fn("log", Rat(arg.num)) - mk_fn("log", Rat(arg.den))
        p = as_poly(arg)
        if len(p.t) == 1:
            (m, c), = p.t.items()
            if c <= 0:
                raise AlgebraError("log of non-positive term")
            res = Rat(Poly())
            if c != 1:
                if c.numerator * c.denominator < 10 ** 12:
                    # canonical: log(prod p_i^e_i) = sum e_i log(p_i)
                    for pr, e in _factorize(c.numerator):
                        res = res + Rat(Poly.atom(("fn", "log", _intern(Rat(Poly.const(pr)))))) * e
                    for pr, e in _factorize(c.denominator):
                        res = res - Rat(Poly.atom(("fn", "log", _intern(Rat(Poly.const(pr)))))) * e
                else:
                    res = res + Rat(Poly.atom(("fn", "log", _intern(Rat(Poly.const(c))))))
            for a, e in m:
                if a[0] == "fn" and a[1] == "sqrt":
                    res = res + mk_fn("log", fn_arg(a)) * F(e, 2)
                else:
                    res = res + Rat(Poly.atom(("fn", "log", _intern(Rat(Poly.atom(a)))))) * e
            return res
        # log(c * m * rest) = log c + log m + log rest  (monomial and rational content pulled out)
        mono, rest = _split_monomial_content(p)
        c = rest.content()
        _, lc = rest.leading()
        if mono or (c != 1 and lc > 0):
            res = Rat(Poly())
            if mono:
                res = res + mk_fn("log", Rat(Poly({mono: Fraction(1)})))
            if c != 1 and lc > 0:
                res = res + mk_fn("log", Rat(Poly.const(c)))
                rest = rest.scale(1 / c)
            return res + mk_fn("log", Rat(rest))
        return Rat(Poly.atom(("fn", "log", _intern(arg))))
    if name in ("floor", "fabs", "exp", "min", "max", "rint", "ceil", "trunc"):
        if name in ("rint", "ceil", "trunc") and arg.is_const() and arg.const_value().denominator == 1:
            return Rat(Poly.const(arg.const_value()))
        return Rat(Poly.atom(("fn", name, _intern(arg))))
    raise AlgebraError("unknown function %s" % name)


def _mk_trig(name, arg):
    if arg.is_zero():
        return Rat(Poly.const(0 if name == "sin" else 1))
    c = _pi_multiple(arg)
    if c is not None and (2 * c).denominator == 1:
        q = int(2 * c) % 4
        val = {"sin": [0, 1, 0, -1], "cos": [1, 0, -1, 0]}[name][q]
        return Rat(Poly.const(val))
    s = 1
    if _lead_sign(arg) < 0:
        arg = -arg
        if name == "sin":
            s = -1
    return Rat(Poly.atom(("fn", name, _intern(arg)))) * s


# ----------------------------------------------------------------------------
# Conditions and piecewise trees
# ----------------------------------------------------------------------------
def _simple_sign(p):
    """+1/-1 if p is a sum of same-signed monomials in symbols (all assumed positive), else None"""
    sign = None
    for m, c in p.t.items():
        if any(a[0] != "s" for a, _ in m):
            return None
        s = 1 if c > 0 else -1
        if sign is None:
            sign = s
        elif sign != s:
            return None
    return sign


POSITIVE_INT_SYMBOLS = {"nx", "ny", "nz"}     # grid sizes: integers >= 1


def _shift_sign(p):
    """sign of a polynomial in symbols when the grid-size symbols are integers >= 1: write n = 1 + m with m >= 0; if every
    coefficient then has one sign and some monomial is free of the m's (hence strictly positive), that is the sign"""
    if any(a[0] != "s" for m, _ in p.t.items() for a, _ in m):
        return None
    sub = {("s", n): Poly.sym(n) + Poly.const(1) for n in POSITIVE_INT_SYMBOLS if ("s", n) in p.atoms()}
    if not sub:
        return None
    q = as_poly(p.subs(sub))
    sign, strict = None, False
    for m, c in q.t.items():
        sg = 1 if c > 0 else -1
        if sign is None:
            sign = sg
        elif sign != sg:
            return None
        if not any(a[1] in POSITIVE_INT_SYMBOLS for a, _ in m):
            strict = True
    return sign if strict else None


class Cond:
    """p OP 0 with p a primitive polynomial whose leading coefficient is positive.
    op in {'>', '>=', '<', '<='}; the negation of '>' is '<=' etc."""
    __slots__ = ("p", "op")
    NEG = {">": "<=", "<=": ">", "<": ">=", ">=": "<"}
    FLIP = {">": "<", "<": ">", ">=": "<=", "<=": ">="}

    def __init__(self, p, op):
        p = as_rat(p)
        if not p.den.is_const():
            # sign of a quotient: the denominator must have a known sign (symbols are positive)
            sd = _simple_sign(p.den) or _shift_sign(p.den)
            if sd is None:
                raise AlgebraError("condition with a denominator of unknown sign: %s" % p)
            p = Rat(p.num if sd > 0 else -p.num)
        p = as_poly(p)
        if p.is_const():
            self.p, self.op = p, op
            return
        c = p.content()
        p = p.scale(1 / c)
        mono, rest = _split_monomial_content(p)
        if mono and all(a[0] == "s" for a, _ in mono):
            p = rest          # dividing by a positive symbol product does not change the sign
            if p.is_const():
                self.p, self.op = p, op
                return
        _, lc = p.leading()
        if lc < 0:
            p = -p
            op = Cond.FLIP[op]
        self.p, self.op = p, op

    def decided(self):
        if self.p.is_const():
            v = self.p.const_value()
            return {">": v > 0, ">=": v >= 0, "<": v < 0, "<=": v <= 0}[self.op]
        s = _simple_sign(self.p)
        if s is None and any(a[0] == "fn" for a in self.p.atoms()):
            s = _numeric_sign(self.p)
        if s is not None:
            return {">": s > 0, ">=": s > 0, "<": s < 0, "<=": s < 0}[self.op]
        return None

    def negate(self):
        return Cond(self.p, Cond.NEG[self.op])

    def key(self):
        return (self.p.key(), self.op)

    def __eq__(self, o):
        return isinstance(o, Cond) and self.p == o.p and self.op == o.op

    def __hash__(self):
        return hash((self.p, self.op))

    def map_atoms(self, fn):
        return Cond(self.p.map_atoms(fn), self.op)

    def subs(self, mapping):
        return Cond(self.p.subs(mapping), self.op)

    def __repr__(self):
        return "[%r %s 0]" % (self.p, self.op)


class PW:
    """piecewise expression: leaf Rat, or (cond, then, else)"""
    __slots__ = ("leaf", "cond", "a", "b")

    def __init__(self, leaf=None, cond=None, a=None, b=None):
        self.leaf, self.cond, self.a, self.b = leaf, cond, a, b

    @staticmethod
    def of(x):
        if isinstance(x, PW):
            return x
        return PW(leaf=as_rat(x))

    @staticmethod
    def ite(cond, a, b):
        d = cond.decided()
        if d is not None and TIE_LOG is not None and cond.p.is_const() and cond.p.const_value() == 0 and not (PW.of(a) == PW.of(b)):
            # a selection between two different values made by comparing two equal real numbers: in floating point the outcome
            # is a matter of rounding
            TIE_LOG.append(cond.op)
        if d is True:
            return PW.of(a)
        if d is False:
            return PW.of(b)
        a, b = PW.of(a), PW.of(b)
        if a == b:
            return a
        # canonical orientation: conditions stored with op in ('>', '>=')
        if cond.op in ("<", "<="):
            cond, a, b = cond.negate(), b, a
        return PW(cond=cond, a=a, b=b)

    def is_leaf(self):
        return self.cond is None

    def _bin(self, o, f):
        o = PW.of(o)
        if self.is_leaf() and o.is_leaf():
            return PW(leaf=f(self.leaf, o.leaf))
        if not self.is_leaf():
            return PW.ite(self.cond, self.a._bin(o, f), self.b._bin(o, f))
        return PW.ite(o.cond, self._bin(o.a, f), self._bin(o.b, f))

    def __add__(self, o):
        return self._bin(o, lambda x, y: x + y)

    __radd__ = __add__

    def __sub__(self, o):
        return self._bin(o, lambda x, y: x - y)

    def __rsub__(self, o):
        return PW.of(o)._bin(self, lambda x, y: x - y)

    def __mul__(self, o):
        return self._bin(o, lambda x, y: x * y)

    __rmul__ = __mul__

    def __truediv__(self, o):
        return self._bin(o, lambda x, y: x / y)

    def __rtruediv__(self, o):
        return PW.of(o)._bin(self, lambda x, y: x / y)

    def __neg__(self):
        return self.map_leaves(lambda r: -r)

    def __pow__(self, n):
        return self.map_leaves(lambda r: r ** n)

    def map_leaves(self, f):
        if self.is_leaf():
            return PW(leaf=f(self.leaf))
        return PW.ite(self.cond, self.a.map_leaves(f), self.b.map_leaves(f))

    def map_atoms(self, fn):
        if self.is_leaf():
            return PW(leaf=self.leaf.map_atoms(fn))
        return PW.ite(self.cond.map_atoms(fn), self.a.map_atoms(fn), self.b.map_atoms(fn))

    def subs(self, mapping):
        """mapping values may be numbers, Poly, Rat or PW"""
        if any(isinstance(v, PW) and not v.is_leaf() for v in mapping.values()):
            return self._subs_pw(mapping)
        mapping = {k: (v.leaf if isinstance(v, PW) else v) for k, v in mapping.items()}
        if self.is_leaf():
            return PW(leaf=self.leaf.subs(mapping))
        return PW.ite(self.cond.subs(mapping), self.a.subs(mapping), self.b.subs(mapping))

    def _subs_pw(self, mapping):
        if not self.is_leaf():
            flat = {k: v for k, v in mapping.items() if not (isinstance(v, PW) and not v.is_leaf())}
            for a in self.cond.p.all_atoms():
                if a in mapping and a not in flat:
                    raise AlgebraError("condition on a piecewise value")
            flat = {k: (v.leaf if isinstance(v, PW) else v) for k, v in flat.items()}
            return PW.ite(self.cond.subs(flat), self.a._subs_pw(mapping), self.b._subs_pw(mapping))
        return _poly_subs_pw(self.leaf.num, mapping) / _poly_subs_pw(self.leaf.den, mapping)

    def simplify_nested(self, known=()):
        """remove branches decided by an enclosing identical condition"""
        if self.is_leaf():
            return self
        for c, v in known:
            if c == self.cond:
                return (self.a if v else self.b).simplify_nested(known)
            if c.p == self.cond.p and c.op == Cond.NEG[self.cond.op]:
                return (self.b if v else self.a).simplify_nested(known)
        a = self.a.simplify_nested(known + ((self.cond, True),))
        b = self.b.simplify_nested(known + ((self.cond, False),))
        return PW.ite(self.cond, a, b)

    def leaves(self, path=()):
        if self.is_leaf():
            yield path, self.leaf
        else:
            yield from self.a.leaves(path + ((self.cond, True),))
            yield from self.b.leaves(path + ((self.cond, False),))

    def conds(self):
        if self.is_leaf():
            return set()
        return {self.cond} | self.a.conds() | self.b.conds()

    def atoms(self):
        if self.is_leaf():
            return self.leaf.atoms()
        return self.cond.p.atoms() | self.a.atoms() | self.b.atoms()

    def all_atoms(self):
        if self.is_leaf():
            return self.leaf.all_atoms()
        return self.cond.p.all_atoms() | self.a.all_atoms() | self.b.all_atoms()

    def __eq__(self, o):
        try:
            o = PW.of(o)
        except Exception:
            return NotImplemented
        if self.is_leaf() != o.is_leaf():
            return False
        if self.is_leaf():
            return self.leaf == o.leaf
        return self.cond == o.cond and self.a == o.a and self.b == o.b

    def __hash__(self):
        if self.is_leaf():
            return hash(self.leaf)
        return hash((self.cond, self.a, self.b))

    def struct_eq(self, o):
        """cheap structural identity (sufficient, not necessary, for equality)"""
        if self.is_leaf() != o.is_leaf():
            return False
        if self.is_leaf():
            return self.leaf.struct_eq(o.leaf)
        return self.cond == o.cond and self.a.struct_eq(o.a) and self.b.struct_eq(o.b)

    def key(self):
        if self.is_leaf():
            return ("L", self.leaf.key())
        return ("N", self.cond.key(), self.a.key(), self.b.key())

    def __repr__(self):
        if self.is_leaf():
            return repr(self.leaf)
        return "(%r if %r else %r)" % (self.a, self.cond, self.b)


def _poly_subs_pw(p, mapping):
    res = PW.of(Poly())
    for m, c in p.t.items():
        term = PW.of(Poly.const(c))
        for a, e in m:
            if a in mapping:
                v = PW.of(mapping[a])
            elif a[0] == "fn":
                arg = fn_arg(a)
                if arg.all_atoms() & set(mapping):
                    narg = PW.of(arg)._subs_pw(mapping)
                    v = narg.map_leaves(lambda r, nm=a[1]: mk_fn(nm, r))
                else:
                    v = PW.of(Poly.atom(a))
            else:
                v = PW.of(Poly.atom(a))
            term = term * (v ** e)
        res = res + term
    return res


def const(c):
    return PW.of(Poly.const(c))


def sym(name):
    return PW.of(Poly.sym(name))


def fld(name, offs):
    return PW.of(Poly.atom(("f", name, tuple(offs))))


def fn(name, arg):
    return PW.of(arg).map_leaves(lambda r: mk_fn(name, r))


def shift_atoms(expr, delta, fields=None):
    """shift every field access by delta (tuple, applied to trailing axes)"""
    def f(a):
        if a[0] == "f" and (fields is None or a[1] in fields):
            o = a[2]
            k = len(o) - len(delta)
            return ("f", a[1], tuple(o[:k]) + tuple(x + d for x, d in zip(o[k:], delta)))
        return a
    return expr.map_atoms(f)


def poly_diff(p, atom):
    """formal derivative of a polynomial with respect to a symbol atom"""
    t = {}
    for m, c in p.t.items():
        d = dict(m)
        e = d.get(atom, 0)
        if e == 0:
            continue
        if e == 1:
            del d[atom]
        else:
            d[atom] = e - 1
        mm = tuple(sorted(d.items(), key=lambda ae: _akey(ae[0])))
        t[mm] = t.get(mm, 0) + c * e
    return Poly(t)
