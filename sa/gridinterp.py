"""Interpreter of forcing-grid methods over pointwise tensors (sa.ptw)."""
from __future__ import annotations

import ast
import os
from fractions import Fraction

from . import ptw
from .poly import PW, Poly, const, sym
from .ptw import A, LAB, MAT, NodeAcc, Seg, FrameError, named, scalar, zeros
from .values import Unsupported

ROD_FILE = "sopht/simulator/immersed_body/cosserat_rod/cosserat_rod_forcing_grids.py"
RIGID_FILE = "sopht/simulator/immersed_body/rigid_body/rigid_body_forcing_grids.py"


class Markers:
    """index object: the markers of the current element (inside a per-element loop)"""


class ElemI:
    """index object: the current element (i or i:i+1)"""

    def __init__(self, shift=0):
        self.shift = shift


class SegIdx:
    def __init__(self, k):
        self.k = k


class NodeSel:
    def __init__(self, which):
        self.which = which      # 'next' | 'prev' | 'first' | 'last'


def rename_atoms(v, tag):
    """the same quantity of the body at another instant: fresh symbols, same shape / frame / rotation tag"""
    if isinstance(v, RodNodes):
        return RodNodes(tag + v.nm, v.frame, v.lead)
    if isinstance(v, A) and v.name:
        return named(v.name.replace(":", tag + ":", 1), v.lead, v.batch, v.frame, v.rot)
    raise Unsupported("cannot rename %r" % (v,))


class BodyModel:
    """what the attributes of the elastica objects denote (assumption A6)"""

    def __init__(self, kind, initial=False):
        self.kind = kind
        self.initial = initial        # the body as it was when the grid was constructed (distinct symbols)

    def attr(self, name, dim):
        v = self._attr(name, dim)
        if self.initial and name != "n_elems":
            return rename_atoms(v, "0")
        return v

    def _attr(self, name, dim):
        if self.kind == "rod":
            if name == "position_collection":
                return RodNodes("X", LAB)
            if name == "velocity_collection":
                return RodNodes("V", LAB)
            if name == "mass":
                return RodNodes("m", None, lead=())
            if name == "director_collection":
                return named("e:Q", (3, 3), "elem", None, "Q")
            if name == "omega_collection":
                return named("e:w", (3,), "elem", MAT)
            if name == "tangents":
                return named("e:t", (3,), "elem", LAB)
            if name == "radius":
                return named("e:r", (), "elem")
            if name == "lengths":
                return named("e:l", (), "elem")
            if name == "n_elems":
                return scalar(sym("n_elems"))
        else:
            if name == "position_collection":
                return named("b:X", (3,), None, LAB)
            if name == "velocity_collection":
                return named("b:V", (3,), None, LAB)
            if name == "omega_collection":
                return named("b:w", (3,), None, MAT)
            if name == "director_collection":
                return named("b:Q", (3, 3), None, None, "Q")
            if name in ("radius", "length", "breadth"):
                return named("b:" + name, (), None)
        raise Unsupported("unknown body attribute %s" % name)


class RodNodes:
    """node-indexed rod array; slicing the node axis yields element-indexed values"""

    def __init__(self, nm, frame, lead=(3,)):
        self.nm, self.frame, self.lead = nm, frame, lead

    def select(self, which):
        pre = {"next": "n+:", "prev": "n-:", "node": "n:", "first": "n0:", "last": "nN:"}[which]
        batch = {"next": "elem", "prev": "elem", "node": "node", "first": None, "last": None}[which]
        return named(pre + self.nm, self.lead, batch, self.frame)


class GridInterp:
    def __init__(self, repo, relfile, clsname):
        self.repo = repo
        src = open(os.path.join(repo, relfile)).read()
        self.tree = ast.parse(src)
        self.classes = {n.name: n for n in self.tree.body if isinstance(n, ast.ClassDef)}
        if clsname not in self.classes:
            raise Unsupported("anchor vanished: class %s" % clsname)
        self.clsname = clsname
        self.mro = []
        c = clsname
        while c in self.classes:
            self.mro.append(self.classes[c])
            bases = [b.id for b in self.classes[c].bases if isinstance(b, ast.Name)]
            c = bases[0] if bases else None
        self.is_rod = "cosserat_rod" in relfile
        self.body = BodyModel("rod" if self.is_rod else "rigid")
        self.attrs = {}
        self.frame_errors = []
        self.in_loop = None
        self.events = []            # ordered record of calls / stores (typestate)
        self.dim = None

    # ------------------------------------------------------------------ class structure
    def method(self, name):
        for c in self.mro:
            for f in c.body:
                if isinstance(f, ast.FunctionDef) and f.name == name:
                    return f, c.name
        return None, None

    def init_scalars(self):
        """evaluate the plain scalar attribute assignments of __init__ (segment bounds etc.)"""
        for c in reversed(self.mro):
            f = next((x for x in c.body if isinstance(x, ast.FunctionDef) and x.name == "__init__"), None)
            if f is None:
                continue
            self.locals = {}
            for st in f.body:
                if isinstance(st, ast.Assign) and len(st.targets) == 1 and isinstance(st.targets[0], ast.Name):
                    try:
                        v = self.scalar_expr(st.value)
                    except Unsupported:
                        v = None
                    if v is not None:
                        self.locals[st.targets[0].id] = v
                    continue
                if isinstance(st, ast.Expr) and isinstance(st.value, ast.Call) and ast.unparse(st.value.func) == "super().__init__":
                    c = st.value
                    arg = None
                    for k in c.keywords:
                        if k.arg == "num_lag_nodes":
                            arg = k.value
                    if arg is None and len(c.args) >= 2:
                        arg = c.args[1]
                    if arg is not None:
                        v = self.scalar_expr(arg)
                        if v is not None:
                            self.attrs["num_lag_nodes"] = scalar(v)
                    continue
                if isinstance(st, ast.Assign) and len(st.targets) == 1 and isinstance(st.targets[0], ast.Attribute) \
                        and isinstance(st.targets[0].value, ast.Name) and st.targets[0].value.id == "self":
                    nm = st.targets[0].attr
                    try:
                        v = self.scalar_expr(st.value)
                    except Unsupported:
                        continue
                    if v is not None:
                        self.attrs[nm] = scalar(v)

    def scalar_expr(self, e):
        if isinstance(e, ast.Constant) and isinstance(e.value, (int, float)) and not isinstance(e.value, bool):
            return const(Fraction(repr(e.value)) if isinstance(e.value, float) else e.value)
        if isinstance(e, ast.BinOp) and isinstance(e.op, (ast.Add, ast.Sub, ast.Mult)):
            a, b = self.scalar_expr(e.left), self.scalar_expr(e.right)
            if a is None or b is None:
                return None
            return a + b if isinstance(e.op, ast.Add) else a - b if isinstance(e.op, ast.Sub) else a * b
        if isinstance(e, ast.Name):
            return getattr(self, "locals", {}).get(e.id)
        if isinstance(e, ast.Attribute):
            s = ast.unparse(e)
            if s.endswith(".n_elems"):
                return sym("n_elems")
            if isinstance(e.value, ast.Name) and e.value.id == "self" and e.attr in self.attrs:
                v = self.attrs[e.attr]
                if isinstance(v, A) and v.lead == () and v.batch is None:
                    return v.comps[()]
            return None
        return None

    # ------------------------------------------------------------------ running a method
    def run(self, name, **params):
        f, owner = self.method(name)
        if f is None:
            raise Unsupported("anchor vanished: %s.%s" % (self.clsname, name))
        self.env = dict(params)
        self.cur = "%s.%s" % (owner, name)
        self.events.append(("enter", name))
        self.block(f.body)
        self.events.append(("exit", name))

    def block(self, stmts):
        for st in stmts:
            self.stmt(st)

    def err(self, node, msg):
        raise Unsupported("%s at %s line %d (%s)" % (msg, self.cur, getattr(node, "lineno", 0), ast.unparse(node)[:80]))

    def stmt(self, st):
        if isinstance(st, ast.Expr):
            if isinstance(st.value, ast.Constant):
                return
            if isinstance(st.value, ast.Call):
                self.call_stmt(st.value)
                return
            self.err(st, "expression statement")
        if isinstance(st, ast.Pass):
            return
        if isinstance(st, ast.Return):
            return
        try:
            if isinstance(st, ast.Assign):
                if len(st.targets) != 1:
                    self.err(st, "multiple targets")
                v = self.ev(st.value)
                self.store(st.targets[0], v, None, st)
                return
            if isinstance(st, ast.AugAssign):
                v = self.ev(st.value)
                op = {ast.Add: "add", ast.Sub: "sub"}.get(type(st.op))
                if op is None and isinstance(st.op, (ast.Mult, ast.Div)) and isinstance(st.target, ast.Name) \
                        and isinstance(v, A) and v.lead == () and st.target.id in self.env and isinstance(self.env[st.target.id], A):
                    # scaling a local / argument by a scalar (whether the caller's array may be modified is C10.g's question)
                    old = self.env[st.target.id]
                    self.env[st.target.id] = ptw.mul(old, v) if isinstance(st.op, ast.Mult) else ptw.div(old, v)
                    return
                if op is None:
                    self.err(st, "augmented operator")
                self.store(st.target, v, op, st)
                return
        except FrameError as ex:
            self.frame_errors.append("%s: %s (%s)" % (self.cur, ex, ast.unparse(st)[:90].replace("\n", " ")))
            # re-evaluate the statement without frame checks so that later statements can still be analysed
            ptw.LENIENT[0] = True
            try:
                if isinstance(st, ast.Assign):
                    self.store(st.targets[0], self.ev(st.value), None, st)
                else:
                    self.store(st.target, self.ev(st.value), {ast.Add: "add", ast.Sub: "sub"}[type(st.op)], st)
            finally:
                ptw.LENIENT[0] = False
            return
        if isinstance(st, ast.For):
            it = ast.unparse(st.iter)
            if not (isinstance(st.target, ast.Name) and it.replace(" ", "") in ("range(self.n_elems)", "range(self.cosserat_rod.n_elems)", "range(0,self.n_elems)")):
                self.err(st, "loop other than `for i in range(n_elems)`")
            prev = self.in_loop
            self.in_loop = st.target.id
            self.block(st.body)
            self.in_loop = prev
            return
        self.err(st, "statement %s" % type(st).__name__)

    def call_stmt(self, c):
        fn = ast.unparse(c.func)
        if fn == "_elements_to_nodes_inplace":
            e = self.ev(c.args[0])
            tgt = self.ev(c.args[1])
            if not isinstance(tgt, NodeAcc):
                self.err(c, "_elements_to_nodes_inplace into a non-node array")
            half = ptw.mul(scalar(const(Fraction(1, 2))), e)
            tgt.plus = ptw.add(tgt.plus, pad(half, tgt.lead))
            tgt.minus = ptw.add(tgt.minus, pad(half, tgt.lead))
            tgt.frame = ptw.join_frame(tgt.frame, e.frame, "nodal accumulation")
            return
        self.err(c, "call statement")

    # ------------------------------------------------------------------ stores
    def store(self, tgt, v, aug, st):
        if isinstance(tgt, ast.Name):
            if aug:
                old = self.env[tgt.id]
                v = ptw.add(old, v, 1 if aug == "add" else -1)
            self.env[tgt.id] = v
            return
        if isinstance(tgt, ast.Attribute) and isinstance(tgt.value, ast.Name) and tgt.value.id == "self":
            if aug:
                old = self.get_self(tgt.attr, tgt)
                v = ptw.add(old, v, 1 if aug == "add" else -1)
            self.set_self(tgt.attr, v)
            return
        if isinstance(tgt, ast.Subscript):
            base = tgt.value
            self_attr = isinstance(base, ast.Attribute) and isinstance(base.value, ast.Name) and base.value.id == "self"
            self.quiet_get = self_attr and not aug      # a plain store into self.x[...] does not read x
            try:
                cur = self.ev(base)
            finally:
                self.quiet_get = False
            idx = self.index_items(tgt.slice, cur)
            new = self.store_into(cur, idx, v, aug, tgt)
            if new is cur and self_attr:
                self.events.append(("set", base.attr, self.cur))
            if new is not cur:
                # rebinding (plain A values are immutable here)
                if isinstance(base, ast.Attribute) and isinstance(base.value, ast.Name) and base.value.id == "self":
                    self.set_self(base.attr, new)
                elif isinstance(base, ast.Name):
                    self.env[base.id] = new
                else:
                    self.err(tgt, "store target")
            return
        self.err(tgt, "store target")

    def set_self(self, name, v):
        self.attrs[name] = v
        self.events.append(("set", name, self.cur))

    def store_into(self, cur, idx, v, aug, node):
        lead_idx, bidx = idx
        if isinstance(cur, NodeAcc):
            return self.store_node(cur, lead_idx, bidx, v, aug, node)
        if isinstance(cur, Seg) or isinstance(bidx, SegIdx):
            if not isinstance(cur, Seg):
                s = Seg(cur.lead, cur.frame)
                cur = s
            k = bidx.k
            old = cur.segs.get(k)
            val = self.fit(v, cur.lead, lead_idx, old, aug)
            val.frame = ptw.join_frame(cur.frame, val.frame, "store")
            cur.segs[k] = val
            return cur
        # whole-array or per-element/markers store
        if not isinstance(cur, A):
            self.err(node, "store into %r" % type(cur).__name__)
        whole = aug is None and all(i is None for i in lead_idx) and bidx is None
        val = self.fit(v, cur.lead, lead_idx, cur, aug)
        if whole:
            val.frame = v.frame if v.frame is not None else cur.frame
        elif cur.frame is not None and v.frame is not None and cur.frame != v.frame and any(not c == const(0) for c in cur.comps.values()) and not ptw.LENIENT[0]:
            raise FrameError("a %s-frame value is combined into the %s-frame array" % (v.frame, cur.frame))
        if val.frame is None:
            val.frame = cur.frame
        if isinstance(bidx, (Markers,)) or cur.batch == "marker":
            val.batch = "marker"
        elif cur.batch is not None and val.batch is None:
            val.batch = cur.batch
        val.rot = cur.rot if cur.rot and all(i is None for i in lead_idx) and aug is None and v.rot == cur.rot else (v.rot if all(i is None for i in lead_idx) else None)
        return val

    def fit(self, v, lead, lead_idx, old, aug):
        """new value of an array of leading dims `lead` after storing v into the sub-block lead_idx"""
        import itertools
        out = dict(old.comps) if isinstance(old, A) else {ix: const(0) for ix in ptw.indices(lead)}
        sel = []
        for d, li in zip(lead, lead_idx):
            if li is None:
                sel.append(list(range(d)))
            elif isinstance(li, int):
                sel.append([li])
            else:
                sel.append(list(range(*li)))
        tshape = tuple(len(s) for s, li in zip(sel, lead_idx) if not isinstance(li, int))
        if not isinstance(v, A):
            self.err(None, "stored value %r" % (v,))
        # broadcast v to tshape
        vl = v.lead
        if vl != tshape:
            if vl == ():
                pass
            elif len(vl) == len(tshape) and all(a == b or a == 1 for a, b in zip(vl, tshape)):
                pass
            elif vl[:len(tshape)] == tshape:
                pass
            else:
                raise Unsupported("cannot store shape %s into block %s" % (vl, tshape))
        free = [k for k, li in enumerate(lead_idx) if not isinstance(li, int)]
        for pos in itertools.product(*[range(len(s)) for s in sel]):
            ix = tuple(s[p] for s, p in zip(sel, pos))
            sub = tuple(pos[k] for k in free)
            if vl == ():
                val = v.comps[()]
            else:
                key = tuple(0 if (len(vl) == len(sub) and vl[j] == 1) else sub[j] for j in range(len(vl)))
                val = v.comps[key]
            if aug == "add":
                out[ix] = out[ix] + val
            elif aug == "sub":
                out[ix] = out[ix] - val
            else:
                out[ix] = val
        batch = ptw.join_batch(old.batch if isinstance(old, A) else None, v.batch)
        fr = v.frame
        if aug and isinstance(old, A):
            fr = ptw.join_frame(old.frame, v.frame, "accumulation") if (old.frame and v.frame) else (old.frame or v.frame)
        return A(lead, out, batch, fr)

    def store_node(self, cur, lead_idx, bidx, v, aug, node):
        which = None
        if isinstance(bidx, NodeSel):
            which = bidx.which
        elif isinstance(bidx, ElemI):
            which = {0: "prev", 1: "next"}.get(bidx.shift)
        if bidx is None:
            # whole node array
            if aug is None and isinstance(v, A) and v.batch in (None,) and all(c == const(0) for c in v.comps.values()):
                cur.plus, cur.minus, cur.direct = zeros(cur.lead, "elem", cur.frame), zeros(cur.lead, "elem", cur.frame), None
                return cur
            if aug is None:
                d = self.fit(v, cur.lead, lead_idx, cur.direct if cur.direct is not None else zeros(cur.lead, "marker"), None)
                cur.direct = d
                cur.frame = ptw.join_frame(cur.frame, v.frame, "store")
                return cur
            self.err(node, "accumulation into the whole node array")
        if which not in ("next", "prev"):
            self.err(node, "node-array store at %r" % (bidx,))
        side = "plus" if which == "next" else "minus"
        old = getattr(cur, side)
        new = self.fit(v, cur.lead, lead_idx, old, aug or None)
        new.batch = "elem"
        cur.frame = ptw.join_frame(cur.frame, v.frame, "nodal accumulation")
        setattr(cur, side, new)
        return cur

    # ------------------------------------------------------------------ expressions
    def ev(self, e):
        m = getattr(self, "e_" + type(e).__name__, None)
        if m is None:
            self.err(e, "expression %s" % type(e).__name__)
        return m(e)

    def e_Constant(self, e):
        if isinstance(e.value, (int, float)) and not isinstance(e.value, bool):
            return scalar(const(Fraction(repr(e.value)) if isinstance(e.value, float) else e.value))
        self.err(e, "constant")

    def e_Name(self, e):
        if e.id in self.env:
            return self.env[e.id]
        if e.id == self.in_loop:
            return ElemI(0)
        self.err(e, "unbound name")

    def get_self(self, name, node):
        if not getattr(self, "quiet_get", False):
            self.events.append(("get", name, self.cur))
        if name in self.attrs:
            return self.attrs[name]
        d = self.default_attr(name)
        if d is None:
            d = self.constructor_value(name)
            if d is not None:
                self.attrs[name] = d
        if d is None:
            self.err(node, "attribute self.%s has no model" % name)
        self.attrs[name] = d
        return d

    def constructor_value(self, name):
        """a buffer the table below does not know: what the constructor put into it, evaluated against the body AS IT WAS AT
        CONSTRUCTION (symbols of their own), so a method that reads it without refreshing it first sees the old body state"""
        for c in self.mro:
            init = next((f for f in c.body if isinstance(f, ast.FunctionDef) and f.name == "__init__"), None)
            if init is None:
                continue
            sts = [st for st in ast.walk(init) if isinstance(st, ast.Assign) and len(st.targets) == 1
                   and isinstance(st.targets[0], ast.Attribute) and isinstance(st.targets[0].value, ast.Name)
                   and st.targets[0].value.id == "self" and st.targets[0].attr == name]
            if not sts:
                continue
            st = max(sts, key=lambda x: x.lineno)
            body, events, quiet = self.body, self.events, getattr(self, "quiet_get", False)
            self.body = BodyModel(body.kind, initial=True)
            self.events = []
            held = {k: self.attrs.pop(k) for k in [k for k, v in self.attrs.items() if v is body]}
            try:
                return self.ev(st.value)
            finally:
                for k in [k for k, v in self.attrs.items() if v is self.body]:
                    del self.attrs[k]
                self.attrs.update(held)
                self.body, self.events, self.quiet_get = body, events, quiet
        return None

    def default_attr(self, name):
        dim = self.dim
        if name in ("cosserat_rod", "rigid_body", "cylinder"):
            return self.body
        if name == "grid_dim":
            return dim
        if name in ("position_field", "velocity_field"):
            return zeros((dim,), "marker", LAB)
        if name == "local_frame_relative_position_field":
            return named("m:loc", (dim,), "marker", MAT)
        if name == "global_frame_relative_position_field":
            return named("m:glob", (dim,), "marker", LAB)
        if name == "local_frame_surface_points":
            return named("m:loc", (dim,), "marker", MAT)
        if name == "grid_point_radius_ratio":
            return named("m:rho", (), "marker")
        if name == "z_vector":
            return A((3,), {(0,): const(0), (1,): const(0), (2,): const(1)}, "elem", LAB)
        if name in ("moment_arm",):
            return zeros((3,), "elem" if self.is_rod and "Surface" not in self.clsname else "marker", LAB)
        if name in ("rod_director_collection_transpose",):
            return zeros((3, 3), "elem")
        if name in ("grid_point_director_transpose",):
            return zeros((3, 3), "marker")
        if name in ("rod_element_position", "rod_element_velocity", "rod_element_global_frame_omega"):
            return zeros((dim,), "elem", LAB)
        if name in ("grid_point_omega", "lag_grid_torque_field"):
            return zeros((dim,), "marker", LAB)
        if name == "grid_point_radius":
            return zeros((), "marker")
        if name in ("element_forces_left_edge_nodes", "element_forces_right_edge_nodes"):
            return zeros((3,), "elem", LAB)
        if name in ("num_lag_nodes", "n_elems"):
            return scalar(sym(name))
        if name in ("start_idx", "end_idx"):
            return ("prefix", name)
        return None

    def e_Attribute(self, e):
        if isinstance(e.value, ast.Name) and e.value.id == "self":
            return self.get_self(e.attr, e)
        base = self.ev(e.value)
        if isinstance(base, BodyModel):
            return base.attr(e.attr, self.dim)
        if e.attr == "T" and isinstance(base, A):
            return ptw.transpose(base)
        self.err(e, "attribute")

    def e_UnaryOp(self, e):
        v = self.ev(e.operand)
        if isinstance(e.op, ast.USub):
            return ptw.neg(v)
        self.err(e, "unary operator")

    def e_BinOp(self, e):
        a, b = self.ev(e.left), self.ev(e.right)
        if isinstance(a, ElemI) and isinstance(e.op, ast.Add) and isinstance(b, A) and b.lead == () and b.comps[()] == const(1):
            return ElemI(a.shift + 1)
        if not (isinstance(a, A) and isinstance(b, A)):
            self.err(e, "operands %s, %s" % (type(a).__name__, type(b).__name__))
        if isinstance(e.op, ast.Add):
            return ptw.add(a, b, 1)
        if isinstance(e.op, ast.Sub):
            return ptw.add(a, b, -1)
        if isinstance(e.op, ast.Mult):
            return ptw.mul(a, b)
        if isinstance(e.op, ast.Div):
            return ptw.div(a, b)
        if isinstance(e.op, ast.MatMult):
            return ptw.matvec(a, b)
        self.err(e, "binary operator")

    def e_Call(self, e):
        fn = ast.unparse(e.func)
        args = e.args
        kw = {k.arg: k.value for k in e.keywords}
        if fn == "_batch_cross" or fn == "np.cross":
            return ptw.cross(self.vec3(self.ev(args[0])), self.vec3(self.ev(args[1])))
        if fn == "_batch_matvec":
            return ptw.matvec(self.ev(args[0]), self.ev(args[1]))
        if fn == "np.dot":
            m, v = self.ev(args[0]), self.ev(args[1])
            return ptw.matvec(m, v)
        if fn == "_batch_matrix_transpose":
            return ptw.transpose(self.ev(args[0]))
        if fn == "_node_to_element_velocity":
            mass, vel = self.ev(args[0]), self.ev(args[1])
            if not (isinstance(mass, RodNodes) and isinstance(vel, RodNodes)):
                self.err(e, "_node_to_element_velocity arguments")
            mp, mm = mass.select("next"), mass.select("prev")
            vp, vm = vel.select("next"), vel.select("prev")
            num = ptw.add(ptw.mul(mp, vp), ptw.mul(mm, vm))
            r = ptw.div(num, ptw.add(mp, mm))
            r.frame = LAB
            return r
        if fn == "np.sum":
            x = self.ev(args[0])
            axis = kw.get("axis", args[1] if len(args) > 1 else None)
            if not isinstance(x, A) or x.batch != "marker":
                self.err(e, "np.sum of a non-marker array")
            scope = "elem" if getattr(x, "markers_of_elem", False) else "all"
            if axis is not None and ast.unparse(axis) not in ("1", "-1"):
                self.err(e, "np.sum axis")
            if axis is None and x.lead != ():
                self.err(e, "np.sum over components and markers")
            return ptw.reduce_markers(x, scope)
        if fn == "np.ones":
            return scalar(const(1))
        if fn == "np.amax":
            return scalar(sym("amax"))
        if isinstance(e.func, ast.Attribute) and e.func.attr in ("reshape", "copy") and not (e.func.attr == "copy" and args):
            return self.ev(e.func.value)
        self.err(e, "call of %s" % fn)

    def vec3(self, v):
        if isinstance(v, RodNodes):
            self.err(None, "node array used without slicing")
        if v.lead == (2,):
            return pad(v, (3,))
        return v

    # ------------------------------------------------------------------ subscripts
    def index_items(self, sl, cur):
        """split an index expression into (leading-dim items, batch item)"""
        items = list(sl.elts) if isinstance(sl, ast.Tuple) else [sl]
        if isinstance(cur, RodNodes):
            nlead, has_batch = len(cur.lead), True
        elif isinstance(cur, NodeAcc):
            nlead, has_batch = len(cur.lead), True
        elif isinstance(cur, Seg):
            nlead, has_batch = len(cur.lead), True
        elif isinstance(cur, A):
            nlead, has_batch = len(cur.lead), cur.batch is not None
        else:
            self.err(sl, "subscript of %r" % type(cur).__name__)
        total = nlead + (1 if has_batch else 0)
        # expand Ellipsis / pad with full slices
        if any(isinstance(i, ast.Constant) and i.value is Ellipsis for i in items):
            k = next(j for j, i in enumerate(items) if isinstance(i, ast.Constant) and i.value is Ellipsis)
            fill = total - (len(items) - 1)
            items = items[:k] + [None] * fill + items[k + 1:]
        while len(items) < total:
            items.append(None)
        if len(items) > total:
            if not has_batch and len(items) == total + 1:
                # rigid bodies: trailing singleton batch axis, e.g. director_collection[:, :, 0]
                last = items[-1]
                if isinstance(last, ast.Constant) and last.value == 0:
                    items = items[:-1]
                else:
                    self.err(sl, "index into the singleton body axis")
            else:
                self.err(sl, "too many indices")
        lead_items = items[:nlead]
        bitem = items[nlead] if has_batch else None
        lead_idx = []
        for it, d in zip(lead_items, (cur.lead if not isinstance(cur, (RodNodes,)) else cur.lead)):
            lead_idx.append(self.lead_index(it, d))
        return lead_idx, self.batch_index(bitem, cur)

    def lead_index(self, it, d):
        if it is None:
            return None
        if isinstance(it, ast.Slice):
            if it.step is not None:
                self.err(it, "strided slice")
            lo = self.int_of(it.lower, 0, d)
            hi = self.int_of(it.upper, d, d)
            if (lo, hi) == (0, d):
                return None
            return (lo, hi)
        v = self.int_of(it, None, d)
        return v

    def int_of(self, node, default, d):
        if node is None:
            return default
        s = ast.unparse(node)
        if s == "self.grid_dim":
            return self.dim
        if isinstance(node, ast.Constant) and isinstance(node.value, int):
            v = node.value
            return v + d if v < 0 else v
        if isinstance(node, ast.UnaryOp) and isinstance(node.op, ast.USub) and isinstance(node.operand, ast.Constant):
            return d - node.operand.value
        self.err(node, "component index")

    def batch_index(self, it, cur):
        if it is None:
            return None
        s = ast.unparse(it).replace(" ", "")
        if isinstance(it, ast.Slice):
            lo = ast.unparse(it.lower).replace(" ", "") if it.lower is not None else None
            hi = ast.unparse(it.upper).replace(" ", "") if it.upper is not None else None
            if lo is None and hi is None:
                return None
            if isinstance(cur, (RodNodes, NodeAcc)):
                if lo == "1" and hi is None:
                    return NodeSel("next")
                if lo is None and hi == "-1":
                    return NodeSel("prev")
                self.err(it, "node slice")
            i = self.in_loop
            if i and lo == "self.start_idx[%s]" % i and hi == "self.end_idx[%s]" % i:
                return Markers()
            if i and lo == i and hi == "%s+1" % i:
                return ElemI(0)
            # segment of the class' own marker layout
            a = self.scalar_expr(it.lower) if it.lower is not None else const(0)
            b = self.scalar_expr(it.upper) if it.upper is not None else None
            n = sym("n_elems")
            if a is not None and b is not None and (b - a) == n:
                q = a / n
                if q.is_leaf() and q.leaf.is_const() and q.leaf.const_value().denominator == 1:
                    return SegIdx(int(q.leaf.const_value()))
            self.err(it, "marker slice")
        if self.in_loop and s == self.in_loop:
            return ElemI(0)
        if self.in_loop and s == self.in_loop + "+1":
            return ElemI(1)
        if isinstance(cur, (RodNodes, NodeAcc)) and s == "-1":
            return NodeSel("last")
        if isinstance(cur, (RodNodes, NodeAcc)) and s == "0":
            return NodeSel("first")
        if s == "-1" or s == "0":
            return ("end", s)
        self.err(it, "batch index")

    def e_Subscript(self, e):
        cur = self.ev(e.value)
        if isinstance(cur, tuple) and cur and cur[0] == "prefix":
            return cur
        lead_idx, bidx = self.index_items(e.slice, cur)
        if isinstance(cur, RodNodes):
            which = bidx.which if isinstance(bidx, NodeSel) else "node"
            if isinstance(bidx, ElemI):
                self.err(e, "node array indexed by element")
            v = cur.select(which)
            return self.take(v, lead_idx)
        if isinstance(cur, NodeAcc):
            if isinstance(bidx, NodeSel) and bidx.which in ("next", "prev"):
                # value of the node array at the element's next / previous node (nodal grid torque)
                if cur.direct is None:
                    self.err(e, "read of an accumulated node array")
                d = cur.direct
                pre = "n+:" if bidx.which == "next" else "n-:"
                ren = A(d.lead, {k: rename_prefix(v, "m:", pre) for k, v in d.comps.items()}, "elem", d.frame)
                return self.take(ren, lead_idx)
            if isinstance(bidx, NodeSel):
                d = cur.direct if cur.direct is not None else zeros(cur.lead)
                pre = "n0:" if bidx.which == "first" else "nN:"
                ren = A(d.lead, {k: rename_prefix(v, "m:", pre) for k, v in d.comps.items()}, None, d.frame)
                return self.take(ren, lead_idx)
            self.err(e, "read of node array")
        if isinstance(cur, Seg):
            if isinstance(bidx, SegIdx):
                if bidx.k not in cur.segs:
                    self.err(e, "segment %d read before it is written" % bidx.k)
                return self.take(cur.segs[bidx.k], lead_idx)
            self.err(e, "read of a segmented array")
        if isinstance(cur, A):
            v = cur
            if isinstance(bidx, SegIdx):
                # segment of a marker array that is given as a whole (e.g. the forcing field)
                v = A(cur.lead, {k: rename_suffix(x, "@seg%d" % bidx.k) for k, x in cur.comps.items()}, "elem", cur.frame)
            elif isinstance(bidx, Markers):
                v = cur.copy()
                v.markers_of_elem = True
            elif isinstance(bidx, ElemI):
                if bidx.shift != 0:
                    self.err(e, "neighbouring element")
                if cur.batch == "marker" and not ptw.LENIENT[0]:
                    # index spaces: a per-marker array has one entry per marker; entry i of it belongs to whichever element owns
                    # marker i, not to element i
                    raise FrameError("per-marker array %s subscripted with the element index" % ast.unparse(e.value))
                v = cur.copy()
            elif isinstance(bidx, tuple) and bidx[0] == "end":
                v = A(cur.lead, {k: rename_prefix(x, "e:", "eEnd%s:" % bidx[1]) for k, x in cur.comps.items()}, None, cur.frame)
            elif bidx is not None:
                self.err(e, "batch index %r" % (bidx,))
            r = self.take(v, lead_idx)
            if getattr(v, "markers_of_elem", False):
                r.markers_of_elem = True
            return r
        self.err(e, "subscript")

    def take(self, v, lead_idx):
        lead, sel = [], []
        for d, li in zip(v.lead, lead_idx):
            if li is None:
                sel.append(list(range(d)))
                lead.append(d)
            elif isinstance(li, int):
                sel.append([li])
            else:
                r = list(range(*li))
                sel.append(r)
                lead.append(len(r))
        import itertools
        out = {}
        for pos in itertools.product(*[range(len(s)) for s in sel]):
            ix = tuple(s[p] for s, p in zip(sel, pos))
            key = tuple(p for p, li in zip(pos, lead_idx) if not isinstance(li, int))
            out[key] = v.comps[ix]
        rot = v.rot if tuple(lead) == v.lead else (v.rot if len(lead) == 2 and lead[0] == lead[1] and all(not isinstance(li, int) for li in lead_idx) else None)
        r = A(tuple(lead), out, v.batch, v.frame if lead else (v.frame if v.lead == () else None), rot)
        if len(lead) < len(v.lead) and v.frame is not None:
            r.frame = v.frame if lead else None     # a single component is a scalar
            if not lead:
                r.comp_of = v.frame
        return r


def pad(v, lead):
    """embed a (2,) planar vector / block into 3 components (missing components are zero)"""
    if v.lead == lead:
        return v
    if len(v.lead) == 1 and len(lead) == 1 and v.lead[0] < lead[0]:
        out = {(i,): (v.comps[(i,)] if i < v.lead[0] else const(0)) for i in range(lead[0])}
        return A(lead, out, v.batch, v.frame)
    raise Unsupported("cannot embed shape %s into %s" % (v.lead, lead))


def rename_prefix(e, old, new):
    def f(a):
        if a[0] == "s" and a[1].startswith(old):
            return ("s", new + a[1][len(old):])
        return a
    return e.map_atoms(f)


def rename_suffix(e, suf):
    def f(a):
        if a[0] == "s" and a[1].startswith("m:"):
            return ("s", a[1] + suf)
        return a
    return e.map_atoms(f)
