"""Abstract values of the partial evaluator (DESIGN 4.3)."""
from __future__ import annotations

import itertools
from fractions import Fraction

from .poly import PW, Poly, Rat, const as pconst, sym as psym


class Unsupported(Exception):
    """construct outside the analysed subset -> ANALYSIS-ERROR (exit 2)"""


class RaisedInAnalysed(Exception):
    """a `raise` statement of the analysed program was reached"""

    def __init__(self, exc_type, msg, where):
        super().__init__("%s: %s at %s" % (exc_type, msg, where))
        self.exc_type, self.msg, self.where = exc_type, msg, where


# ---------------------------------------------------------------- scalars
def is_num(v):
    return isinstance(v, (int, Fraction)) and not isinstance(v, bool)


def is_scalar(v):
    return is_num(v) or isinstance(v, PW) or isinstance(v, bool)


def to_pw(v):
    if isinstance(v, PW):
        return v
    if isinstance(v, bool):
        return pconst(int(v))
    if is_num(v):
        return pconst(v)
    raise Unsupported("not a scalar: %r" % (v,))


def simplify_scalar(v):
    """PW constant -> python number"""
    if isinstance(v, PW) and v.is_leaf() and v.leaf.is_const():
        c = v.leaf.const_value()
        return int(c) if c.denominator == 1 else c
    return v


# ---------------------------------------------------------------- misc values
class DType:
    def __init__(self, name):
        self.name = name

    @property
    def kind(self):
        if self.name == "possibly_complex":
            return "pc"     # result of numpy.linalg.eig: complex in general (A3)
        if self.name.startswith("complex"):
            return "c"
        if self.name.startswith("float"):
            return "f"
        return "i"

    def __eq__(self, o):
        return isinstance(o, DType) and o.name == self.name

    def __hash__(self):
        return hash(self.name)

    def __repr__(self):
        return "np." + self.name


class Ext:
    """reference into an external (non-sopht) module"""

    def __init__(self, path):
        self.path = path

    def __repr__(self):
        return "<ext %s>" % self.path


class Opaque:
    def __init__(self, tag, info=None):
        self.tag, self.info = tag, info

    def __repr__(self):
        return "<opaque %s>" % self.tag


class ModuleRef:
    def __init__(self, name):
        self.name = name

    def __repr__(self):
        return "<module %s>" % self.name


class Scope:
    def __init__(self, parent=None, name=""):
        self.vars = {}
        self.parent = parent
        self.name = name

    def lookup(self, n):
        s = self
        while s is not None:
            if n in s.vars:
                return s.vars[n]
            s = s.parent
        raise KeyError(n)

    def has(self, n):
        try:
            self.lookup(n)
            return True
        except KeyError:
            return False


class Func:
    def __init__(self, node, scope, module, qualname, defaults, kwdefaults, cls=None):
        self.node, self.scope, self.module, self.qualname = node, scope, module, qualname
        self.defaults, self.kwdefaults = defaults, kwdefaults
        self.cls = cls  # defining class (for super())

    def __repr__(self):
        return "<func %s>" % self.qualname


class Static:
    def __init__(self, fn):
        self.fn = fn


class Njit:
    def __init__(self, fn, opts):
        self.fn, self.opts = fn, opts

    def __repr__(self):
        return "<njit %s>" % self.fn.qualname


class Bound:
    def __init__(self, inst, fn):
        self.inst, self.fn = inst, fn

    def __repr__(self):
        return "<bound %s of %s>" % (self.fn.qualname, self.inst)


class Class:
    def __init__(self, name, bases, attrs, module, node):
        self.name, self.bases, self.attrs, self.module, self.node = name, bases, attrs, module, node

    def mro(self):
        out = [self]
        for b in self.bases:
            if isinstance(b, Class):
                for c in b.mro():
                    if c not in out:
                        out.append(c)
        return out

    def find(self, name, after=None):
        seen = after is None
        for c in self.mro():
            if not seen:
                if c is after:
                    seen = True
                continue
            if name in c.attrs:
                return c, c.attrs[name]
        return None, None

    def __repr__(self):
        return "<class %s>" % self.name


_inst_ids = itertools.count(1)


class Inst:
    def __init__(self, cls):
        self.cls = cls
        self.attrs = {}
        self.id = next(_inst_ids)
        self.constructed = False

    def __repr__(self):
        return "<%s#%d>" % (self.cls.name, self.id)


class Super:
    def __init__(self, inst, cls):
        self.inst, self.cls = inst, cls


# ---------------------------------------------------------------- arrays
_alloc_ids = itertools.count(1)


class Alloc:
    """allocation site of an array (or an array parameter of an entry point)"""

    def __init__(self, label, shape, dtype, how, valfn=None, role=None):
        self.id = next(_alloc_ids)
        self.label = label          # human name: attribute or variable it was first bound to
        self.shape = tuple(shape) if shape is not None else None   # tuple of scalars
        self.dtype = dtype
        self.how = how              # 'zeros','empty','param','derived','ext',...
        self.valfn = valfn          # optional: index tuple (PW) -> PW content
        self.role = role
        self.site = None            # (module, lineno)
        self.frozen_after_init = False

    def __repr__(self):
        return "%s#%d" % (self.label, self.id)


class Arr:
    """view into an allocation: per base axis either ('i', idx) or ('r', lo, hi) [step 1]"""

    def __init__(self, alloc, axes=None, part=None, transposed=None):
        self.alloc = alloc
        if axes is None:
            if alloc.shape is None:
                raise Unsupported("array of unknown shape: %r" % alloc)
            axes = tuple(("r", pconst(0), to_pw(n)) for n in alloc.shape)
        self.axes = tuple(axes)
        self.part = part            # None | 'real' | 'imag'
        self.perm = transposed      # None or permutation of the view axes

    @property
    def dtype(self):
        return self.alloc.dtype

    def view_axes(self):
        return [a for a in self.axes if a[0] == "r"]

    @property
    def shape(self):
        sh = tuple(simplify_scalar(a[2] - a[1]) for a in self.axes if a[0] == "r")
        if self.perm is not None:
            sh = tuple(sh[i] for i in self.perm)
        return sh

    @property
    def ndim(self):
        return len(self.view_axes())

    def key(self):
        ax = []
        for a in self.axes:
            if a[0] == "i":
                ax.append(("i", a[1].key()))
            else:
                ax.append(("r", a[1].key(), a[2].key()))
        return (self.alloc.id, tuple(ax), self.part, self.perm)

    def same_cells(self, o):
        return isinstance(o, Arr) and self.key() == o.key()

    def is_full(self):
        if self.part is not None:
            return False
        for a, n in zip(self.axes, self.alloc.shape):
            if a[0] != "r":
                return False
            if not (a[1] == pconst(0) and a[2] == to_pw(n)):
                return False
        return True

    def describe(self):
        parts = []
        for a, n in zip(self.axes, self.alloc.shape):
            if a[0] == "i":
                parts.append(str(simplify_scalar(a[1])))
            elif a[1] == pconst(0) and a[2] == to_pw(n):
                parts.append(":")
            else:
                parts.append("%s:%s" % (simplify_scalar(a[1]), simplify_scalar(a[2])))
        s = "%s[%s]" % (self.alloc.label, ",".join(parts))
        if self.part:
            s += "." + self.part
        if self.perm is not None:
            s += ".T%s" % (self.perm,)
        return s

    def __repr__(self):
        return "<arr %s>" % self.describe()


class SliceVal:
    def __init__(self, lo, hi, step):
        self.lo, self.hi, self.step = lo, hi, step

    def __repr__(self):
        return "slice(%r,%r,%r)" % (self.lo, self.hi, self.step)


# ---------------------------------------------------------------- stencils / kernels
class Field:
    def __init__(self, name, rank, dtype=None, spec=None):
        self.name, self.rank, self.dtype, self.spec = name, rank, dtype, spec

    def __repr__(self):
        return "<field %s:%dD>" % (self.name, self.rank)


class StencilAssign:
    def __init__(self, field, offset, expr, lineno):
        self.field, self.offset, self.expr, self.lineno = field, offset, expr, lineno

    def __repr__(self):
        return "%s@%s := %r" % (self.field, self.offset, self.expr)


class StencilDef:
    def __init__(self, name, qualname, module, lineno):
        self.name, self.qualname, self.module, self.lineno = name, qualname, module, lineno
        self.fields = {}    # name -> Field
        self.symbols = set()
        self.assigns = []

    # derived facts ---------------------------------------------------
    def written(self):
        return [a.field for a in self.assigns]

    def accesses(self):
        """set of (field, offset) read"""
        out = set()
        for a in self.assigns:
            for at in a.expr.all_atoms():
                if at[0] == "f":
                    out.add((at[1], at[2]))
        return out

    def reach(self):
        g = 0
        for _, off in self.accesses():
            for o in off:
                g = max(g, abs(o))
        for a in self.assigns:
            for o in a.offset:
                g = max(g, abs(o))
        return g

    def scalar_params(self):
        out = set()
        for a in self.assigns:
            for at in a.expr.all_atoms():
                if at[0] == "s" and at[1] in self.symbols:
                    out.add(at[1])
        return out

    def free_symbols(self):
        out = set()
        for a in self.assigns:
            for at in a.expr.all_atoms():
                if at[0] == "s":
                    out.add(at[1])
        return out

    def __repr__(self):
        return "<stencil %s>" % self.qualname


class KernelConfig:
    def __init__(self, kw):
        self.kw = kw

    def __repr__(self):
        return "<kernelconfig %r>" % (self.kw,)


class KernelAST:
    def __init__(self, stencil, config):
        self.stencil, self.config = stencil, config


class Kernel:
    """compiled pystencils kernel: callable with keyword arguments only"""

    def __init__(self, stencil, config, site):
        self.stencil, self.config, self.site = stencil, config, site

    @property
    def iteration_slice(self):
        return self.config.kw.get("iteration_slice") if self.config else None

    @property
    def openmp(self):
        return self.config.kw.get("cpu_openmp") if self.config else None

    def __repr__(self):
        return "<kernel %s>" % self.stencil.qualname


class FFTPlan:
    def __init__(self, in_arr, out_arr, direction, kw):
        self.in_arr, self.out_arr, self.direction, self.kw = in_arr, out_arr, direction, kw

    def __repr__(self):
        return "<fftplan %s>" % self.direction


# ---------------------------------------------------------------- trace
class Op:
    """one effect in the flat trace"""

    def __init__(self, kind, **kw):
        self.kind = kind
        self.__dict__.update(kw)

    def __repr__(self):
        d = {k: v for k, v in self.__dict__.items() if k not in ("kind", "node")}
        return "Op(%s %r)" % (self.kind, d)
