"""Resolved summaries of callables: what every argument array holds afterwards, as a
disjoint list of (region, expression over the initial argument contents)."""
from __future__ import annotations

from .driver import Session, run_store, written_allocs
from .poly import PW
from .regions import Box
from .store import Store, ViewInfo, full_box, visible, interior_point, expr_at, comp_rank, _is_single_atom
from .values import Arr, Kernel, Func, Bound, RaisedInAnalysed, Unsupported


class Summary:
    def __init__(self):
        self.arrays = {}      # label -> Arr
        self.final = {}       # base name ("F[0]", "f", "c.real") -> list[(Box, expr)]
        self.full = {}        # base name -> Box
        self.written = set()  # base names whose content changed
        self.trace = []
        self.problems = []    # interpreter problems + store problems
        self.raised = None
        self.store = None
        self.extra_written = {}   # allocations written that are not arguments: label -> alloc
        self.unwritten = []       # expected outputs that no op of the trace writes (store not run in that case)

    def interior(self, name):
        fb = self.full[name]
        return expr_at_cells(self.final[name], interior_point(fb))

    def unchanged(self, name):
        cells = self.final[name]
        return len(cells) == 1 and _is_single_atom(cells[0][1]) and _atom_name(cells[0][1]) == name


def _atom_name(e):
    from .poly import as_poly
    p = as_poly(e.leaf)
    (m, c), = p.t.items()
    return m[0][0][1]


def expr_at_cells(cells, box):
    for b, e in cells:
        if b.contains(box):
            return e
    return None


def summarize(S, fn, kwargs, extra_arrays=(), expect_written=()):
    """run fn(**kwargs) and summarise.  Arrays among kwargs (and extra_arrays, e.g. closure-owned
    buffers) start with arbitrary symbolic contents."""
    sm = Summary()
    arrs = {k: v for k, v in kwargs.items() if isinstance(v, Arr)}
    for a in extra_arrays:
        arrs[a.alloc.label] = a
    sm.arrays = arrs
    tr, pr, raised = S.trace_call(fn, **kwargs)
    sm.trace, sm.raised = tr, raised
    sm.problems = list(pr)
    if expect_written and raised is None:
        # cheap structural pre-check before any symbolic execution: every documented output component is written by some op
        from .driver import written_views, component_written
        import re as _re
        views = written_views(tr)
        for name in expect_written:
            m = _re.fullmatch(r"([A-Za-z_][A-Za-z_0-9]*)((?:\[\d+\])*)(?:\.(?:real|imag))?", name)
            if m is None or m.group(1) not in arrs:
                continue
            comp = tuple(int(x) for x in _re.findall(r"\[(\d+)\]", m.group(2)))
            # (a kernel documented to leave everything alone, e.g. zone width 0, writes nothing at all: only a component that
            # is skipped while a sibling component of the same array is written contradicts "component by component")
            aid = arrs[m.group(1)].alloc.id
            if comp and not component_written(views, aid, comp) and any(v.alloc.id == aid for v in views):
                sm.unwritten.append(name)
        if sm.unwritten:
            return sm
    havoc = {a.alloc.id for a in arrs.values()} | written_allocs(tr)
    st = Store(havoc=havoc)
    try:
        for op in tr:
            if op.kind in ("CallBegin", "CallEnd"):
                continue
            st.step(op)
    except RaisedInAnalysed as ex:
        sm.raised = ex
    sm.store = st
    sm.problems += [p for p in st.problems if p.kind not in {x.pkind for x in pr}]
    arg_ids = {a.alloc.id for a in arrs.values()}
    for label, a in arrs.items():
        al = a.alloc
        cr = comp_rank(al)
        import itertools
        comps = list(itertools.product(*[range(int(s)) for s in al.shape[:cr]]))
        parts = ["real", "imag"] if al.dtype.kind == "c" else [None]
        for c in comps:
            for part in parts:
                key = st.key(al, c, part)
                name = st.base_name(key)
                fb = full_box(al)
                cells = [(p.box, p.expr) for p in st.pieces(key)]
                sm.final[name] = cells
                sm.full[name] = fb
                if not sm.unchanged(name):
                    sm.written.add(name)
    for (aid, comp, part), (al, _, _) in st.meta.items():
        if aid not in arg_ids and aid in written_allocs(tr):
            sm.extra_written[al.label] = al
    return sm
