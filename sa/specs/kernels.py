"""Oracle table of the public Eulerian-grid kernels (DESIGN Appendix A): for every generator
and option combination, the call signature of the returned callable and the documented
result (closed form + region).  Written from the docstrings / comments / property text,
in mathematical vocabulary; compared with *normal forms* extracted from the code."""
from __future__ import annotations

import itertools
from fractions import Fraction as Fr

from ..poly import PW, Cond, Poly, const, fld, fn, sym, PI
from ..regions import Box, le, lt
from . import ops
from .ops import X, Y, Z, AXES, at, comp, unit, zero


class Straddle(Exception):
    pass


def unchanged(name, dim):
    return at(name, zero(dim))


# ------------------------------------------------------------------ region specs
class Full:
    def __init__(self, expr):
        self.expr = expr

    def expect(self, box, fb):
        return self.expr

    def describe(self):
        return "whole array"

    def cuts(self, fb):
        return [[] for _ in fb.iv]


class IntRing:
    """closed form on the interior shrunk by g; `ring` on the boundary ring of width g"""

    def __init__(self, g, inner, ring):
        self.g, self.inner, self.ring = g, inner, ring

    def expect(self, box, fb):
        it = fb.shrink(self.g)
        if it.contains(box):
            return self.inner
        if it.intersect(box).is_empty():
            return self.ring
        raise Straddle("cell %r straddles the interior(%d) boundary" % (box, self.g))

    def describe(self):
        return "interior(%d) + ring" % self.g

    def cuts(self, fb):
        return [[lo + self.g, hi - self.g] for lo, hi in fb.iv]


class Zones:
    """per-axis classification of a cell: 'lo' = first w layers, 'hi' = last w layers, 'mid'"""

    def __init__(self, w, fnc):
        self.w, self.fnc = w, fnc

    def expect(self, box, fb):
        classes = []
        for (lo, hi), (flo, fhi) in zip(box.iv, fb.iv):
            w = self.w
            if le(flo, lo) and le(hi, flo + w):
                classes.append("lo")
            elif le(fhi - w, lo) and le(hi, fhi):
                classes.append("hi")
            elif le(flo + w, lo) and le(hi, fhi - w):
                classes.append("mid")
            else:
                raise Straddle("cell %r straddles the zone(%d) boundary" % (box, w))
        return self.fnc(tuple(classes), fb)

    def describe(self):
        return "boundary zones of width %d" % self.w

    def cuts(self, fb):
        return [[lo + self.w, hi - self.w] for lo, hi in fb.iv]


# ------------------------------------------------------------------ catalogue entries
class Entry:
    def __init__(self, gen, dim, opts, build, expected, doc):
        self.gen, self.dim, self.opts, self.build, self.expected, self.doc = gen, dim, opts, build, expected, doc

    def label(self):
        return "%s%s" % (self.gen, "" if not self.opts else "(" + ", ".join("%s=%s" % kv for kv in sorted(self.opts.items())) + ")")


CATALOGUE = []


def entry(gen, dim, opts, doc):
    def deco(f):
        build, expected = f()
        CATALOGUE.append(Entry(gen, dim, opts, build, expected, doc))
        return f
    return deco


def vec_comps(dim):
    return list(range(dim))


def _sfx(dim):
    return "%dd" % dim


def scalars(*names):
    return {n: sym(n) for n in names}


def tuple_syms(prefix, dim):
    return [sym("%s%d" % (prefix, i)) for i in range(dim)]


def add_elementwise():
    for dim in (2, 3):
        for ft in ("scalar", "vector"):
            comps = [None] if ft == "scalar" else vec_comps(dim)

            def nm(base, c):
                return base if c is None else comp(base, c)

            # --- sum
            def mk_sum(dim=dim, ft=ft, comps=comps, nm=nm):
                def build(S):
                    mk = S.scalar_field if ft == "scalar" else S.vector_field
                    return dict(field_type=ft), dict(sum_field=mk("sum_field", dim), field_1=mk("field_1", dim), field_2=mk("field_2", dim)), []

                def expected():
                    z = zero(dim)
                    return {nm("sum_field", c): Full(at(nm("field_1", c), z) + at(nm("field_2", c), z)) for c in comps}
                return build, expected
            entry("gen_elementwise_sum_pyst_kernel_" + _sfx(dim), dim, {"field_type": ft}, "sum_field = field_1 + field_2")(mk_sum)

            # --- saxpby
            def mk_saxpby(dim=dim, ft=ft, comps=comps, nm=nm):
                def build(S):
                    mk = S.scalar_field if ft == "scalar" else S.vector_field
                    return dict(field_type=ft), dict(sum_field=mk("sum_field", dim), field_1=mk("field_1", dim), field_2=mk("field_2", dim),
                                                     field_1_prefac=sym("alpha"), field_2_prefac=sym("beta")), []

                def expected():
                    z = zero(dim)
                    return {nm("sum_field", c): Full(sym("alpha") * at(nm("field_1", c), z) + sym("beta") * at(nm("field_2", c), z)) for c in comps}
                return build, expected
            entry("gen_elementwise_saxpby_pyst_kernel_" + _sfx(dim), dim, {"field_type": ft}, "sum_field = a*field_1 + b*field_2")(mk_saxpby)

            # --- set fixed val
            def mk_set(dim=dim, ft=ft, comps=comps, nm=nm):
                def build(S):
                    if ft == "scalar":
                        return dict(field_type=ft), dict(field=S.scalar_field("field", dim), fixed_val=sym("c")), []
                    return dict(field_type=ft), dict(vector_field=S.vector_field("vector_field", dim), fixed_vals=tuple_syms("c", dim)), []

                def expected():
                    if ft == "scalar":
                        return {"field": Full(sym("c"))}
                    return {comp("vector_field", c): Full(sym("c%d" % c)) for c in comps}
                return build, expected
            entry("gen_set_fixed_val_pyst_kernel_" + _sfx(dim), dim, {"field_type": ft}, "field = c (vector: component i = c_i)")(mk_set)

            # --- add fixed val
            def mk_add(dim=dim, ft=ft, comps=comps, nm=nm):
                def build(S):
                    if ft == "scalar":
                        return dict(field_type=ft), dict(sum_field=S.scalar_field("sum_field", dim), field=S.scalar_field("field", dim), fixed_val=sym("c")), []
                    return dict(field_type=ft), dict(sum_field=S.vector_field("sum_field", dim), vector_field=S.vector_field("vector_field", dim),
                                                     fixed_vals=tuple_syms("c", dim)), []

                def expected():
                    z = zero(dim)
                    if ft == "scalar":
                        return {"sum_field": Full(at("field", z) + sym("c"))}
                    return {comp("sum_field", c): Full(at(comp("vector_field", c), z) + sym("c%d" % c)) for c in comps}
                return build, expected
            entry("gen_add_fixed_val_pyst_kernel_" + _sfx(dim), dim, {"field_type": ft}, "sum_field = field + c")(mk_add)

            # --- set fixed val at boundaries
            for w in (1, 2, 3):
                def mk_setb(dim=dim, ft=ft, comps=comps, w=w):
                    def build(S):
                        if ft == "scalar":
                            return dict(field_type=ft, width=w), dict(field=S.scalar_field("field", dim), fixed_val=sym("c")), []
                        return dict(field_type=ft, width=w), dict(vector_field=S.vector_field("vector_field", dim), fixed_vals=tuple_syms("c", dim)), []

                    def expected():
                        def mkf(name, val):
                            def f(classes, fb):
                                return unchanged(name, dim) if all(c == "mid" for c in classes) else val
                            return f
                        if ft == "scalar":
                            return {"field": Zones(w, mkf("field", sym("c")))}
                        return {comp("vector_field", c): Zones(w, mkf(comp("vector_field", c), sym("c%d" % c))) for c in comps}
                    return build, expected
                entry("gen_set_fixed_val_at_boundaries_pyst_kernel_" + _sfx(dim), dim, {"field_type": ft, "width": w},
                      "field = c on the 2*dim boundary slabs of the given width, nothing else")(mk_setb)

        # --- copy
        def mk_copy(dim=dim):
            def build(S):
                return {}, dict(field=S.scalar_field("field", dim), rhs_field=S.scalar_field("rhs_field", dim)), []

            def expected():
                return {"field": Full(at("rhs_field", zero(dim)))}
            return build, expected
        entry("gen_elementwise_copy_pyst_kernel_" + _sfx(dim), dim, {}, "field = rhs_field")(mk_copy)

        # --- complex product
        def mk_cprod(dim=dim):
            def build(S):
                return {}, dict(product_field=S.complex_field("product_field", dim), field_1=S.complex_field("field_1", dim),
                                field_2=S.complex_field("field_2", dim)), []

            def expected():
                z = zero(dim)
                a_re, a_im = at("field_1.real", z), at("field_1.imag", z)
                b_re, b_im = at("field_2.real", z), at("field_2.imag", z)
                return {"product_field.real": Full(a_re * b_re - a_im * b_im), "product_field.imag": Full(a_re * b_im + a_im * b_re)}
            return build, expected
        entry("gen_elementwise_complex_product_pyst_kernel_" + _sfx(dim), dim, {}, "product = field_1 * field_2 (complex)")(mk_cprod)

    # --- cross product 3D
    def mk_cross():
        def build(S):
            return {}, dict(result_field=S.vector_field("result_field", 3), field_1=S.vector_field("field_1", 3), field_2=S.vector_field("field_2", 3)), []

        def expected():
            cr = ops.cross("field_1", "field_2")
            return {comp("result_field", c): Full(cr[c]) for c in range(3)}
        return build, expected
    entry("gen_elementwise_cross_product_pyst_kernel_3d", 3, {}, "result = field_1 x field_2")(mk_cross)


def add_differential():
    p = sym("prefactor")
    # diffusion flux
    for dim in (2, 3):
        fts = ("scalar",) if dim == 2 else ("scalar", "vector")
        for ft in fts:
            for reset in (True, False):
                def mk(dim=dim, ft=ft, reset=reset):
                    def build(S):
                        g = dict(reset_ghost_zone=reset)
                        if dim == 3:
                            g["field_type"] = ft
                        if ft == "scalar":
                            return g, dict(diffusion_flux=S.scalar_field("diffusion_flux", dim), field=S.scalar_field("field", dim), prefactor=p), []
                        return g, dict(vector_field_diffusion_flux=S.vector_field("vector_field_diffusion_flux", dim),
                                       vector_field=S.vector_field("vector_field", dim), prefactor=p), []

                    def expected():
                        if ft == "scalar":
                            return {"diffusion_flux": IntRing(1, p * ops.laplacian_sum("field", dim),
                                                              const(0) if reset else unchanged("diffusion_flux", dim))}
                        return {comp("vector_field_diffusion_flux", c): IntRing(
                            1, p * ops.laplacian_sum(comp("vector_field", c), dim),
                            const(0) if reset else unchanged(comp("vector_field_diffusion_flux", c), dim)) for c in range(dim)}
                    return build, expected
                opts = {"reset_ghost_zone": reset}
                if dim == 3:
                    opts["field_type"] = ft
                entry("gen_diffusion_flux_pyst_kernel_" + _sfx(dim), dim, opts,
                      "flux = prefactor * (sum of neighbours - 2*dim*centre) on the interior; ring 0 with ghost-zone reset")(mk)

    # inplane curl 2D
    def mk_incurl():
        def build(S):
            return {}, dict(curl=S.scalar_field("curl", 2), field=S.vector_field("field", 2), prefactor=p), []

        def expected():
            return {"curl": IntRing(1, p * ops.curl2d_of_vector("field"), unchanged("curl", 2))}
        return build, expected
    entry("gen_inplane_field_curl_pyst_kernel_2d", 2, {}, "curl = prefactor * (d_x f_y - d_y f_x)")(mk_incurl)

    # outplane curl 2D
    for reset in (True, False):
        def mk_outcurl(reset=reset):
            def build(S):
                return dict(reset_ghost_zone=reset), dict(curl=S.vector_field("curl", 2), field=S.scalar_field("field", 2), prefactor=p), []

            def expected():
                c2 = ops.curl2d_of_scalar("field")
                return {comp("curl", c): IntRing(1, p * c2[c], const(0) if reset else unchanged(comp("curl", c), 2)) for c in (X, Y)}
            return build, expected
        entry("gen_outplane_field_curl_pyst_kernel_2d", 2, {"reset_ghost_zone": reset},
              "curl = prefactor * (d_y psi, -d_x psi)")(mk_outcurl)

    # curl 3D
    for reset in (True, False):
        def mk_curl3(reset=reset):
            def build(S):
                return dict(reset_ghost_zone=reset), dict(curl=S.vector_field("curl", 3), field=S.vector_field("field", 3), prefactor=p), []

            def expected():
                c3 = ops.curl3d("field")
                return {comp("curl", c): IntRing(1, p * c3[c], const(0) if reset else unchanged(comp("curl", c), 3)) for c in range(3)}
            return build, expected
        entry("gen_curl_pyst_kernel_3d", 3, {"reset_ghost_zone": reset}, "curl_a = prefactor * (d_b f_c - d_c f_b)")(mk_curl3)

    # divergence 3D
    for reset in (True, False):
        def mk_div(reset=reset):
            def build(S):
                return dict(reset_ghost_zone=reset), dict(divergence=S.scalar_field("divergence", 3), field=S.vector_field("field", 3), inv_dx=sym("inv_dx")), []

            def expected():
                return {"divergence": IntRing(1, const(Fr(1, 2)) * sym("inv_dx") * ops.div3d("field"),
                                              const(0) if reset else unchanged("divergence", 3))}
            return build, expected
        entry("gen_divergence_pyst_kernel_3d", 3, {"reset_ghost_zone": reset}, "div = 0.5 * inv_dx * sum_a d_a f_a")(mk_div)

    # update vorticity from velocity forcing
    def mk_uf2():
        def build(S):
            return {}, dict(vorticity_field=S.scalar_field("vorticity_field", 2), velocity_forcing_field=S.vector_field("velocity_forcing_field", 2), prefactor=p), []

        def expected():
            return {"vorticity_field": IntRing(1, unchanged("vorticity_field", 2) + p * ops.curl2d_of_vector("velocity_forcing_field"),
                                               unchanged("vorticity_field", 2))}
        return build, expected
    entry("gen_update_vorticity_from_velocity_forcing_pyst_kernel_2d", 2, {}, "vorticity += prefactor * curl(forcing)")(mk_uf2)

    def mk_uf3():
        def build(S):
            return {}, dict(vorticity_field=S.vector_field("vorticity_field", 3), velocity_forcing_field=S.vector_field("velocity_forcing_field", 3), prefactor=p), []

        def expected():
            c3 = ops.curl3d("velocity_forcing_field")
            return {comp("vorticity_field", c): IntRing(1, unchanged(comp("vorticity_field", c), 3) + p * c3[c],
                                                        unchanged(comp("vorticity_field", c), 3)) for c in range(3)}
        return build, expected
    entry("gen_update_vorticity_from_velocity_forcing_pyst_kernel_3d", 3, {}, "vorticity += prefactor * curl(forcing)")(mk_uf3)

    # update vorticity from penalised velocity
    def mk_up2():
        def build(S):
            return {}, dict(vorticity_field=S.scalar_field("vorticity_field", 2), penalised_velocity_field=S.vector_field("penalised_velocity_field", 2),
                            velocity_field=S.vector_field("velocity_field", 2), prefactor=p), []

        def expected():
            e = ops.curl2d_of_vector("penalised_velocity_field") - ops.curl2d_of_vector("velocity_field")
            return {"vorticity_field": IntRing(1, unchanged("vorticity_field", 2) + p * e, unchanged("vorticity_field", 2))}
        return build, expected
    entry("gen_update_vorticity_from_penalised_velocity_pyst_kernel_2d", 2, {}, "vorticity += prefactor * curl(u_pen - u)")(mk_up2)

    def mk_up3():
        def build(S):
            return {}, dict(vorticity_field=S.vector_field("vorticity_field", 3), penalised_velocity_field=S.vector_field("penalised_velocity_field", 3),
                            velocity_field=S.vector_field("velocity_field", 3), prefactor=p), []

        def expected():
            a, b = ops.curl3d("penalised_velocity_field"), ops.curl3d("velocity_field")
            return {comp("vorticity_field", c): IntRing(1, unchanged(comp("vorticity_field", c), 3) + p * (a[c] - b[c]),
                                                        unchanged(comp("vorticity_field", c), 3)) for c in range(3)}
        return build, expected
    entry("gen_update_vorticity_from_penalised_velocity_pyst_kernel_3d", 3, {}, "vorticity += prefactor * curl(u_pen - u)")(mk_up3)

    # vortex stretching flux
    def mk_vs():
        def build(S):
            return {}, dict(vorticity_stretching_flux_field=S.vector_field("vorticity_stretching_flux_field", 3),
                            vorticity_field=S.vector_field("vorticity_field", 3), velocity_field=S.vector_field("velocity_field", 3), prefactor=p), []

        def expected():
            return {comp("vorticity_stretching_flux_field", c): IntRing(1, p * ops.stretching("vorticity_field", comp("velocity_field", c)), const(0))
                    for c in range(3)}
        return build, expected
    entry("gen_vorticity_stretching_flux_pyst_kernel_3d", 3, {}, "flux_c = prefactor * sum_a omega_a d_a u_c ; ring 0")(mk_vs)


def add_advection():
    for dim in (2, 3):
        def mk_flux(dim=dim):
            def build(S):
                return {}, dict(advection_flux=S.scalar_field("advection_flux", dim), field=S.scalar_field("field", dim),
                                velocity=S.vector_field("velocity", dim), inv_dx=sym("inv_dx")), []

            def expected():
                e = unchanged("advection_flux", dim) + sym("inv_dx") * ops.eno3_flux_difference("field", "velocity", dim)
                return {"advection_flux": IntRing(2, e, unchanged("advection_flux", dim))}
            return build, expected
        entry("gen_advection_flux_conservative_eno3_pyst_kernel_" + _sfx(dim), dim, {},
              "advection_flux += inv_dx * sum_a (F+_a - F-_a) with conservative ENO3 face fluxes")(mk_flux)

        fts = ("scalar",) if dim == 2 else ("scalar", "vector")
        for ft in fts:
            def mk_step(dim=dim, ft=ft):
                def build(S):
                    g = {} if dim == 2 else dict(field_type=ft)
                    if ft == "scalar":
                        return g, dict(field=S.scalar_field("field", dim), advection_flux=S.scalar_field("advection_flux", dim),
                                       velocity=S.vector_field("velocity", dim), dt_by_dx=sym("dt_by_dx")), []
                    return g, dict(vector_field=S.vector_field("vector_field", dim), advection_flux=S.scalar_field("advection_flux", dim),
                                   velocity=S.vector_field("velocity", dim), dt_by_dx=sym("dt_by_dx")), []

                def expected():
                    out = {}
                    names = ["field"] if ft == "scalar" else [comp("vector_field", c) for c in range(dim)]
                    for n in names:
                        out[n] = IntRing(2, unchanged(n, dim) - sym("dt_by_dx") * ops.eno3_flux_difference(n, "velocity", dim), unchanged(n, dim))
                    # the flux buffer is scratch: it holds the last component's flux
                    last = names[-1]
                    out["advection_flux"] = IntRing(2, -sym("dt_by_dx") * ops.eno3_flux_difference(last, "velocity", dim), const(0))
                    return out
                return build, expected
            opts = {} if dim == 2 else {"field_type": ft}
            entry("gen_advection_timestep_euler_forward_conservative_eno3_pyst_kernel_" + _sfx(dim), dim, opts,
                  "field -= dt_by_dx * ENO3 flux difference (Euler forward); flux buffer holds the increment")(mk_step)


def add_timesteps():
    for dim in (2, 3):
        fts = ("scalar",) if dim == 2 else ("scalar", "vector")
        for ft in fts:
            def mk(dim=dim, ft=ft):
                def build(S):
                    g = {} if dim == 2 else dict(field_type=ft)
                    if ft == "scalar":
                        return g, dict(field=S.scalar_field("field", dim), diffusion_flux=S.scalar_field("diffusion_flux", dim), nu_dt_by_dx2=sym("nu_dt_by_dx2")), []
                    return g, dict(vector_field=S.vector_field("vector_field", dim), diffusion_flux=S.scalar_field("diffusion_flux", dim), nu_dt_by_dx2=sym("nu_dt_by_dx2")), []

                def expected():
                    q = sym("nu_dt_by_dx2")
                    names = ["field"] if ft == "scalar" else [comp("vector_field", c) for c in range(dim)]
                    out = {n: IntRing(1, unchanged(n, dim) + q * ops.laplacian_sum(n, dim), unchanged(n, dim)) for n in names}
                    out["diffusion_flux"] = IntRing(1, q * ops.laplacian_sum(names[-1], dim), const(0))
                    return out
                return build, expected
            opts = {} if dim == 2 else {"field_type": ft}
            entry("gen_diffusion_timestep_euler_forward_pyst_kernel_" + _sfx(dim), dim, opts,
                  "field += nu_dt_by_dx2 * Laplacian-sum(field) (Euler forward), ring unchanged")(mk)

    def mk_vse():
        def build(S):
            return {}, dict(vorticity_field=S.vector_field("vorticity_field", 3), velocity_field=S.vector_field("velocity_field", 3),
                            vorticity_stretching_flux_field=S.vector_field("vorticity_stretching_flux_field", 3), dt_by_2_dx=sym("dt_by_2_dx")), []

        def expected():
            q = sym("dt_by_2_dx")
            out = {}
            for c in range(3):
                fl = q * ops.stretching("vorticity_field", comp("velocity_field", c))
                out[comp("vorticity_field", c)] = IntRing(1, unchanged(comp("vorticity_field", c), 3) + fl, unchanged(comp("vorticity_field", c), 3))
                out[comp("vorticity_stretching_flux_field", c)] = IntRing(1, fl, const(0))
            return out
        return build, expected
    entry("gen_vorticity_stretching_timestep_euler_forward_pyst_kernel_3d", 3, {}, "omega += dt_by_2_dx * stretching flux (Euler forward)")(mk_vse)


def add_penalisation():
    lam = sym("penalty_factor")
    for dim in (2, 3):
        for ft in ("scalar", "vector"):
            def mk(dim=dim, ft=ft):
                def build(S):
                    if ft == "scalar":
                        return dict(field_type=ft), dict(penalised_field=S.scalar_field("penalised_field", dim), field=S.scalar_field("field", dim),
                                                         char_field=S.scalar_field("char_field", dim), penalty_field=S.scalar_field("penalty_field", dim),
                                                         penalty_factor=lam), []
                    return dict(field_type=ft), dict(penalised_vector_field=S.vector_field("penalised_vector_field", dim), penalty_factor=lam,
                                                     char_field=S.scalar_field("char_field", dim), penalty_vector_field=S.vector_field("penalty_vector_field", dim),
                                                     vector_field=S.vector_field("vector_field", dim)), []

                def expected():
                    if ft == "scalar":
                        return {"penalised_field": Full(ops.brinkmann("field", "char_field", "penalty_field", lam, dim))}
                    return {comp("penalised_vector_field", c): Full(ops.brinkmann(comp("vector_field", c), "char_field", comp("penalty_vector_field", c), lam, dim))
                            for c in range(dim)}
                return build, expected
            entry("gen_brinkmann_penalise_pyst_kernel_" + _sfx(dim), dim, {"field_type": ft},
                  "out = (f + lambda*chi*target) / (1 + lambda*chi)")(mk)
    for ft in ("scalar", "vector"):
        def mkv(ft=ft):
            def build(S):
                if ft == "scalar":
                    return dict(field_type=ft), dict(penalised_field=S.scalar_field("penalised_field", 2), field=S.scalar_field("field", 2),
                                                     char_field=S.scalar_field("char_field", 2), penalty_factor=lam, penalty_val=sym("t")), []
                return dict(field_type=ft), dict(penalised_vector_field=S.vector_field("penalised_vector_field", 2), penalty_factor=lam,
                                                 char_field=S.scalar_field("char_field", 2), penalty_val=tuple_syms("t", 2),
                                                 vector_field=S.vector_field("vector_field", 2)), []

            def expected():
                if ft == "scalar":
                    return {"penalised_field": Full(ops.brinkmann("field", "char_field", sym("t"), lam, 2))}
                return {comp("penalised_vector_field", c): Full(ops.brinkmann(comp("vector_field", c), "char_field", sym("t%d" % c), lam, 2)) for c in range(2)}
            return build, expected
        entry("gen_brinkmann_penalise_vs_fixed_val_pyst_kernel_2d", 2, {"field_type": ft},
              "out = (f + lambda*chi*value) / (1 + lambda*chi)")(mkv)

    for dim in (2, 3):
        def mkh(dim=dim):
            def build(S):
                return dict(blend_width=sym("blend_width")), dict(char_func_field=S.scalar_field("char_func_field", dim),
                                                                   level_set_field=S.scalar_field("level_set_field", dim)), []

            def expected():
                w = sym("blend_width")
                phi, blend = ops.sine_heaviside("level_set_field", w, dim)
                # strict comparisons: phi > w -> 1 ; phi < -w -> 0 ; else blend
                e = PW.ite(Cond((phi - w).leaf, ">"), const(1), PW.ite(Cond((phi + w).leaf, "<"), const(0), blend))
                return {"char_func_field": Full(e)}
            return build, expected
        entry("gen_char_func_from_level_set_via_sine_heaviside_pyst_kernel_" + _sfx(dim), dim, {},
              "H = 0 below -w, 1 above w, 0.5(1 + phi/w + sin(pi phi/w)/pi) otherwise")(mkh)


def zone_damp_expected(name, dim, w, sizes):
    """A.4: per axis, zone cells take the inner-edge value times sin((pi/2) k / w)"""
    def f(classes, fb):
        if all(c == "mid" for c in classes):
            return unchanged(name, dim)
        offs = []
        factor = const(1)
        for k, c in enumerate(classes):
            idx = sym("@%d" % k)
            n = PW.of(fb.iv[k][1].poly())
            if c == "lo":
                offs.append(("a", Poly.const(w - 1)))
                factor = factor * fn("sin", PW.of(PI) * idx / const(2 * w))
            elif c == "hi":
                offs.append(("a", (fb.iv[k][1] - w).poly()))
                factor = factor * fn("sin", PW.of(PI) * (n - 1 - idx) / const(2 * w))
            else:
                offs.append(0)
        return fld(name, tuple(offs)) * factor
    return f


def add_zone_damping():
    for dim in (2, 3):
        fts = ("scalar",) if dim == 2 else ("scalar", "vector")
        for ft in fts:
            for w in (0, 1, 2, 3, 4, 5, 6):
                def mk(dim=dim, ft=ft, w=w):
                    def build(S):
                        from ..driver import coordinate_fields
                        g = dict(width=w, dx=sym("x_range") / sym("nx"))
                        g.update(coordinate_fields(S, dim))
                        if dim == 3:
                            g["field_type"] = ft
                        if ft == "scalar":
                            return g, dict(field=S.scalar_field("field", dim)), []
                        return g, dict(vector_field=S.vector_field("vector_field", dim)), []

                    def expected():
                        names = ["field"] if ft == "scalar" else [comp("vector_field", c) for c in range(dim)]
                        if w == 0:
                            return {n: Full(unchanged(n, dim)) for n in names}
                        return {n: Zones(w, zone_damp_expected(n, dim, w, None)) for n in names}
                    return build, expected
                opts = {"width": w}
                if dim == 3:
                    opts["field_type"] = ft
                entry("gen_penalise_field_boundary_pyst_kernel_" + _sfx(dim), dim, opts,
                      "zone cells = inner-edge value * sin((pi/2) k/w), k = distance from the boundary; rest untouched")(mk)


def filter_expected(name, order, ftype):
    """A.5 on the deep interior: multiplicative f - (Sx Sy Sz)^n f ; convolution: per axis f <- f - S_a^n f"""
    from ..store import compose
    z = zero(3)
    f0 = at(name, z)
    if ftype == "multiplicative":
        g = f0
        for _ in range(order):
            for a in (X, Y, Z):
                g = compose(ops.filter_1d("_t", a), {"_t": g})
        return f0 - g
    cur = f0
    for a in (X, Y, Z):
        g = cur
        for _ in range(order):
            g = compose(ops.filter_1d("_t", a), {"_t": g})
        cur = cur - g
    return cur


def add_filters():
    for ft in ("scalar", "vector"):
        for ftype in ("multiplicative", "convolution"):
            for order in (1, 2, 3, 4, 5):
                def mk(ft=ft, ftype=ftype, order=order):
                    def build(S):
                        fb = S.scalar_field("filter_flux_buffer", 3)
                        bb = S.scalar_field("field_buffer", 3)
                        g = dict(filter_order=order, filter_flux_buffer=fb, field_buffer=bb, field_type=ft, filter_type=ftype)
                        if ft == "scalar":
                            return g, dict(scalar_field=S.scalar_field("scalar_field", 3)), [fb, bb]
                        return g, dict(vector_field=S.vector_field("vector_field", 3)), [fb, bb]

                    def expected():
                        names = ["scalar_field"] if ft == "scalar" else [comp("vector_field", c) for c in range(3)]
                        return {n: ("deep-interior", filter_expected(n, order, ftype)) for n in names}
                    return build, expected
                entry("gen_laplacian_filter_kernel_3d", 3, {"field_type": ft, "filter_type": ftype, "filter_order": order},
                      "multiplicative: f -= (Sx Sy Sz)^n f ; convolution: for a in x,y,z: f -= S_a^n f")(mk)


add_elementwise()
add_differential()
add_advection()
add_timesteps()
add_penalisation()
add_zone_damping()
add_filters()
