"""The documented step transformers (DESIGN Appendix B), as data: for a configuration, the ordered
list of stages; each stage names the public arrays it rewrites and their documented new contents
in terms of the *current* versions of the public arrays."""
from __future__ import annotations

from fractions import Fraction as Fr

from ..poly import PW, Poly, const, fld, sym
from . import ops
from .kernels import Full, IntRing, Zones, unchanged, zone_damp_expected, filter_expected
from .ops import X, Y, Z, at, comp, zero

DT, NU, RHO = sym("dt"), sym("nu"), sym("rho")
DX = sym("x_range") / sym("nx")


class Stage:
    def __init__(self, what, writes, kind="formula", extra=None):
        self.what, self.writes, self.kind, self.extra = what, writes, kind, extra or {}


def rename(expr, mapping):
    """rename array names (exact component names) in an expression"""
    def f(a):
        if a[0] == "f" and a[1] in mapping:
            return ("f", mapping[a[1]], a[2])
        return a
    return expr.map_atoms(f)


class Env:
    """current version name of every public array component"""

    def __init__(self, names):
        self.cur = {n: n for n in names}
        self.ver = {n: 0 for n in names}

    def bump(self, n):
        self.ver[n] += 1
        self.cur[n] = "%s'%d" % (n, self.ver[n])
        return self.cur[n]

    def r(self, expr):
        return rename(expr, self.cur)


def navier_stokes_2d(cfg):
    names = ["vorticity_field", "stream_func_field"] + [comp(b, c) for b in ("velocity_field", "eul_grid_forcing_field") for c in (X, Y)]
    env = Env(names)
    w = "vorticity_field"
    stages = []
    if cfg["with_forcing"]:
        e = unchanged(w, 2) + DT / (const(2) * DX * RHO) * ops.curl2d_of_vector("eul_grid_forcing_field")
        stages.append(Stage("vorticity += dt/(2 dx rho) * curl(body forcing)", {w: IntRing(1, env.r(e), env.r(unchanged(w, 2)))}))
        env.bump(w)
    e = unchanged(w, 2) - (DT / DX) * ops.eno3_flux_difference(w, "velocity_field", 2)
    stages.append(Stage("conservative ENO3 advection, Euler forward", {w: IntRing(2, env.r(e), env.r(unchanged(w, 2)))}))
    env.bump(w)
    e = unchanged(w, 2) + (NU * DT / (DX * DX)) * ops.laplacian_sum(w, 2)
    stages.append(Stage("explicit diffusion", {w: IntRing(1, env.r(e), env.r(unchanged(w, 2)))}))
    env.bump(w)
    wz = cfg["penalty_zone_width"]
    if wz > 0:
        stages.append(Stage("boundary-zone damping", {w: Zones(wz, zone_damp_expected(env.cur[w], 2, wz, None))}))
        env.bump(w)
    stages.append(Stage("unbounded Poisson solve for the stream function", {"stream_func_field": env.cur[w]}, kind="poisson"))
    psi = env.bump("stream_func_field")
    c2 = ops.curl2d_of_scalar("stream_func_field")
    pre = const(Fr(1, 2)) / DX
    stages.append(Stage("velocity = curl(stream function)/(2 dx), ring 0",
                        {comp("velocity_field", c): IntRing(1, env.r(pre * c2[c]), const(0)) for c in (X, Y)}))
    for c in (X, Y):
        env.bump(comp("velocity_field", c))
    if cfg["with_free_stream_flow"]:
        stages.append(Stage("velocity += free stream", {comp("velocity_field", c): Full(env.r(unchanged(comp("velocity_field", c), 2)) + sym("free_stream[%d]" % c))
                                                          for c in (X, Y)}))
        for c in (X, Y):
            env.bump(comp("velocity_field", c))
    if cfg["with_forcing"]:
        stages.append(Stage("body forcing reset to zero", {comp("eul_grid_forcing_field", c): Full(const(0)) for c in (X, Y)}))
    return stages, env


def navier_stokes_3d(cfg):
    vecs = ("vorticity_field", "velocity_field", "eul_grid_forcing_field", "stream_func_field")
    env = Env([comp(b, c) for b in vecs for c in range(3)])
    W = ["vorticity_field[%d]" % c for c in range(3)]
    stages = []
    if cfg["with_forcing"]:
        c3 = ops.curl3d("eul_grid_forcing_field")
        pre = DT / (const(2) * DX * RHO)
        stages.append(Stage("vorticity += dt/(2 dx rho) * curl(body forcing)",
                            {W[c]: IntRing(1, env.r(unchanged(W[c], 3) + pre * c3[c]), env.r(unchanged(W[c], 3))) for c in range(3)}))
        for n in W:
            env.bump(n)
    # rotational form: omega += dt/(2dx) * curl(u x omega)
    from ..store import compose
    cr = ops.cross("velocity_field", "vorticity_field")
    b = {comp("_b", c): cr[c] for c in range(3)}
    cb = ops.curl3d("_b")
    pre = DT / (const(2) * DX)
    st = {}
    for c in range(3):
        e = unchanged(W[c], 3) + pre * compose(cb[c], b)
        st[W[c]] = IntRing(1, env.r(e), env.r(unchanged(W[c], 3)))
    stages.append(Stage("rotational-form transport: vorticity += dt/(2 dx) * curl(u x omega)", st))
    for n in W:
        env.bump(n)
    st = {}
    for c in range(3):
        e = unchanged(W[c], 3) + (NU * DT / (DX * DX)) * ops.laplacian_sum(W[c], 3)
        st[W[c]] = IntRing(1, env.r(e), env.r(unchanged(W[c], 3)))
    stages.append(Stage("explicit diffusion (per component)", st))
    for n in W:
        env.bump(n)
    if cfg.get("filter") is not None:
        ftype, order = cfg["filter"]
        stages.append(Stage("Laplacian filter %s order %d" % (ftype, order),
                            {W[c]: ("deep-interior", env.r(filter_expected(W[c], order, ftype))) for c in range(3)}))
        for n in W:
            env.bump(n)
    wz = cfg["penalty_zone_width"]
    if wz > 0:
        stages.append(Stage("boundary-zone damping (per component)", {W[c]: Zones(wz, zone_damp_expected(env.cur[W[c]], 3, wz, None)) for c in range(3)}))
        for n in W:
            env.bump(n)
    stages.append(Stage("Poisson solve per component (%s)" % cfg["poisson_solver_type"],
                        {comp("stream_func_field", c): env.cur[W[c]] for c in range(3)}, kind="poisson",
                        extra={"solver": cfg["poisson_solver_type"]}))
    for c in range(3):
        env.bump(comp("stream_func_field", c))
    c3 = ops.curl3d("stream_func_field")
    pre = const(Fr(1, 2)) / DX
    stages.append(Stage("velocity = curl(stream function)/(2 dx), ring 0",
                        {comp("velocity_field", c): IntRing(1, env.r(pre * c3[c]), const(0)) for c in range(3)}))
    for c in range(3):
        env.bump(comp("velocity_field", c))
    if cfg["with_free_stream_flow"]:
        stages.append(Stage("velocity += free stream", {comp("velocity_field", c): Full(env.r(unchanged(comp("velocity_field", c), 3)) + sym("free_stream[%d]" % c))
                                                          for c in range(3)}))
        for c in range(3):
            env.bump(comp("velocity_field", c))
    if cfg["with_forcing"]:
        stages.append(Stage("body forcing reset to zero", {comp("eul_grid_forcing_field", c): Full(const(0)) for c in range(3)}))
    return stages, env


def passive_transport(cfg):
    dim = cfg["grid_dim"]
    prim = ["primary_field"] if cfg["field_type"] == "scalar" else [comp("primary_field", c) for c in range(dim)]
    env = Env(prim + [comp("velocity_field", c) for c in range(dim)])
    stages = []
    st = {}
    for n in prim:
        e = unchanged(n, dim) - (DT / DX) * ops.eno3_flux_difference(n, "velocity_field", dim)
        st[n] = IntRing(2, env.r(e), env.r(unchanged(n, dim)))
    stages.append(Stage("conservative ENO3 advection, Euler forward", st))
    for n in prim:
        env.bump(n)
    st = {}
    for n in prim:
        e = unchanged(n, dim) + (NU * DT / (DX * DX)) * ops.laplacian_sum(n, dim)
        st[n] = IntRing(1, env.r(e), env.r(unchanged(n, dim)))
    stages.append(Stage("explicit diffusion", st))
    return stages, env


def documented(cfg):
    if cfg["kind"] == "2d":
        return navier_stokes_2d(cfg)
    if cfg["kind"] == "3d":
        return navier_stokes_3d(cfg)
    return passive_transport(cfg)
