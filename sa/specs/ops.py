"""The documented operators, written independently of the code (DESIGN Appendix A).

Arrays are indexed (z, y, x) in 3D and (y, x) in 2D: the x direction is the LAST array axis.
Vector arrays carry the component first with x = 0, y = 1, z = 2.
A scalar grid array `f` is referred to by name; component c of vector array `F` is "F[c]".
"""
from __future__ import annotations

from fractions import Fraction as Fr

from ..poly import PW, Cond, Poly, const, fld, fn, sym, PI

X, Y, Z = 0, 1, 2
AXES = {2: (X, Y), 3: (X, Y, Z)}
AXIS_NAME = {X: "x", Y: "y", Z: "z"}


def unit(axis, dim, k=1):
    """offset tuple of k cells along coordinate axis (x = last array axis)"""
    o = [0] * dim
    o[dim - 1 - axis] = k
    return tuple(o)


def zero(dim):
    return (0,) * dim


def comp(name, c):
    return "%s[%d]" % (name, c)


def at(name, off):
    return fld(name, off)


def delta(name, axis, dim):
    """g@(+e_axis) - g@(-e_axis)"""
    return at(name, unit(axis, dim, 1)) - at(name, unit(axis, dim, -1))


def laplacian_sum(name, dim):
    """sum of the 2*dim neighbours minus 2*dim times the centre"""
    e = const(0)
    for a in AXES[dim]:
        e = e + at(name, unit(a, dim, 1)) + at(name, unit(a, dim, -1))
    return e - const(2 * dim) * at(name, zero(dim))


def curl2d_of_vector(F):
    """(curl F)_z * 2h = d_x F_y - d_y F_x"""
    return delta(comp(F, Y), X, 2) - delta(comp(F, X), Y, 2)


def curl2d_of_scalar(psi):
    """2h * (d_y psi, -d_x psi)"""
    return {X: delta(psi, Y, 2), Y: -delta(psi, X, 2)}


def curl3d(F):
    """2h * curl F, component a = d_b F_c - d_c F_b for (a, b, c) cyclic"""
    out = {}
    for a in (X, Y, Z):
        b, c = (a + 1) % 3, (a + 2) % 3
        out[a] = delta(comp(F, c), b, 3) - delta(comp(F, b), c, 3)
    return out


def div3d(F):
    """2h * div F"""
    e = const(0)
    for a in (X, Y, Z):
        e = e + delta(comp(F, a), a, 3)
    return e


def cross(A, B):
    out = {}
    for a in (X, Y, Z):
        b, c = (a + 1) % 3, (a + 2) % 3
        z3 = zero(3)
        out[a] = at(comp(A, b), z3) * at(comp(B, c), z3) - at(comp(B, b), z3) * at(comp(A, c), z3)
    return out


# ---- conservative ENO3 (Shu 1997): face flux of the nodal flux g = field * velocity_axis
def eno3_face(field, vel, axis, dim, side):
    """numerical flux through the face i+1/2 (side=+1) or i-1/2 (side=-1) along `axis`"""
    def g(k):
        o = unit(axis, dim, k)
        return at(field, o) * at(vel, o)
    s = 0 if side > 0 else -1     # the back face of cell i is the front face of cell i-1
    upwind_cond = at(vel, unit(axis, dim, s)) + at(vel, unit(axis, dim, s + 1))
    left = const(Fr(1, 3)) * g(s + 1) + const(Fr(5, 6)) * g(s) - const(Fr(1, 6)) * g(s - 1)
    right = const(Fr(1, 3)) * g(s) + const(Fr(5, 6)) * g(s + 1) - const(Fr(1, 6)) * g(s + 2)
    return PW.ite(Cond(upwind_cond.leaf, ">"), left, right)


def eno3_flux_difference(field, vel_vec, dim):
    """sum over axes of (F_front - F_back)"""
    e = const(0)
    for a in AXES[dim]:
        v = comp(vel_vec, a)
        e = e + eno3_face(field, v, a, dim, +1) - eno3_face(field, v, a, dim, -1)
    return e


def filter_1d(name, axis, dim=3):
    """(1/4) (2 f - f@+e - f@-e)"""
    return const(Fr(1, 4)) * (const(2) * at(name, zero(dim)) - at(name, unit(axis, dim, 1)) - at(name, unit(axis, dim, -1)))


def stretching(omega, u_c, dim=3):
    """sum_a omega_a@0 * delta_a u_c"""
    e = const(0)
    for a in (X, Y, Z):
        e = e + at(comp(omega, a), zero(3)) * delta(u_c, a, 3)
    return e


def brinkmann(field, chi, target, lam, dim):
    z = zero(dim)
    t = at(target, z) if isinstance(target, str) else target
    w = lam * at(chi, z)
    return (at(field, z) + w * t) / (const(1) + w)


def sine_heaviside(phi, width, dim):
    """0 below -w, 1 above w, 0.5 (1 + phi/w + sin(pi phi / w)/pi) between (strict comparisons)"""
    z = zero(dim)
    p = at(phi, z)
    blend = const(Fr(1, 2)) * (const(1) + p / width + fn("sin", PW.of(PI) * p / width) / PW.of(PI))
    return p, blend
