"""Entry points of the analysis: build an interpreter session on /repo, instantiate
generators / simulators / solvers with symbolic parameters, and run their traces through
the symbolic store."""
from __future__ import annotations

import os

from . import extlib
from .absint import Interp
from .poly import PW, sym as psym, const as pconst
from .store import Store, ViewInfo, comp_rank
from .values import (Alloc, Arr, Bound, DType, Func, Inst, Kernel, Njit, Op, RaisedInAnalysed,
                     Unsupported, simplify_scalar, to_pw)

REPO = os.environ.get("SOPHT_REPO", "/repo")

SIZE_SYMS = {2: ("ny", "nx"), 3: ("nz", "ny", "nx")}
extlib.ExtLib.INT_SYMBOLS |= {"nx", "ny", "nz", "N", "n_elems", "num_lag_nodes"}

SPNE = "sopht.numeric.eulerian_grid_ops"


class Session:
    def __init__(self, repo=None, real_t="float32"):
        self.repo = repo or REPO
        self.I = Interp(self.repo)
        self.real_t = DType(real_t)
        self.I.ext.working_precision = self.real_t
        self._spne = None

    # ---------------------------------------------------------------- modules
    @property
    def spne(self):
        if self._spne is None:
            self._spne = self.I.load_module(SPNE)
        return self._spne

    def module(self, name):
        return self.I.load_module(name)

    def lookup(self, modname, name):
        m = self.I.load_module(modname)
        if name not in m.vars:
            raise Unsupported("anchor vanished: %s.%s" % (modname, name))
        return m.vars[name]

    # ---------------------------------------------------------------- values
    def grid_shape(self, dim):
        return tuple(psym(s) for s in SIZE_SYMS[dim])

    def array(self, label, shape, dtype=None, role="param"):
        al = self.I.ext.new_alloc(label, tuple(shape), dtype or self.real_t, "param")
        al.role = role
        return Arr(al)

    def scalar_field(self, label, dim, dtype=None):
        return self.array(label, self.grid_shape(dim), dtype)

    def vector_field(self, label, dim, dtype=None):
        return self.array(label, (dim,) + self.grid_shape(dim), dtype)

    def complex_field(self, label, dim):
        return self.array(label, self.grid_shape(dim), DType("complex64" if self.real_t.name == "float32" else "complex128"))

    # ---------------------------------------------------------------- calling
    def call(self, fn, *args, **kwargs):
        ms = self.spne
        n0 = len(self.I.trace)
        p0 = len(self.I.problems)
        ret = self.I.call(fn, list(args), kwargs, None, ms)
        return ret, self.I.trace[n0:], self.I.problems[p0:]

    def gen(self, name, **kw):
        fn = self.spne.vars.get(name)
        if fn is None:
            raise Unsupported("anchor vanished: generator %s" % name)
        ret, tr, pr = self.call(fn, **kw)
        return ret

    def trace_call(self, fn, **kwargs):
        """call a (closure / kernel / bound method) and return (trace, problems, raised)"""
        n0 = len(self.I.trace)
        p0 = len(self.I.problems)
        raised = None
        try:
            self.I.call(fn, [], kwargs, None, self.spne)
        except RaisedInAnalysed as ex:
            raised = ex
        return self.I.trace[n0:], self.I.problems[p0:], raised


def written_allocs(trace):
    """ids of allocations some op of the trace writes"""
    from .numba_fx import numba_effects
    out = set()
    for op in trace:
        if op.kind == "Launch":
            for a in op.kernel.stencil.assigns:
                if a.field in op.arrays:
                    out.add(op.arrays[a.field].alloc.id)
        elif op.kind == "SliceAssign":
            out.add(op.dst.alloc.id)
        elif op.kind == "ElemAssign":
            out.add(op.arr.alloc.id)
        elif op.kind == "FFT":
            out.add(op.out.alloc.id)
            if op.direction == "FFTW_BACKWARD":
                out.add(op.inp.alloc.id)
        elif op.kind == "NumpyOp" and op.out is not None and op.meta.get("out_kw"):
            out.add(op.out.alloc.id)
        elif op.kind == "NumbaCall":
            eff = numba_effects(op.fn)
            for p in eff["writes"]:
                v = op.args.get(p)
                if isinstance(v, Arr):
                    out.add(v.alloc.id)
    return out


def written_views(trace):
    """the array views (Arr) some op of the trace writes, in program order"""
    from .numba_fx import numba_effects
    out = []
    for op in trace:
        if op.kind == "Launch":
            for a in op.kernel.stencil.assigns:
                if a.field in op.arrays:
                    out.append(op.arrays[a.field])
        elif op.kind == "SliceAssign":
            out.append(op.dst)
        elif op.kind == "ElemAssign":
            out.append(op.arr)
        elif op.kind == "FFT":
            out.append(op.out)
        elif op.kind == "NumpyOp" and op.out is not None and op.meta.get("out_kw"):
            out.append(op.out)
        elif op.kind == "NumbaCall":
            eff = numba_effects(op.fn)
            for p in eff["writes"]:
                v = op.args.get(p)
                if isinstance(v, Arr):
                    out.append(v)
    return out


def component_written(views, alloc_id, comp):
    """does any written view of allocation alloc_id touch component index tuple comp (leading axes)?"""
    from .poly import const as _c
    for v in views:
        if v.alloc.id != alloc_id:
            continue
        hit = True
        for k, c in enumerate(comp):
            ax = v.axes[k]
            if ax[0] == "i":
                if not (ax[1] == _c(c)):
                    hit = False
                    break
            else:
                # a range over the component axis: covers c when lo <= c < hi (constants)
                try:
                    lo, hi = int(simplify(ax[1])), int(simplify(ax[2]))
                except Exception:  # noqa: BLE001
                    continue
                if not (lo <= c < hi):
                    hit = False
                    break
        if hit:
            return True
    return False


def skipped_components(trace):
    """call frames that are handed a whole vector field (component axis in full) and write some of its components through
    kernel launches / stores but not all of them.  Returns [(function qualname, parameter, written, missing)]"""
    from .store import comp_rank
    out = []
    stack = []          # (CallBegin op, index in trace)
    for i, op in enumerate(trace):
        if op.kind == "CallBegin":
            stack.append((op, i))
        elif op.kind == "CallEnd" and stack:
            beg, i0 = stack.pop()
            vecs = {}
            for pname, v in (beg.args or {}).items():
                if isinstance(v, Arr) and v.alloc.shape is not None and comp_rank(v.alloc) == 1 and v.axes and v.axes[0][0] == "r":
                    try:
                        lo, hi = int(simplify(v.axes[0][1])), int(simplify(v.axes[0][2]))
                    except Exception:  # noqa: BLE001
                        continue
                    if hi - lo >= 2:
                        vecs[pname] = (v, lo, hi)
            if not vecs:
                continue
            views = written_views(trace[i0:i + 1])
            for pname, (v, lo, hi) in vecs.items():
                if not any(w.alloc.id == v.alloc.id for w in views):
                    continue
                wr = [c for c in range(lo, hi) if component_written(views, v.alloc.id, (c,))]
                miss = [c for c in range(lo, hi) if c not in wr]
                if wr and miss:
                    out.append((beg.fn.qualname, pname, wr, miss))
    return out


def simplify(v):
    from .values import simplify_scalar
    return simplify_scalar(v)


def read_allocs(trace):
    out = set()
    for op in trace:
        if op.kind == "Launch":
            for f, _ in op.kernel.stencil.accesses():
                if f in op.arrays:
                    out.add(op.arrays[f].alloc.id)
        elif op.kind == "SliceAssign" and isinstance(op.src, Arr):
            out.add(op.src.alloc.id)
        elif op.kind == "FFT":
            out.add(op.inp.alloc.id)
        elif op.kind == "NumpyOp":
            for r in op.reads:
                out.add(r.alloc.id)
    return out


def run_store(trace, stage_funcs=(), public=None, havoc=None):
    """execute a trace symbolically.  stage_funcs: qualnames (suffix match) of the functions whose
    direct callee boundaries are checkpoints for the `public` allocations."""
    if havoc is None:
        havoc = written_allocs(trace)
    st = Store(havoc=havoc)
    stack = []
    public = public or {}
    stages = []
    for op in trace:
        if op.kind == "CallBegin":
            stack.append(op.fn.qualname)
            continue
        if op.kind == "CallEnd":
            name = stack.pop() if stack else "?"
            if stack and any(stack[-1].endswith(s) for s in stage_funcs):
                keys = []
                for (aid, comp, part), (al, _, _) in list(st.meta.items()):
                    if aid in public:
                        keys.append((aid, comp, part))
                new = st.checkpoint(keys, tag=name)
                if new:
                    stages.append((name, new))
            continue
        st.step(op)
    st.stages = stages
    return st


def launches(trace):
    return [op for op in trace if op.kind == "Launch"]


def coordinate_fields(S, dim):
    """cell-centre coordinate fields as documented: x_a = dx/2 + i_a*dx, varying only along
    the array axis of direction a (x = last axis)"""
    dx = psym("x_range") / psym("nx")
    shape = S.grid_shape(dim)
    out = {}
    for a, nm in zip(range(dim), ("x", "y", "z")):
        axis = dim - 1 - a
        al = S.I.ext.new_alloc("%s_grid_field" % nm, shape, S.real_t, "param")

        def valfn(idx, axis=axis, dx=dx):
            return dx / 2 + to_pw(idx[axis]) * dx
        al.valfn = valfn
        out["%s_grid_field" % nm] = Arr(al)
    return out
