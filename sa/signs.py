"""Sign analysis of polynomials / rational functions (DESIGN 2.1, C16, C19).

Rule: a polynomial whose monomials are all products of atoms of known sign, with all
coefficients of one sign, has that sign.  Symbols are positive unless declared otherwise.
"""
from __future__ import annotations

from .poly import Poly, Rat, fn_arg, as_rat, as_poly

# symbol name -> '+', '0+', '?'
DEFAULT_POSITIVE = True


def atom_sign(a, assume=None):
    assume = assume or {}
    if a in assume:
        return assume[a]
    if a[0] == "s":
        if a[1] in assume:
            return assume[a[1]]
        return "+"
    if a[0] == "fn":
        if a[1] in ("sqrt", "abs", "fabs"):
            s = sign_of_rat(fn_arg(a), assume)
            if a[1] == "sqrt":
                return "+" if s == "+" else "0+"
            return "+" if s in ("+", "-") else "0+"
        if a[1] == "exp":
            return "+"
        return "?"
    return "?"


def mono_sign(m, assume=None):
    """sign class of a monomial (without coefficient): '+', '0+', or '?'"""
    s = "+"
    for a, e in m:
        sa = atom_sign(a, assume)
        if sa == "+":
            continue
        if sa == "0+":
            s = "0+" if s != "?" else s
            continue
        if sa == "-":
            if e % 2 == 0:
                continue
            return "-?"  # handled by caller
        if sa == "0-":
            if e % 2 == 0:
                s = "0+" if s != "?" else s
                continue
            return "0-?"
        # unknown sign
        if e % 2 == 0:
            s = "0+"
            continue
        return "?"
    return s


def sign_of_poly(p, assume=None):
    """'+', '-', '0+', '0-', '0' or None (unknown)"""
    p = as_poly(p)
    if p.is_zero():
        return "0"
    pos = neg = False
    strict = False
    for m, c in p.t.items():
        ms = mono_sign(m, assume)
        sgn = 1 if c > 0 else -1
        if ms in ("-?", "0-?"):
            sgn = -sgn
            ms = "+" if ms == "-?" else "0+"
        if ms == "?":
            return None
        if sgn > 0:
            pos = True
        else:
            neg = True
        if ms == "+":
            strict = True
    if pos and neg:
        return None
    if pos:
        return "+" if strict else "0+"
    return "-" if strict else "0-"


def sign_of_rat(r, assume=None):
    r = as_rat(r)
    sn = sign_of_poly(r.num, assume)
    sd = sign_of_poly(r.den, assume)
    if sn is None or sd is None:
        return None
    if sn == "0":
        return "0"
    if sd not in ("+", "-"):
        return None
    flip = sd == "-"
    table = {"+": "-", "-": "+", "0+": "0-", "0-": "0+"}
    return table[sn] if flip else sn
