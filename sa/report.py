"""Obligation bookkeeping, known-findings handling, evidence and replay files (DESIGN 4.7, 8)."""
from __future__ import annotations

import hashlib
import json
import os
import re
import sys
import time

VERIF = os.path.dirname(os.path.dirname(os.path.abspath(__file__)))
KNOWN = os.path.join(VERIF, "known_findings.txt")


class Report:
    def __init__(self, pid, level, tier="quick", seed=0):
        self.pid, self.level, self.tier, self.seed = pid, level, tier, seed
        self.obligations = []   # dicts
        self.analysed = {}      # free-form: units, functions, call sites ...
        self.assumptions = []
        self.samples = []
        self.t0 = time.time()
        self.rule_text = ""
        self.explanation = ""
        self.min_counts = {}    # rule -> minimal number of instances (frozen inventory)
        self.trusted_base = []
        self.write_files = True

    # ---------------------------------------------------------------- obligations
    def ob(self, rule, instance, ok, detail="", key=None, nontrivial=True, sample=None):
        """record one decided obligation.  key identifies a finding (rule|construct|normal form)."""
        d = {"rule": rule, "instance": str(instance), "ok": bool(ok), "detail": str(detail)[:2000],
             "nontrivial": bool(nontrivial)}
        if not ok:
            d["key"] = key or "%s|%s" % (rule, instance)
        self.obligations.append(d)
        if sample is not None and len(self.samples) < 12:
            self.samples.append(sample)
        return ok

    def note(self, k, v):
        self.analysed[k] = v

    def count(self, rule):
        return sum(1 for o in self.obligations if o["rule"] == rule)

    def require_min(self, rule, n):
        self.min_counts[rule] = n

    # ---------------------------------------------------------------- finish
    def finish(self):
        """write evidence, print verdict lines, return exit code"""
        known = load_known()
        # inventory check: a rule that matched fewer sites than confirmed by hand is an analysis error
        short = [(r, n, self.count(r)) for r, n in self.min_counts.items() if self.count(r) < n]
        failing = [o for o in self.obligations if not o["ok"]]
        if short and not failing:
            # (a rule that stops early at a violation legitimately evaluates fewer instances: violations are reported first)
            for r, n, c in short:
                print("ANALYSIS-ERROR: property=%s rule %s evaluated %d instances, frozen inventory requires >= %d" % (self.pid, r, c, n))
            return 2
        viol, kf = [], []
        for o in failing:
            k = o["key"]
            if ("finding", self.pid, k) in known:
                kf.append(o)
            else:
                viol.append(o)
        os.makedirs(os.path.join(VERIF, "evidence"), exist_ok=True)
        os.makedirs(os.path.join(VERIF, "replays"), exist_ok=True)
        for o in kf:
            print("KNOWN-FINDING: property=%s %s :: %s" % (self.pid, o["key"], o["detail"][:300]))
        for o in viol:
            h = hashlib.sha1(o["key"].encode()).hexdigest()[:12]
            path = os.path.join(VERIF, "replays", "%s-%s.json" % (self.pid, h))
            if self.write_files:
                with open(path, "w") as fh:
                    json.dump({"property": self.pid, "obligation": o}, fh, indent=1)
            print("VIOLATION property=%s replay=%s" % (self.pid, path))
            print("  rule=%s instance=%s" % (o["rule"], o["instance"]))
            print("  %s" % o["detail"][:1500])
            print("  key=%s" % o["key"])
        n = len(self.obligations)
        nontriv = len({(o["rule"], o["instance"]) for o in self.obligations if o["nontrivial"]})
        discharged = sum(1 for o in self.obligations if o["ok"])
        by_rule = {}
        for o in self.obligations:
            by_rule.setdefault(o["rule"], [0, 0])
            by_rule[o["rule"]][0] += 1
            by_rule[o["rule"]][1] += 1 if o["ok"] else 0
        cov = {
            "evaluations": max(n, 1),
            "distinct_nontrivial": nontriv,
            "rule": self.rule_text,
            "samples": self.samples[:12] or [o["instance"] for o in self.obligations[:5]],
            "obligations": max(n, 1),
            "discharged": discharged,
            "checker_cmd": "python3 -m sa.check %s --tier %s" % (self.pid, self.tier),
            "trusted_base": self.trusted_base or self.assumptions,
            "explanation": self.explanation,
            "exhaustive": True,
            "per_rule": {r: {"instances": v[0], "held": v[1]} for r, v in sorted(by_rule.items())},
            "analysed": self.analysed,
            "known_findings_reported": [o["key"] for o in kf],
        }
        ev = {
            "property_id": self.pid, "tier": self.tier, "seed": int(self.seed), "level": self.level,
            "coverage": cov, "assumptions": self.assumptions, "wall_s": round(time.time() - self.t0, 3),
            "violations": len(viol),
        }
        if self.write_files:
            with open(os.path.join(VERIF, "evidence", "%s.json" % self.pid), "w") as fh:
                json.dump(ev, fh, indent=1, default=str)
        print("%s: %d obligations over %d rules, %d held, %d known findings, %d violations (%.2fs)" % (
            self.pid, n, len(by_rule), discharged, len(kf), len(viol), time.time() - self.t0))
        return 1 if viol else 0


def load_known():
    out = set()
    if not os.path.exists(KNOWN):
        return out
    for line in open(KNOWN):
        line = line.strip()
        if not line or line.startswith("#"):
            continue
        m = re.match(r"^(finding|fixed):\s*property=(C\d+)\s+(.*)$", line)
        if not m:
            continue
        kind, pid, rest = m.groups()
        if kind == "finding":
            key = rest.split(" :: ")[0].strip()
            out.add(("finding", pid, key))
    return out
