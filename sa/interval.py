"""Signs of univariate polynomials (degree <= 2) on closed intervals, and resolution of abs() atoms with it."""
from __future__ import annotations

from fractions import Fraction as Fr

from .poly import PW, Poly, Rat, as_poly, as_rat, fn_arg, mk_fn


def univariate(p, var):
    """coefficients [c0, c1, c2] if p is a polynomial in `var` only with rational coefficients, else None"""
    p = as_poly(p)
    cs = [Fr(0), Fr(0), Fr(0)]
    for m, c in p.t.items():
        if m == ():
            cs[0] += c
        elif len(m) == 1 and m[0][0] == var and m[0][1] in (1, 2):
            cs[m[0][1]] += c
        else:
            return None
    return cs


def sign_on_interval(p, var, lo, hi):
    """'+', '-', '0+' (>=0), '0-' (<=0), '0' or None (changes sign / unknown) on [lo, hi]"""
    cs = univariate(p, var)
    if cs is None:
        return None
    f = lambda x: cs[0] + cs[1] * x + cs[2] * x * x
    pts = [Fr(lo), Fr(hi)]
    if cs[2] != 0:
        v = -cs[1] / (2 * cs[2])
        if lo < v < hi:
            pts.append(v)
    vals = [f(x) for x in pts]
    if all(v == 0 for v in vals):
        if cs == [0, 0, 0]:
            return "0"
    mn, mx = min(vals), max(vals)
    # extrema of a quadratic on an interval are attained at the endpoints or the vertex
    if mn > 0:
        return "+"
    if mx < 0:
        return "-"
    if mn >= 0:
        return "0+"
    if mx <= 0:
        return "0-"
    return None


def resolve_abs(e, var, lo, hi):
    """replace abs(q(var)) by +-q when q keeps one sign on [lo, hi]; repeat until stable"""
    e = PW.of(e)
    for _ in range(8):
        sub = {}
        for a in e.all_atoms():
            if a[0] == "fn" and a[1] == "abs":
                arg = fn_arg(a)
                if not arg.is_poly():
                    continue
                s = sign_on_interval(as_poly(arg), var, lo, hi)
                if s in ("+", "0+", "0"):
                    sub[a] = as_poly(arg)
                elif s in ("-", "0-"):
                    sub[a] = -as_poly(arg)
        if not sub:
            return e
        e = e.subs(sub)
    return e
