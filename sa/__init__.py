"""Static analysis engine for SophT properties C01-C20 (see /verif/DESIGN.md)."""
