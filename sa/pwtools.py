"""Semantic comparison of piecewise expressions.

Two piecewise trees denote the same function iff they agree on every *feasible* sign pattern of
their conditions.  Feasibility is decided exactly for the two shapes SophT uses:
  * conditions that are pairwise independent (different atoms: the ENO3 upwind switches) ->
    every pattern is feasible; trees are compared after Shannon expansion in a fixed order;
  * conditions affine in ONE atom with thresholds ordered by sign analysis (the sine
    Heaviside: phi against -w, 0, w) -> the real line is cut into points and open intervals.
"""
from __future__ import annotations

from .poly import PW, Cond, Poly, Rat, as_poly, as_rat, fn_arg, mk_fn, const
from .signs import sign_of_poly


def expand_abs(e):
    """rewrite abs(p) as (p if p >= 0 else -p)"""
    e = PW.of(e)
    targets = [a for a in e.all_atoms() if a[0] == "fn" and a[1] == "abs"]
    if not targets:
        return e
    sub = {}
    for a in targets:
        arg = fn_arg(a)
        if not arg.is_poly():
            return e
        sub[a] = PW.ite(Cond(arg, ">="), PW.of(arg), PW.of(-arg))
    return _subs_everywhere(e, sub)


def _subs_everywhere(e, sub):
    """substitute piecewise values for atoms, also inside conditions (condition on a piecewise
    value is split into the branches)"""
    if e.is_leaf():
        return e._subs_pw(sub)
    ca = [a for a in e.cond.p.all_atoms() if a in sub]
    a = _subs_everywhere(e.a, sub)
    b = _subs_everywhere(e.b, sub)
    if not ca:
        return PW.ite(e.cond, a, b)
    p = PW.of(e.cond.p)._subs_pw({k: sub[k] for k in ca})

    def build(tree):
        if tree.is_leaf():
            return PW.ite(Cond(tree.leaf, e.cond.op), a, b)
        return PW.ite(tree.cond, build(tree.a), build(tree.b))
    return build(p)


def restrict(e, cond, value):
    """e under the assumption that cond has the given truth value"""
    if e.is_leaf():
        return e
    if e.cond.p == cond.p:
        # same polynomial: relate operators
        t = _implied(cond, value, e.cond)
        if t is not None:
            return restrict(e.a if t else e.b, cond, value)
    return PW.ite(e.cond, restrict(e.a, cond, value), restrict(e.b, cond, value))


def _implied(c, v, other):
    """truth of `other` given that c has truth v (same polynomial p); None if not determined"""
    # the set of signs of p allowed by (c, v)
    def allowed(op, val):
        s = {">": {"+"}, ">=": {"+", "0"}, "<": {"-"}, "<=": {"-", "0"}}[op]
        return s if val else {"+", "0", "-"} - s
    have = allowed(c.op, v)
    want_true = allowed(other.op, True)
    if have <= want_true:
        return True
    if not (have & want_true):
        return False
    return None


def canon(e):
    """Shannon expansion over the conditions in a fixed (key) order"""
    e = PW.of(e)
    conds = sorted(e.conds(), key=lambda c: repr(c.key()))
    polys = []
    for c in conds:
        if not any(c.p == q.p for q in polys):
            polys.append(c)

    def rec(x, i):
        if x.is_leaf() or i >= len(polys):
            return x
        c = polys[i]
        if not any(cc.p == c.p for cc in x.conds()):
            return rec(x, i + 1)
        base = Cond(c.p, ">")
        # three-way on the sign of p when both strict and non-strict forms occur
        ops = {cc.op for cc in x.conds() if cc.p == c.p}
        if ops <= {">", "<="}:
            return PW.ite(base, rec(restrict(x, base, True), i + 1), rec(restrict(x, base, False), i + 1))
        ge = Cond(c.p, ">=")
        if ops <= {">=", "<"}:
            return PW.ite(ge, rec(restrict(x, ge, True), i + 1), rec(restrict(x, ge, False), i + 1))
        pos = rec(restrict(x, base, True), i + 1)
        notpos = restrict(x, base, False)
        zero = rec(restrict(notpos, ge, True), i + 1)
        neg = rec(restrict(notpos, ge, False), i + 1)
        return PW.ite(base, pos, PW.ite(ge, zero, neg))
    return rec(e, 0)


def _tree_eq(a, b):
    if a.is_leaf() and b.is_leaf():
        return a.leaf == b.leaf
    if a.is_leaf() != b.is_leaf():
        return False
    return a.cond == b.cond and _tree_eq(a.a, b.a) and _tree_eq(a.b, b.b)


def single_var(conds):
    """if every condition is  s*v + t (op) 0  for one common atom v (s = +-1 after scaling, t free
    of v) return (v, [thresholds -t/s]) else None"""
    var = None
    ths = []
    for c in conds:
        p = c.p
        cands = [a for a in p.atoms() if a[0] == "f"]
        if len(cands) != 1:
            return None
        v = cands[0]
        if var is None:
            var = v
        elif var != v:
            return None
        if p.degree_in(v) != 1:
            return None
        s = p.coeff(v, 1)
        t = p.coeff(v, 0)
        if not s.is_const():
            return None
        th = Rat(-t, s)
        if v in th.all_atoms():
            return None
        ths.append(th)
    return var, ths


def order_thresholds(ths, assume=None):
    """sort distinct thresholds by sign analysis of their differences; None if undecided"""
    uniq = []
    for t in ths:
        if not any(t == u for u in uniq):
            uniq.append(t)
    import functools

    def cmpf(a, b):
        from .signs import sign_of_rat
        s = sign_of_rat(a - b, assume)
        if s == "+":
            return 1
        if s == "-":
            return -1
        raise ValueError("thresholds %r and %r are not ordered" % (a, b))
    try:
        return sorted(uniq, key=functools.cmp_to_key(cmpf))
    except ValueError:
        return None


def regions_1d(ths):
    """[('lt', t0), ('eq', t0), ('between', t0, t1), ('eq', t1), ..., ('gt', t_last)]"""
    out = [("lt", ths[0])]
    for i, t in enumerate(ths):
        out.append(("eq", t))
        if i + 1 < len(ths):
            out.append(("between", t, ths[i + 1]))
    out.append(("gt", ths[-1]))
    return out


def decide_in_region(c, var, region, ths):
    """truth of condition c (affine in var) on a region of the ordered thresholds"""
    p = c.p
    s = p.coeff(var, 1).const_value()
    th = Rat(-p.coeff(var, 0), p.coeff(var, 1))
    k = next(i for i, t in enumerate(ths) if t == th)
    # sign of (var - th) on the region
    kind = region[0]
    if kind == "lt":
        sg = "-" if True else None           # var < ths[0] <= th
        sg = "-"
    elif kind == "gt":
        sg = "+"
    elif kind == "eq":
        j = next(i for i, t in enumerate(ths) if t == region[1])
        sg = "0" if j == k else ("-" if j < k else "+")
    else:
        j = next(i for i, t in enumerate(ths) if t == region[1])   # between ths[j], ths[j+1]
        sg = "-" if j < k else "+"
    # sign of p = s*(var - th)
    if s < 0:
        sg = {"+": "-", "-": "+", "0": "0"}[sg]
    return {">": sg == "+", ">=": sg in ("+", "0"), "<": sg == "-", "<=": sg in ("-", "0")}[c.op]


def eval_in_region(e, var, region, ths):
    while not e.is_leaf():
        e = e.a if decide_in_region(e.cond, var, region, ths) else e.b
    return e.leaf


def pw_equal(a, b, assume=None):
    a, b = PW.of(a), PW.of(b)
    if a.struct_eq(b):
        return True
    if a.is_leaf() and b.is_leaf():
        return a.leaf == b.leaf
    a2, b2 = expand_abs(a), expand_abs(b)
    conds = a2.conds() | b2.conds()
    sv = single_var(conds)
    if sv is not None:
        var, ths = sv
        ths = order_thresholds(ths, assume)
        if ths is not None:
            for reg in regions_1d(ths):
                la, lb = eval_in_region(a2, var, reg, ths), eval_in_region(b2, var, reg, ths)
                if reg[0] == "eq":
                    la, lb = la.subs({var: reg[1]}), lb.subs({var: reg[1]})
                if not (la == lb):
                    return False
            return True
    return _tree_eq(canon(a2), canon(b2))


def pieces_1d(e, assume=None):
    """for a single-variable piecewise e: list of (region, leaf) over the ordered thresholds"""
    e = expand_abs(PW.of(e))
    sv = single_var(e.conds())
    if sv is None:
        return None
    var, ths = sv
    ths = order_thresholds(ths, assume)
    if ths is None:
        return None
    return var, ths, [(reg, eval_in_region(e, var, reg, ths)) for reg in regions_1d(ths)]


def drop_ties(e):
    """identify p >= 0 with p > 0 (equality modulo the tie set p == 0)"""
    e = PW.of(e)
    if e.is_leaf():
        return e
    c = e.cond
    if c.op == ">=":
        c = Cond(c.p, ">")
    elif c.op == "<":
        c = Cond(c.p, "<=")
    return PW.ite(c, drop_ties(e.a), drop_ties(e.b))


def pw_equal_mod_ties(a, b):
    return pw_equal(drop_ties(a), drop_ties(b))
