"""Boxes with symbolic bounds and their ordering for sufficiently large grids (DESIGN 4.4).

A bound is a polynomial that is affine in the (positive, integer) size symbols with small
rational constants: 0, w, ny - w, ny, 2*ny ...  Two bounds are ordered *asymptotically*: the
sign of their difference for all sizes above a threshold N0, which is recorded.  A difference
whose size coefficients have mixed signs (e.g. nx - ny) is not ordered -> AnalysisError.
"""
from __future__ import annotations

from fractions import Fraction

from .poly import Poly, PW, as_poly, as_rat
from .values import Unsupported, to_pw, simplify_scalar


class Threshold:
    """largest size needed so far for the asymptotic orderings to be valid"""
    value = Fraction(0)


class Bd:
    """affine bound  c + sum coeff*size_symbol  (lightweight, hashable)"""
    __slots__ = ("c", "s", "_h")

    def __init__(self, c=0, s=()):
        self.c = c
        self.s = s
        self._h = None

    def is_const(self):
        return not self.s

    def const_value(self):
        if self.s:
            raise Unsupported("bound is not constant: %r" % self)
        return Fraction(self.c)

    def __add__(self, o):
        if isinstance(o, (int, Fraction)):
            return Bd(self.c + o, self.s)
        if not isinstance(o, Bd):
            o = bound(o)
        if not o.s:
            return Bd(self.c + o.c, self.s)
        if not self.s:
            return Bd(self.c + o.c, o.s)
        d = dict(self.s)
        for k, v in o.s:
            nv = d.get(k, 0) + v
            if nv == 0:
                d.pop(k, None)
            else:
                d[k] = nv
        return Bd(self.c + o.c, tuple(sorted(d.items())))

    __radd__ = __add__

    def __neg__(self):
        return Bd(-self.c, tuple((k, -v) for k, v in self.s))

    def __sub__(self, o):
        if isinstance(o, (int, Fraction)):
            return Bd(self.c - o, self.s)
        if not isinstance(o, Bd):
            o = bound(o)
        return self + (-o)

    def __rsub__(self, o):
        return (-self) + o

    def scale(self, k):
        k = Fraction(k)
        return Bd(self.c * k, tuple((n, v * k) for n, v in self.s))

    def __eq__(self, o):
        if isinstance(o, (int, Fraction)):
            return not self.s and self.c == o
        if not isinstance(o, Bd):
            return NotImplemented
        return self.c == o.c and self.s == o.s

    def __hash__(self):
        if self._h is None:
            self._h = hash((Fraction(self.c), self.s))
        return self._h

    def key(self):
        return (str(Fraction(self.c)), tuple((n, str(v)) for n, v in self.s))

    def poly(self):
        p = Poly.const(self.c)
        for n, v in self.s:
            p = p + Poly.sym(n).scale(v)
        return p

    def __repr__(self):
        return repr(self.poly())


def bound(v):
    if isinstance(v, Bd):
        return v
    if isinstance(v, (int, Fraction)) and not isinstance(v, bool):
        return Bd(v)
    if not isinstance(v, Poly):
        v = to_pw(v)
        if not v.is_leaf():
            raise Unsupported("piecewise array bound")
        r = v.leaf
        if not r.den.is_const():
            raise Unsupported("rational array bound %r" % (r,))
        v = as_poly(r)
    c0 = Fraction(0)
    s = []
    for m, c in v.t.items():
        if m == ():
            c0 = c
        elif len(m) == 1 and m[0][1] == 1 and m[0][0][0] == "s":
            s.append((m[0][0][1], c))
        else:
            raise Unsupported("array bound not affine in sizes: %r" % (v,))
    return Bd(c0, tuple(sorted(s)))


_SIGN_CACHE = {}


def sign_large(p):
    """sign of the affine bound p for all sizes >= threshold: -1, 0, +1"""
    p = bound(p)
    if not p.s:
        return (p.c > 0) - (p.c < 0)
    r = _SIGN_CACHE.get(p)
    if r is not None:
        return r
    coeffs = [v for _, v in p.s]
    if all(c > 0 for c in coeffs):
        r = 1
    elif all(c < 0 for c in coeffs):
        r = -1
    else:
        raise Unsupported("array bounds on different size symbols cannot be ordered: %r" % (p,))
    need = abs(Fraction(p.c)) / min(abs(c) for c in coeffs) + 1
    if need > Threshold.value:
        Threshold.value = need
    _SIGN_CACHE[p] = r
    return r


def cmp(a, b):
    if a is b:
        return 0
    return sign_large(bound(a) - bound(b))


def le(a, b):
    return cmp(a, b) <= 0


def lt(a, b):
    return cmp(a, b) < 0


def bmin(a, b):
    return a if le(a, b) else b


def bmax(a, b):
    return b if le(a, b) else a


class Box:
    """product of half-open intervals [lo, hi) with symbolic bounds"""
    __slots__ = ("iv",)

    def __init__(self, iv):
        self.iv = tuple((bound(lo), bound(hi)) for lo, hi in iv)

    @property
    def rank(self):
        return len(self.iv)

    def is_empty(self):
        return any(le(hi, lo) for lo, hi in self.iv)

    def shift(self, delta):
        return Box([(lo + d, hi + d) for (lo, hi), d in zip(self.iv, delta)])

    def intersect(self, o):
        return Box([(bmax(a, c), bmin(b, d)) for (a, b), (c, d) in zip(self.iv, o.iv)])

    def contains(self, o):
        return all(le(a, c) and le(d, b) for (a, b), (c, d) in zip(self.iv, o.iv))

    def shrink(self, g):
        return Box([(lo + g, hi - g) for lo, hi in self.iv])

    def extent(self, k):
        lo, hi = self.iv[k]
        return hi - lo

    def key(self):
        return tuple((lo.key(), hi.key()) for lo, hi in self.iv)

    def __eq__(self, o):
        return isinstance(o, Box) and all(a == c and b == d for (a, b), (c, d) in zip(self.iv, o.iv))

    def __hash__(self):
        return hash(self.key())

    def __repr__(self):
        return "[" + ", ".join("%r:%r" % (lo, hi) for lo, hi in self.iv) + "]"


def sort_bounds(bs):
    """unique bounds in increasing asymptotic order"""
    uniq = []
    for b in bs:
        if not any(b == u for u in uniq):
            uniq.append(b)
    import functools
    return sorted(uniq, key=functools.cmp_to_key(cmp))


def covers(boxes, target):
    """do the boxes jointly cover target?  (cell decomposition along the cut points)"""
    if target.is_empty():
        return True, None
    cuts = []
    for k in range(target.rank):
        pts = [target.iv[k][0], target.iv[k][1]]
        for b in boxes:
            for p in b.iv[k]:
                if lt(target.iv[k][0], p) and lt(p, target.iv[k][1]):
                    pts.append(p)
        cuts.append(sort_bounds(pts))
    import itertools
    for cell in itertools.product(*[list(zip(c[:-1], c[1:])) for c in cuts]):
        cb = Box(cell)
        if not any(b.contains(cb) for b in boxes):
            return False, cb
    return True, None


def concrete_extent(p):
    """extent -> int if constant else None"""
    p = bound(p)
    if p.is_const():
        c = p.const_value()
        if c.denominator == 1:
            return int(c)
    return None
