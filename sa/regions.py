"""Boxes with symbolic bounds and their ordering for sufficiently large grids (DESIGN 4.4).

A bound is a polynomial that is affine in the (positive, integer) size symbols with small
rational constants: 0, w, ny - w, ny, 2*ny ...  Two bounds are ordered *asymptotically*: the
sign of their difference for all sizes above a threshold N0, which is recorded.  A difference
whose size coefficients have mixed signs (e.g. nx - ny) is not ordered -> AnalysisError.
"""
from __future__ import annotations

from fractions import Fraction

from . import poly as _poly
from .poly import Poly, PW, as_poly, as_rat
from .values import Unsupported, to_pw, simplify_scalar


class Threshold:
    """largest size needed so far for the asymptotic orderings to be valid"""
    value = Fraction(0)


class Bd:
    """affine bound  c + sum coeff*size_symbol  (lightweight, hashable)"""
    __slots__ = ("c", "s", "_h")

    def __init__(self, c=0, s=()):
        self.c = c
        self.s = s
        self._h = None

    def is_const(self):
        return not self.s

    def const_value(self):
        if self.s:
            raise Unsupported("bound is not constant: %r" % self)
        return Fraction(self.c)

    def __add__(self, o):
        if isinstance(o, (int, Fraction)):
            return Bd(self.c + o, self.s)
        if not isinstance(o, Bd):
            o = bound(o)
        if not o.s:
            return Bd(self.c + o.c, self.s)
        if not self.s:
            return Bd(self.c + o.c, o.s)
        d = dict(self.s)
        for k, v in o.s:
            nv = d.get(k, 0) + v
            if nv == 0:
                d.pop(k, None)
            else:
                d[k] = nv
        return Bd(self.c + o.c, tuple(sorted(d.items())))

    __radd__ = __add__

    def __neg__(self):
        return Bd(-self.c, tuple((k, -v) for k, v in self.s))

    def __sub__(self, o):
        if isinstance(o, (int, Fraction)):
            return Bd(self.c - o, self.s)
        if not isinstance(o, Bd):
            o = bound(o)
        return self + (-o)

    def __rsub__(self, o):
        return (-self) + o

    def scale(self, k):
        k = Fraction(k)
        return Bd(self.c * k, tuple((n, v * k) for n, v in self.s))

    def __eq__(self, o):
        if isinstance(o, (int, Fraction)):
            return not self.s and self.c == o
        if not isinstance(o, Bd):
            return NotImplemented
        return self.c == o.c and self.s == o.s

    def __hash__(self):
        if self._h is None:
            self._h = hash((Fraction(self.c), self.s))
        return self._h

    def key(self):
        return (str(Fraction(self.c)), tuple((n, str(v)) for n, v in self.s))

    def poly(self):
        p = Poly.const(self.c)
        for n, v in self.s:
            p = p + Poly.sym(n).scale(v)
        return p

    def __repr__(self):
        return repr(self.poly())


def bound(v):
    if isinstance(v, Bd):
        return v
    if isinstance(v, (int, Fraction)) and not isinstance(v, bool):
        return Bd(v)
    if not isinstance(v, Poly):
        v = to_pw(v)
        if not v.is_leaf():
            raise Unsupported("piecewise array bound")
        r = v.leaf
        if not r.den.is_const():
            raise Unsupported("rational array bound %r" % (r,))
        v = as_poly(r)
    if _poly.SYM_SUBS and any(a[0] == "s" and a[1] in _poly.SYM_SUBS for a in v.atoms()):
        v = as_poly(v.subs({("s", n): q for n, q in _poly.SYM_SUBS.items()}))
    c0 = Fraction(0)
    s = []
    for m, c in v.t.items():
        if m == ():
            c0 = c
        elif len(m) == 1 and m[0][1] == 1 and m[0][0][0] == "s":
            s.append((m[0][0][1], c))
        else:
            raise Unsupported("array bound not affine in sizes: %r" % (v,))
    return Bd(c0, tuple(sorted(s)))


_SIGN_CACHE = {}


class NeedCase(Unsupported):
    """the sign of an affine form in several size symbols is needed: the caller may re-analyse under each ordering"""

    def __init__(self, p):
        super().__init__("array bounds on different size symbols cannot be ordered: %r" % (p,))
        self.p = p


# Ordering assumptions of the current size case: affine forms (Bd, symbol part only) assumed positive and large.
ASSUME = []


def _solve(cols, target):
    """exact solution x of  sum_j x_j cols[j] = target  (square or overdetermined, Fractions); None if singular/inconsistent"""
    n, m = len(target), len(cols)
    a = [[Fraction(cols[j][i]) for j in range(m)] + [Fraction(target[i])] for i in range(n)]
    piv, r = [], 0
    for c in range(m):
        k = next((i for i in range(r, n) if a[i][c] != 0), None)
        if k is None:
            return None
        a[r], a[k] = a[k], a[r]
        d = a[r][c]
        a[r] = [v / d for v in a[r]]
        for i in range(n):
            if i != r and a[i][c] != 0:
                f = a[i][c]
                a[i] = [v - f * w for v, w in zip(a[i], a[r])]
        piv.append(c)
        r += 1
    if any(a[i][m] != 0 for i in range(r, n)):
        return None
    return [a[i][m] for i in range(m)]


def _in_cone(target, gens):
    """is target a non-negative combination of the generators (Caratheodory: of at most dim independent ones)?  Returns the
    smallest positive multiplier used (for the threshold) or None"""
    import itertools
    n = len(target)
    if all(t == 0 for t in target):
        return None
    for k in range(1, n + 1):
        for sub in itertools.combinations(range(len(gens)), k):
            x = _solve([gens[j] for j in sub], target)
            if x is not None and all(v >= 0 for v in x) and any(v > 0 for v in x):
                return min(v for v in x if v > 0)
    return None


def _sign_under_assumptions(p):
    syms = sorted({n for n, _ in p.s} | {n for a in ASSUME for n, _ in a.s})
    def vec(b):
        d = dict(b.s)
        return [Fraction(d.get(n, 0)) for n in syms]
    gens = [vec(a) for a in ASSUME] + [[Fraction(int(i == j)) for i in range(len(syms))] for j in range(len(syms))]
    t = vec(p)
    lam = _in_cone(t, gens)
    if lam is not None:
        return 1, lam
    lam = _in_cone([-v for v in t], gens)
    if lam is not None:
        return -1, lam
    return None, None


def sign_large(p):
    """sign of the affine bound p for all sizes >= threshold: -1, 0, +1"""
    p = bound(p)
    if not p.s:
        return (p.c > 0) - (p.c < 0)
    r = _SIGN_CACHE.get(p)
    if r is not None:
        return r
    coeffs = [v for _, v in p.s]
    if all(c > 0 for c in coeffs):
        r = 1
    elif all(c < 0 for c in coeffs):
        r = -1
    else:
        r, lam = _sign_under_assumptions(p) if ASSUME else (None, None)
        if r is None:
            raise NeedCase(p)
        need = abs(Fraction(p.c)) / lam + 1
        if need > Threshold.value:
            Threshold.value = need
        _SIGN_CACHE[p] = r
        return r
    need = abs(Fraction(p.c)) / min(abs(c) for c in coeffs) + 1
    if need > Threshold.value:
        Threshold.value = need
    _SIGN_CACHE[p] = r
    return r


def cmp(a, b):
    if a is b:
        return 0
    return sign_large(bound(a) - bound(b))


def le(a, b):
    return cmp(a, b) <= 0


def lt(a, b):
    return cmp(a, b) < 0


def bmin(a, b):
    return a if le(a, b) else b


def bmax(a, b):
    return b if le(a, b) else a


class Box:
    """product of half-open intervals [lo, hi) with symbolic bounds"""
    __slots__ = ("iv",)

    def __init__(self, iv):
        self.iv = tuple((bound(lo), bound(hi)) for lo, hi in iv)

    @property
    def rank(self):
        return len(self.iv)

    def is_empty(self):
        return any(le(hi, lo) for lo, hi in self.iv)

    def shift(self, delta):
        return Box([(lo + d, hi + d) for (lo, hi), d in zip(self.iv, delta)])

    def intersect(self, o):
        return Box([(bmax(a, c), bmin(b, d)) for (a, b), (c, d) in zip(self.iv, o.iv)])

    def contains(self, o):
        return all(le(a, c) and le(d, b) for (a, b), (c, d) in zip(self.iv, o.iv))

    def shrink(self, g):
        return Box([(lo + g, hi - g) for lo, hi in self.iv])

    def extent(self, k):
        lo, hi = self.iv[k]
        return hi - lo

    def key(self):
        return tuple((lo.key(), hi.key()) for lo, hi in self.iv)

    def __eq__(self, o):
        return isinstance(o, Box) and all(a == c and b == d for (a, b), (c, d) in zip(self.iv, o.iv))

    def __hash__(self):
        return hash(self.key())

    def __repr__(self):
        return "[" + ", ".join("%r:%r" % (lo, hi) for lo, hi in self.iv) + "]"


def sort_bounds(bs):
    """unique bounds in increasing asymptotic order"""
    uniq = []
    for b in bs:
        if not any(b == u for u in uniq):
            uniq.append(b)
    import functools
    return sorted(uniq, key=functools.cmp_to_key(cmp))


def covers(boxes, target):
    """do the boxes jointly cover target?  (cell decomposition along the cut points)"""
    if target.is_empty():
        return True, None
    cuts = []
    for k in range(target.rank):
        pts = [target.iv[k][0], target.iv[k][1]]
        for b in boxes:
            for p in b.iv[k]:
                if lt(target.iv[k][0], p) and lt(p, target.iv[k][1]):
                    pts.append(p)
        cuts.append(sort_bounds(pts))
    import itertools
    for cell in itertools.product(*[list(zip(c[:-1], c[1:])) for c in cuts]):
        cb = Box(cell)
        if not any(b.contains(cb) for b in boxes):
            return False, cb
    return True, None


def concrete_extent(p):
    """extent -> int if constant else None"""
    p = bound(p)
    if p.is_const():
        c = p.const_value()
        if c.denominator == 1:
            return int(c)
    return None


# ---------------------------------------------------------------------------- size cases
class NeedDecision(Unsupported):
    """the analysed code branches on whether a whole-array reduction (np.max / np.min of an input array with at least two
    elements) is zero: the caller may analyse both outcomes"""

    def __init__(self, key, text):
        super().__init__("undecidable branch condition %s" % text)
        self.key, self.text = key, text


class SizeCase:
    """one ordering case of the grid sizes: assumptions `form > 0 (large)` plus substitutions `symbol := affine form` for the
    equality branches (the symbol nx is never substituted: module-level constants of the oracles mention it); plus decisions
    on data-dependent branch conditions of a recognised form (reduction symbol zero / non-zero)"""

    def __init__(self, assume=(), subs=(), decisions=()):
        self.assume = tuple(assume)
        self.subs = tuple(subs)          # ((name, Bd), ...)
        self.decisions = tuple(decisions)    # ((reduction symbol name, is_nonzero), ...)

    def label(self):
        parts = ["%r > 0" % (a,) for a in self.assume] + ["%s = %r" % (n, b) for n, b in self.subs]
        parts += [("%s %s 0" % (n, "!=" if nz else "==")) if not n.startswith(("[", "may_share", "allclose", "any(")) else ("%s %s" % (n, "holds" if nz else "does not hold"))
                  for n, nz in self.decisions]
        return ", ".join(parts)

    def depth(self):
        return len(self.assume) + len(self.subs) + len(self.decisions)

    def decision(self, key):
        for n, nz in self.decisions:
            if n == key:
                return nz
        return None

    def decide(self, key):
        return [SizeCase(self.assume, self.subs, self.decisions + ((key, True),)),
                SizeCase(self.assume, self.subs, self.decisions + ((key, False),))]

    def children(self, p):
        """the three refinements on the sign of p (p is undecided under this case)"""
        sym_part = Bd(0, p.s)
        out = [SizeCase(self.assume + (sym_part,), self.subs, self.decisions), SizeCase(self.assume + (-sym_part,), self.subs, self.decisions)]
        # equality: solve p == 0 for a symbol (not nx) with coefficient +-1 and no constant offset problems
        cand = [(n, v) for n, v in p.s if n != "nx" and abs(v) == 1]
        if cand and p.c == 0:
            n, v = cand[0]
            rest = Bd(0, tuple((m, -w / v) for m, w in p.s if m != n))
            if all(w > 0 for _, w in rest.s):
                def sub_bd(b):
                    d = dict(b.s)
                    k = d.pop(n, 0)
                    for m, w in rest.s:
                        d[m] = d.get(m, 0) + k * w
                    return Bd(b.c, tuple(sorted((m, w) for m, w in d.items() if w != 0)))
                new_assume, feasible = [], True
                for a in self.assume:
                    a2 = sub_bd(a)
                    cs = [w for _, w in a2.s]
                    if cs and all(w > 0 for w in cs):
                        continue            # now trivially true
                    if not cs or all(w < 0 for w in cs):
                        feasible = False
                        break
                    new_assume.append(a2)
                if feasible:
                    out.append(SizeCase(new_assume, self.subs + ((n, rest),), self.decisions))
        return out


CURRENT_CASE = [SizeCase()]


def set_case(case):
    """install a size case: ordering assumptions here, equalities as substitutions at the source of the size symbols"""
    from . import poly
    CURRENT_CASE[0] = case
    ASSUME[:] = list(case.assume)
    _SIGN_CACHE.clear()
    poly.SYM_SUBS.clear()
    for n, b in case.subs:
        poly.SYM_SUBS[n] = b.poly()
    for n, nz in case.decisions:
        if not nz and not n.startswith(("[", "may_share", "allclose", "any(")):
            poly.SYM_SUBS[n] = Poly()        # the reduction is zero on this path
    for reg in CASE_CACHES:
        reg.clear()


CASE_CACHES = []      # dict caches that depend on the size case (registered by their owners)


def run_under_size_cases(fn, opt_in, max_cases=27, max_depth=3):
    """call fn(case) for the generic case; when an ordering between size symbols is needed (NeedCase) and the caller opted in,
    re-run fn under each sign of the undecided form.  Returns [(case, result)]"""
    work, done = [SizeCase()], []
    try:
        while work:
            case = work.pop(0)
            set_case(case)
            try:
                done.append((case, fn(case)))
            except NeedCase as nc:
                if opt_in is not True:
                    raise
                if case.depth() >= max_depth or len(work) + len(done) >= max_cases:
                    raise Unsupported("too many size-ordering cases (last undecided form %r under [%s])" % (nc.p, case.label()))
                work.extend(case.children(nc.p))
            except NeedDecision as nd:
                if not opt_in:
                    raise
                if nd.key.startswith("any("):
                    # (knowing that an array is identically zero matters to every later comparison on that path: handled only
                    # where both paths of ONE kernel call can be compared, see props.common.summarize_with_shortcuts)
                    raise Unsupported("branch on whether an input array has a non-zero element, outside a catalogue kernel: %s" % nd.text)
                if case.depth() >= max_depth or len(work) + len(done) >= max_cases:
                    raise Unsupported("too many cases (last undecided condition %s under [%s])" % (nd.text, case.label()))
                work.extend(case.decide(nd.key))
    finally:
        set_case(SizeCase())
    return done
