"""Symbolic store executor: runs an op trace over symbolic array contents.

The content of every (allocation, component, real/imag part) is an ordered list of pieces
(Box, expr); later pieces override earlier ones.  expr is a piecewise rational function over
  ('f', vname, offs)  value of the named array version at a relative offset
                      (offs entries: int = relative, ('a', Poly) = absolute index on that axis)
  ('s', '@k')         index of the cell along grid axis k of the allocation
  other symbols       scalar parameters
Initially every allocation holds its own `init` version (or the closed form known from its
construction, e.g. coordinate fields).  Kernel launches, numpy slice assignments and
elementwise numpy operations rewrite the contents; external operations (FFT, eig, tensordot,
numba kernels) introduce fresh opaque versions whose inputs are recorded.
"""
from __future__ import annotations

import itertools
from fractions import Fraction

from . import poly
from .poly import PW, Poly, Rat, Cond, as_poly, const as pconst, sym as psym
from .regions import Box, bound, cmp, le, lt, sort_bounds, concrete_extent, covers
from .values import (Alloc, Arr, Op, Unsupported, is_num, is_scalar, simplify_scalar, to_pw)
from .extlib import arr_valfn, MinMax

MAX_COMP = 4
CELL_LIMIT = 150     # above this many decomposition cells per launch, boundary-band cells are
                     # abstracted to their dependence sets (the deep-interior cell stays exact)

_DEPS = {}


def dep_symbol(names):
    names = frozenset(names)
    nm = "DEP{%s}" % ",".join(sorted(names))
    _DEPS[nm] = names
    return psym(nm)


def deps_of(expr):
    """names of the array versions an expression depends on"""
    out = set()
    for a in expr.all_atoms():
        if a[0] == "f":
            out.add(a[1])
        elif a[0] == "s" and a[1] in _DEPS:
            out |= _DEPS[a[1]]
    return out


def is_abstract(expr):
    return any(a[0] == "s" and a[1] in _DEPS for a in expr.all_atoms())


class StoreProblem:
    def __init__(self, kind, msg, op=None):
        self.kind, self.msg, self.op = kind, msg, op
        self.where = getattr(op, "where", "?")
        self.stack = getattr(op, "stack", ())

    def __repr__(self):
        return "StoreProblem(%s: %s at %s)" % (self.kind, self.msg, self.where)


class Piece:
    __slots__ = ("box", "expr")

    def __init__(self, box, expr):
        self.box, self.expr = box, expr

    def __repr__(self):
        return "%r -> %r" % (self.box, self.expr)


class Grid:
    """content of one array component on a rectilinear decomposition: per-axis sorted cut
    points (first = 0, last = extent) and one expression per cell"""

    def __init__(self, full, expr):
        self.full = full
        self.cuts = [[lo, hi] for lo, hi in full.iv]
        self.cells = {(0,) * full.rank: expr}

    @property
    def rank(self):
        return self.full.rank

    def _pos(self, axis, b):
        """index i with cuts[i] == b, inserting a cut if needed"""
        c = self.cuts[axis]
        for i, x in enumerate(c):
            s = cmp(b, x)
            if s == 0:
                return i
            if s < 0:
                if i == 0:
                    raise Unsupported("write below the array start: %r" % (b,))
                c.insert(i, b)
                new = {}
                for idx, e in self.cells.items():
                    j = idx[axis]
                    if j < i - 1:
                        new[idx] = e
                    elif j == i - 1:
                        new[idx] = e
                        new[idx[:axis] + (i,) + idx[axis + 1:]] = e
                    else:
                        new[idx[:axis] + (j + 1,) + idx[axis + 1:]] = e
                self.cells = new
                return i
        raise Unsupported("write beyond the array end: %r > %r" % (b, c[-1]))

    def write_many(self, items):
        """items: list of (Box, expr); later items win"""
        for box, _ in items:
            for k, (lo, hi) in enumerate(box.iv):
                self._pos(k, lo)
                self._pos(k, hi)
        for box, e in items:
            rng = []
            for k, (lo, hi) in enumerate(box.iv):
                a, b = self._pos(k, lo), self._pos(k, hi)
                rng.append(range(a, b))
            for idx in itertools.product(*rng):
                self.cells[idx] = e

    def write(self, box, expr):
        self.write_many([(box, expr)])

    def locate(self, axis, lo, hi):
        """index of the cell interval containing [lo, hi) or None if it straddles a cut"""
        c = self.cuts[axis]
        for i in range(len(c) - 1):
            if le(c[i], lo) and le(hi, c[i + 1]):
                return i
        return None

    def lookup(self, box):
        idx = []
        for k, (lo, hi) in enumerate(box.iv):
            i = self.locate(k, lo, hi)
            if i is None:
                raise Unsupported("box %r straddles a content boundary" % (box,))
            idx.append(i)
        return self.cells[tuple(idx)]

    def simplify(self):
        """drop cuts across which nothing changes"""
        for axis in range(self.rank):
            i = 1
            while i < len(self.cuts[axis]) - 1:
                same = True
                for idx, e in self.cells.items():
                    if idx[axis] == i - 1:
                        o = self.cells[idx[:axis] + (i,) + idx[axis + 1:]]
                        if o is not e and not e.struct_eq(o):
                            same = False
                            break
                if same:
                    del self.cuts[axis][i]
                    new = {}
                    for idx, e in self.cells.items():
                        j = idx[axis]
                        if j < i:
                            new[idx] = e
                        elif j > i:
                            new[idx[:axis] + (j - 1,) + idx[axis + 1:]] = e
                    self.cells = new
                else:
                    i += 1

    def boxes(self):
        for idx, e in self.cells.items():
            yield Box([(self.cuts[k][i], self.cuts[k][i + 1]) for k, i in enumerate(idx)]), e

    def pieces(self):
        """disjoint (Box, expr) list, neighbouring cells with identical expressions merged"""
        return [Piece(b, e) for b, e in merge_cells(list(self.boxes()))]

    def copy(self):
        g = Grid.__new__(Grid)
        g.full = self.full
        g.cuts = [list(c) for c in self.cuts]
        g.cells = dict(self.cells)
        return g


def merge_cells(cells):
    changed = True
    while changed:
        changed = False
        for i in range(len(cells)):
            for j in range(i + 1, len(cells)):
                (ba, ea), (bb, eb) = cells[i], cells[j]
                if (ea is None) != (eb is None) or (ea is not None and ea is not eb and not ea.struct_eq(eb)):
                    continue
                diff = [k for k in range(ba.rank) if not (ba.iv[k][0] == bb.iv[k][0] and ba.iv[k][1] == bb.iv[k][1])]
                if len(diff) != 1:
                    continue
                k = diff[0]
                if ba.iv[k][1] == bb.iv[k][0]:
                    iv = list(ba.iv)
                    iv[k] = (ba.iv[k][0], bb.iv[k][1])
                elif bb.iv[k][1] == ba.iv[k][0]:
                    iv = list(ba.iv)
                    iv[k] = (bb.iv[k][0], ba.iv[k][1])
                else:
                    continue
                cells[i] = (Box(iv), ea)
                del cells[j]
                changed = True
                break
            if changed:
                break
    return cells


def comp_rank(alloc):
    """number of leading axes that are component axes (small concrete extent)"""
    cr = 0
    for s in alloc.shape:
        s = simplify_scalar(s)
        if isinstance(s, int) and s <= MAX_COMP:
            cr += 1
        else:
            break
    return cr


class ViewInfo:
    """decomposition of an Arr into component selection and grid-axis ranges"""

    def __init__(self, arr):
        al = arr.alloc
        self.arr = arr
        self.alloc = al
        cr = comp_rank(al)
        self.cr = cr
        self.comp = []          # per component axis: list of indices
        self.comp_is_view_axis = []
        for a in arr.axes[:cr]:
            if a[0] == "i":
                i = simplify_scalar(a[1])
                if not isinstance(i, int):
                    raise Unsupported("symbolic component index in %s" % arr.describe())
                self.comp.append([i])
                self.comp_is_view_axis.append(False)
            else:
                lo, hi = simplify_scalar(a[1]), simplify_scalar(a[2])
                if not (isinstance(lo, int) and isinstance(hi, int)):
                    raise Unsupported("symbolic component range in %s" % arr.describe())
                self.comp.append(list(range(lo, hi)))
                self.comp_is_view_axis.append(True)
        self.grid = []          # per alloc grid axis: (lo, hi, is_view_axis)
        for a in arr.axes[cr:]:
            if a[0] == "i":
                self.grid.append((bound(a[1]), bound(a[1]) + 1, False))
            else:
                self.grid.append((bound(a[1]), bound(a[2]), True))
        self.part = arr.part
        if arr.perm is not None:
            raise Unsupported("transposed view in the store executor: %s" % arr.describe())

    @property
    def grid_rank(self):
        return len(self.grid)

    def box(self):
        return Box([(lo, hi) for lo, hi, _ in self.grid])

    def origin(self):
        return [lo for lo, hi, _ in self.grid]

    def view_grid_axes(self):
        return [k for k, (_, _, v) in enumerate(self.grid) if v]

    def comp_tuples(self):
        return list(itertools.product(*self.comp))


def full_box(alloc):
    cr = comp_rank(alloc)
    return Box([(0, bound(s)) for s in alloc.shape[cr:]])


def shift_expr(e, delta, pins=None):
    """re-express content e of cell c as seen from cell q where c = q + delta.
    pins: {axis: Poly} axes on which the source cell is pinned to an absolute index."""
    pins = pins or {}
    rank = len(delta)

    def f(a):
        if a[0] == "f":
            offs = list(a[2])
            for k in range(len(offs)):
                o = offs[k]
                if k in pins:
                    if isinstance(o, int):
                        offs[k] = ("a", (bound(pins[k]) + o).poly())
                elif isinstance(o, int):
                    d = delta[k]
                    if not isinstance(d, int):
                        raise Unsupported("symbolic relative shift")
                    offs[k] = o + d
            return ("f", a[1], tuple(offs))
        return a
    e = e.map_atoms(f)
    sub = {}
    for k in range(rank):
        at = ("s", "@%d" % k)
        if k in pins:
            sub[at] = bound(pins[k]).poly()
        elif not (isinstance(delta[k], int) and delta[k] == 0):
            sub[at] = Poly.atom(at) + (delta[k] if isinstance(delta[k], int) else bound(delta[k]).poly())
    if sub and any(a in e.all_atoms() for a in sub):
        e = e.subs(sub)
    return e


class Store:
    def __init__(self, interp=None, label="", havoc=None):
        self.havoc = havoc if havoc is not None else set()
        self.content = {}
        self.meta = {}
        self.defs = {}          # vname -> dict(kind=..., ...)
        self.def_order = []
        self.problems = []
        self.version = {}       # key -> int
        self.label = label
        self.ext_counter = 0
        self.scalar_defs = {}
        self.log = []

    # ------------------------------------------------------------------ naming
    def key(self, alloc, comp, part):
        k = (alloc.id, tuple(comp), part)
        if k not in self.meta:
            self.meta[k] = (alloc, tuple(comp), part)
        return k

    def base_name(self, key):
        alloc, comp, part = self.meta[key]
        lab = alloc.label.split(".")[-1]
        s = lab
        if comp:
            s += "[" + ",".join(str(c) for c in comp) + "]"
        if part:
            s += "." + part
        return s

    def vname(self, key, version):
        n = self.base_name(key)
        return n if version == 0 else "%s'%d" % (n, version)

    def init_content(self, key):
        alloc, comp, part = self.meta[key]
        fb = full_box(alloc)
        rank = fb.rank
        if alloc.valfn is not None and part is None and alloc.id not in self.havoc:
            idx = tuple(pconst(c) for c in comp) + tuple(psym("@%d" % k) for k in range(rank))
            try:
                e = alloc.valfn(idx)
                if isinstance(e, PW):
                    return Grid(fb, e)
            except Unsupported:
                pass
        name = self.vname(key, 0)
        self.defs.setdefault(name, {"kind": "init", "key": key, "alloc": alloc})
        return Grid(fb, poly.fld(name, (0,) * rank))

    def get(self, key):
        if key not in self.content:
            self.content[key] = self.init_content(key)
        return self.content[key]

    def problem(self, kind, msg, op=None):
        self.problems.append(StoreProblem(kind, msg, op))

    # ------------------------------------------------------------------ reading
    def lookup(self, key, box):
        """expr of the cell containing box (box in alloc grid coords)"""
        try:
            return self.get(key).lookup(box)
        except Unsupported as ex:
            raise Unsupported("%s in %s" % (ex, self.base_name(key)))

    def cuts_for(self, key, axis):
        return self.get(key).cuts[axis]

    def pieces(self, key):
        return self.get(key).pieces()

    # ------------------------------------------------------------------ writing
    def write(self, key, box, expr):
        if box.is_empty():
            return
        self.get(key).write(box, expr)

    def write_many(self, key, items):
        items = [(b, e) for b, e in items if not b.is_empty()]
        if items:
            self.get(key).write_many(items)

    def merge(self, key):
        g = self.content.get(key)
        if g is not None:
            g.simplify()

    def checkpoint(self, keys=None, tag=None):
        """freeze the current contents of the given keys under new version names"""
        out = []
        for key in (keys if keys is not None else list(self.content)):
            pieces = self.pieces(key)
            alloc, comp, part = self.meta[key]
            fb = full_box(alloc)
            if len(pieces) == 1 and _is_single_atom(pieces[0].expr):
                own = self.vname(key, self.version.get(key, 0))
                if own in deps_of(pieces[0].expr):
                    continue     # unchanged since its last version
            v = self.version.get(key, 0) + 1
            self.version[key] = v
            name = self.vname(key, v)
            self.defs[name] = {"kind": "stage", "key": key, "alloc": alloc, "pieces": pieces, "tag": tag}
            self.def_order.append(name)
            self.content[key] = Grid(fb, poly.fld(name, (0,) * fb.rank))
            out.append(name)
        return out

    def new_ext(self, kind, key, inputs, op, extra=None):
        self.ext_counter += 1
        alloc, comp, part = self.meta[key]
        v = self.version.get(key, 0) + 1
        self.version[key] = v
        name = self.vname(key, v)
        d = {"kind": "ext", "ext": kind, "key": key, "alloc": alloc, "inputs": inputs, "op": op}
        if extra:
            d.update(extra)
        self.defs[name] = d
        self.def_order.append(name)
        fb = full_box(alloc)
        return name, poly.fld(name, (0,) * fb.rank)

    def snapshot(self, arr):
        """contents of a view: list of (comp, part, pieces restricted to the view box)"""
        vi = ViewInfo(arr)
        out = []
        for comp in vi.comp_tuples():
            parts = [vi.part] if (vi.part or arr.dtype.kind != "c") else ["real", "imag"]
            for part in parts:
                key = self.key(vi.alloc, comp, part)
                vb = vi.box()
                ps = []
                for p in self.pieces(key):
                    b = p.box.intersect(vb)
                    if not b.is_empty():
                        ps.append(Piece(b, p.expr))
                out.append({"key": key, "name": self.base_name(key), "view_box": vb, "pieces": ps})
        return out

    # ------------------------------------------------------------------ ops
    def run(self, trace):
        for op in trace:
            self.step(op)

    def step(self, op):
        m = getattr(self, "op_" + op.kind, None)
        if m is not None:
            m(op)

    def op_Problem(self, op):
        self.problems.append(StoreProblem(op.pkind, op.msg, op))

    # ---- kernel launches
    def op_Launch(self, op):
        k = op.kernel
        sd = k.stencil
        views = {f: ViewInfo(a) for f, a in op.arrays.items()}
        # all fields of one kernel iterate over one common shape (A1)
        shapes = {f: op.arrays[f].shape for f in views}
        ref_f = sd.assigns[0].field
        ref_shape = shapes[ref_f]
        for f, sh in shapes.items():
            if len(sh) != len(ref_shape) or not all(to_pw(a) == to_pw(b) for a, b in zip(sh, ref_shape)):
                self.problem("shape-mismatch", "kernel %s: field %s has shape %s but %s has %s" % (
                    sd.name, f, _shp(sh), ref_f, _shp(ref_shape)), op)
                return
        rank = len(ref_shape)
        # view axes: leading ones may be component axes (concrete); expand them
        vref = views[ref_f]
        n_comp_view = sum(1 for x in vref.comp_is_view_axis if x)
        g = sd.reach()
        # iteration region in view coordinates (over the grid view axes only)
        grid_shape = ref_shape[n_comp_view:]
        it = self.iteration_box(k, ref_shape, n_comp_view, g, op)
        if it is None:
            return
        if it.is_empty():
            return
        scal = {("s", n): to_pw(_scalar_value(v)) for n, v in op.scalars.items()}
        comp_ranges = [c for c, isv in zip(vref.comp, vref.comp_is_view_axis) if isv]
        for f, vi in views.items():
            cr_f = [c for c, isv in zip(vi.comp, vi.comp_is_view_axis) if isv]
            if [len(c) for c in cr_f] != [len(c) for c in comp_ranges]:
                self.problem("shape-mismatch", "kernel %s: component axes of %s differ" % (sd.name, f), op)
                return
        for cpos in itertools.product(*[range(len(c)) for c in comp_ranges]):
            for asg in sd.assigns:
                self.exec_assign(sd, asg, views, cpos, n_comp_view, it, scal, op)

    def iteration_box(self, k, shape, n_comp_view, g, op):
        gshape = shape[n_comp_view:]
        sl = k.iteration_slice
        if sl is None:
            return Box([(g, bound(n) - g) for n in gshape])
        if not hasattr(sl, "tag") or sl.tag != "make_slice":
            raise Unsupported("iteration_slice %r" % (sl,))
        items = list(sl.info)
        if len(items) != len(shape):
            self.problem("iteration-slice", "iteration slice of rank %d on fields of rank %d" % (len(items), len(shape)), op)
            return None
        iv = []
        for it, n in list(zip(items, shape))[n_comp_view:]:
            n = bound(n)
            lo = _slice_bound(it.lo, n, True)
            hi = _slice_bound(it.hi, n, False)
            iv.append((lo, hi))
        return Box(iv)

    def comp_of(self, vi, cpos):
        comp = []
        j = 0
        for c, isv in zip(vi.comp, vi.comp_is_view_axis):
            if isv:
                comp.append(c[cpos[j]])
                j += 1
            else:
                comp.append(c[0])
        return tuple(comp)

    def exec_assign(self, sd, asg, views, cpos, ncv, it, scal, op):
        vo = views[asg.field]
        okey = self.key(vo.alloc, self.comp_of(vo, cpos), vo.part)
        if vo.alloc.dtype.kind == "c" and vo.part is None:
            raise Unsupported("kernel writes a complex array directly")
        out_off = asg.offset[ncv:]
        if any(o != 0 for o in asg.offset):
            self.problem("write-offset", "kernel %s writes %s at a non-zero offset" % (sd.name, asg.field), op)
            return
        # accesses of this assignment
        accs = sorted({(a[1], a[2]) for a in asg.expr.all_atoms() if a[0] == "f"}, key=repr)
        vaxes_o = vo.view_grid_axes()
        nview = len(vaxes_o)
        # per access: key and the map from iteration coords to alloc coords
        acc_info = []
        for f, off in accs:
            vi = views[f]
            if any(o != 0 for o in off[:ncv]):
                self.problem("component-offset", "kernel %s reads %s across components" % (sd.name, f), op)
                return
            key = self.key(vi.alloc, self.comp_of(vi, cpos), vi.part)
            if vi.alloc.dtype.kind == "c" and vi.part is None:
                raise Unsupported("kernel reads a complex array directly")
            acc_info.append((f, off, vi, key))
        # cut points per iteration axis
        cuts = []
        for j in range(nview):
            pts = [it.iv[j][0], it.iv[j][1]]
            for f, off, vi, key in acc_info:
                ax = vi.view_grid_axes()[j]
                org = vi.grid[ax][0]
                o = off[ncv + j]
                for c in self.cuts_for(key, ax):
                    p = c - org - o
                    if lt(it.iv[j][0], p) and lt(p, it.iv[j][1]):
                        pts.append(p)
            cuts.append(sort_bounds(pts))
        new_pieces = []
        all_cells = list(itertools.product(*[list(zip(c[:-1], c[1:])) for c in cuts]))
        abstract_far = len(all_cells) > CELL_LIMIT
        core = interior_point(it) if abstract_far else None
        for cell in all_cells:
            sub = {}
            if abstract_far and not Box(cell).contains(core):
                # boundary-band cell of an iterated stencil: keep only what it depends on
                deps = set()
                for f, off, vi, key in acc_info:
                    iv = []
                    vax = vi.view_grid_axes()
                    for ax, (lo, hi, isv) in enumerate(vi.grid):
                        if isv:
                            j = vax.index(ax)
                            o = off[ncv + j]
                            iv.append((cell[j][0] + lo + o, cell[j][1] + lo + o))
                        else:
                            iv.append((lo, hi))
                    deps |= deps_of(self.lookup(key, Box(iv)))
                iv = []
                for ax, (lo, hi, isv) in enumerate(vo.grid):
                    if isv:
                        j = vaxes_o.index(ax)
                        iv.append((cell[j][0] + lo, cell[j][1] + lo))
                    else:
                        iv.append((lo, hi))
                # an expression without field dependence would be a constant we do not track here
                new_pieces.append((Box(iv), dep_symbol(deps)))
                continue
            for f, off, vi, key in acc_info:
                # box in the alloc coords of this array
                iv = []
                delta = []
                pins = {}
                vax = vi.view_grid_axes()
                for ax, (lo, hi, isv) in enumerate(vi.grid):
                    if isv:
                        j = vax.index(ax)
                        o = off[ncv + j]
                        iv.append((cell[j][0] + lo + o, cell[j][1] + lo + o))
                    else:
                        iv.append((lo, hi))
                e = self.lookup(key, Box(iv))
                # express relative to the *output* alloc cell q: source cell = q + delta
                e2 = self.reexpress(e, vi, vo, off[ncv:])
                sub[("f", f, off)] = e2
            try:
                val = asg.expr.subs(sub) if sub else asg.expr
                if scal:
                    val = val.subs(scal)
            except poly.AlgebraError as ex:
                raise Unsupported("algebra: %s in kernel %s" % (ex, sd.name))
            # output box in alloc coords
            iv = []
            for ax, (lo, hi, isv) in enumerate(vo.grid):
                if isv:
                    j = vaxes_o.index(ax)
                    iv.append((cell[j][0] + lo, cell[j][1] + lo))
                else:
                    iv.append((lo, hi))
            new_pieces.append((Box(iv), val))
        self.write_many(okey, new_pieces)
        self.merge(okey)

    def reexpress(self, e, vi_src, vi_dst, off):
        """content expression e of source-array cells -> as a function of the destination cell"""
        vs, vd = vi_src.view_grid_axes(), vi_dst.view_grid_axes()
        if vi_src.grid_rank != vi_dst.grid_rank:
            # different alloc ranks: only allowed when expression is position independent
            ats = e.all_atoms()
            if any(a[0] == "f" or (a[0] == "s" and a[1].startswith("@")) for a in ats):
                raise Unsupported("re-expressing content between arrays of different rank")
            return e
        delta = []
        pins = {}
        for ax in range(vi_src.grid_rank):
            slo, shi, sv = vi_src.grid[ax]
            dlo, dhi, dv = vi_dst.grid[ax]
            if sv and dv:
                j = vs.index(ax)
                if vd.index(ax) != j:
                    raise Unsupported("views with permuted axes")
                d = slo - dlo + off[j]
                if d.is_const():
                    c = d.const_value()
                    delta.append(int(c))
                else:
                    delta.append(None)
                    raise Unsupported("views with symbolic relative origin: %r" % (d,))
            elif not sv:
                pins[ax] = slo
                delta.append(0)
            else:
                raise Unsupported("destination pinned but source ranged")
        if all(d == 0 for d in delta) and not pins:
            return e
        return shift_expr(e, delta, pins)

    # ---- numpy slice assignment  dst[...] = src
    def op_SliceAssign(self, op):
        dst, src = op.dst, op.src
        vd = ViewInfo(dst)
        dshape = dst.shape
        if isinstance(src, Arr) and src.perm is not None:
            # assignment from a transposed temporary (fast-diagonalisation solver): opaque version
            base = Arr(src.alloc, src.axes, src.part)
            ins = [self.snapshot(base)]
            for comp in vd.comp_tuples():
                key = self.key(vd.alloc, comp, vd.part)
                name, atom = self.new_ext("numpy:transpose-assign", key, ins, op, {"perm": src.perm})
                self.write(key, vd.box(), atom)
            return
        if isinstance(src, Arr):
            sshape = src.shape
            # numpy broadcasting of src into dst
            if len(sshape) > len(dshape):
                self.problem("broadcast", "cannot assign %s%s into %s%s" % (src.describe(), _shp(sshape), dst.describe(), _shp(dshape)), op)
                return
            pad = len(dshape) - len(sshape)
            for j, sd_ in enumerate(sshape):
                dd = dshape[pad + j]
                ls, ld = _len(sd_), _len(dd)
                if ls == ld:
                    continue
                if ls == 1:
                    continue
                self.problem("broadcast", "could not broadcast input array from shape %s into shape %s (%s = %s)" % (
                    _shp(sshape), _shp(dshape), dst.describe(), src.describe()), op)
                return
            self.assign_from_array(vd, dst, src, op)
            return
        if is_scalar(src) or isinstance(src, PW):
            val = to_pw(_scalar_value(src))
            for comp in vd.comp_tuples():
                key = self.key(vd.alloc, comp, vd.part)
                if op.aug:
                    self.apply_aug_scalar(key, vd.box(), op.aug, val)
                else:
                    self.write(key, vd.box(), val)
            return
        if isinstance(src, (list, tuple)) and all(is_scalar(x) for x in src):
            raise Unsupported("sequence assigned into array slice")
        raise Unsupported("slice assignment from %r" % (src,))

    def apply_aug_scalar(self, key, box, aug, val):
        """a[box] op= scalar: every cell of the box keeps its expression, combined with the scalar"""
        opn = {"Add": lambda e: e + val, "Sub": lambda e: e - val, "Mult": lambda e: e * val, "Div": lambda e: e / val}.get(aug)
        if opn is None:
            raise Unsupported("augmented scalar slice assignment with operator %s" % aug)
        items = []
        for p in self.pieces(key):
            inter = p.box.intersect(box)
            if not inter.is_empty():
                items.append((inter, opn(PW.of(p.expr))))
        self.write_many(key, items)

    def assign_from_array(self, vd, dst, src, op):
        vs = ViewInfo(src)
        if src.dtype.kind == "c" or dst.dtype.kind == "c":
            if src.part is None or dst.part is None:
                # whole complex arrays: treat both parts
                pass
        d_axes = vd.view_grid_axes()
        s_axes = vs.view_grid_axes()
        dcomps = vd.comp_tuples()
        scomps = vs.comp_tuples()
        # component broadcasting
        if len(scomps) == len(dcomps):
            pairs = list(zip(dcomps, scomps))
        elif len(scomps) == 1:
            pairs = [(d, scomps[0]) for d in dcomps]
        else:
            self.problem("broadcast", "component axes of %s and %s do not match" % (dst.describe(), src.describe()), op)
            return
        # align trailing view grid axes
        if len(s_axes) > len(d_axes):
            raise Unsupported("source view of higher grid rank than destination")
        if vs.grid_rank != vd.grid_rank:
            raise Unsupported("slice assignment between arrays of different grid rank")
        results = []
        for dcomp, scomp in pairs:
            parts = [(vd.part, vs.part)]
            if dst.dtype.kind == "c" and vd.part is None:
                parts = [("real", "real" if src.dtype.kind == "c" else None), ("imag", "imag" if src.dtype.kind == "c" else "zero")]
            for dpart, spart in parts:
                dkey = self.key(vd.alloc, dcomp, dpart)
                if spart == "zero":
                    results.append((dkey, [(vd.box(), pconst(0))]))
                    continue
                skey = self.key(vs.alloc, scomp, spart)
                # iterate over destination cells; per axis: either same-extent (shift) or broadcast (pin)
                delta, pins = [], {}
                cuts = []
                for ax in range(vd.grid_rank):
                    dlo, dhi, dv = vd.grid[ax]
                    slo, shi, sv = vs.grid[ax]
                    ext_s = concrete_extent(shi - slo)
                    ext_d = concrete_extent(dhi - dlo)
                    if ext_s == 1 and ext_d != 1:
                        pins[ax] = slo
                        delta.append(0)
                        cuts.append(sort_bounds([dlo, dhi]))
                    else:
                        d = slo - dlo
                        if not d.is_const():
                            raise Unsupported("slice assignment between views of symbolic relative origin")
                        d = int(d.const_value())
                        delta.append(d)
                        pts = [dlo, dhi]
                        for c in self.cuts_for(skey, ax):
                            p = c - d
                            if lt(dlo, p) and lt(p, dhi):
                                pts.append(p)
                        cuts.append(sort_bounds(pts))
                new = []
                for cell in itertools.product(*[list(zip(c[:-1], c[1:])) for c in cuts]):
                    iv = []
                    for ax, (lo, hi) in enumerate(cell):
                        if ax in pins:
                            iv.append((pins[ax], pins[ax] + 1))
                        else:
                            iv.append((lo + delta[ax], hi + delta[ax]))
                    # the pinned source cell may straddle pieces along other axes: handled by cuts
                    try:
                        e = self.lookup(skey, Box(iv))
                    except Unsupported:
                        # refine along pinned-axis-independent cuts failed
                        raise
                    e2 = shift_expr(e, delta, pins)
                    new.append((Box(cell), e2))
                results.append((dkey, new))
        for dkey, new in results:
            if op.aug:
                # dst op= src: every destination cell keeps its own expression, combined with the (shifted) source expression
                opn = {"Add": lambda a, b: a + b, "Sub": lambda a, b: a - b, "Mult": lambda a, b: a * b, "Div": lambda a, b: a / b}.get(op.aug)
                if opn is None:
                    raise Unsupported("augmented slice assignment with operator %s" % op.aug)
                comb = []
                for box, e in new:
                    for p in self.pieces(dkey):
                        inter = p.box.intersect(box)
                        if not inter.is_empty():
                            comb.append((inter, opn(PW.of(p.expr), PW.of(e))))
                new = comb
            self.write_many(dkey, new)
            self.merge(dkey)

    # ---- element assignment
    def op_ElemAssign(self, op):
        arr = op.arr
        vi = ViewInfo(Arr(arr.alloc))
        index = [simplify_scalar(i) for i in op.index]
        cr = vi.cr
        comp = tuple(index[:cr])
        if not all(isinstance(c, int) for c in comp):
            raise Unsupported("symbolic component in element store")
        iv = [(bound(to_pw(i)), bound(to_pw(i)) + 1) for i in index[cr:]]
        key = self.key(arr.alloc, comp, None)
        if not is_scalar(op.value):
            raise Unsupported("element store of %r" % (op.value,))
        self.write(key, Box(iv), to_pw(op.value))

    # ---- FFT and other external effects
    def op_FFT(self, op):
        inp, out = op.inp, op.out
        ins = self.snapshot(inp)
        vi = ViewInfo(out)
        parts = ["real", "imag"] if out.dtype.kind == "c" else [None]
        for comp in vi.comp_tuples():
            for part in parts:
                key = self.key(vi.alloc, comp, part)
                name, atom = self.new_ext("fft:" + op.direction, key, ins, op, {"part": part})
                self.write(key, vi.box(), atom)
        if op.direction == "FFTW_BACKWARD":
            # A5: a c2r transform may destroy its input
            vin = ViewInfo(inp)
            for comp in vin.comp_tuples():
                for part in ["real", "imag"]:
                    key = self.key(vin.alloc, comp, part)
                    name, atom = self.new_ext("destroyed-by-fft", key, [], op)
                    self.write(key, vin.box(), atom)

    def op_NumpyOp(self, op):
        out = op.out
        if out is None:
            return
        if op.meta.get("out_kw"):
            # result written into an existing array
            ins = [self.snapshot(r) for r in op.reads]
            vi = ViewInfo(out)
            for comp in vi.comp_tuples():
                key = self.key(vi.alloc, comp, vi.part)
                name, atom = self.new_ext("numpy:" + op.fn, key, ins, op)
                self.write(key, vi.box(), atom)
            return
        # fresh derived array: keep its closed form when known (valfn), else an opaque version
        al = out.alloc
        if al.valfn is not None and not any(r.alloc.id in self.havoc for r in op.reads):
            return      # closed form known from construction and inputs are immutable
        if al.valfn is not None:
            self.havoc.add(al.id)
        fn = op.fn
        if fn in ("add", "sub", "mul", "div", "neg", "abs", "fabs", "sqrt", "astype", "copy", "maybe_copy") and len(op.reads) >= 1:
            if self.elementwise(op):
                return
        if fn == "sum" and "axis" in op.meta:
            if self.sum_axis(op):
                return
        ins = [self.snapshot(r) for r in op.reads]
        vi = ViewInfo(out)
        parts = ["real", "imag"] if out.dtype.kind == "c" else [None]
        for comp in vi.comp_tuples():
            for part in parts:
                key = self.key(vi.alloc, comp, part)
                name, atom = self.new_ext("numpy:" + fn, key, ins, op, {"meta": op.meta, "args": op.args})
                self.content[key] = Grid(full_box(al), atom)

    def elementwise(self, op):
        out = op.out
        operands = op.args
        arrs = [a for a in operands if isinstance(a, Arr)]
        if any(a.dtype.kind == "c" for a in arrs):
            return False
        vo = ViewInfo(out)
        vis = [ViewInfo(a) if isinstance(a, Arr) else None for a in operands]
        for v in vis:
            if v is None:
                continue
            if v.grid_rank != vo.grid_rank or len(v.comp_tuples()) != len(vo.comp_tuples()):
                return False
            if not all(to_pw(x) == to_pw(y) for x, y in zip(v.arr.shape, out.shape)):
                return False
        from .extlib import ExtLib
        for ci, comp in enumerate(vo.comp_tuples()):
            okey = self.key(vo.alloc, comp, None)
            # common cuts
            cuts = []
            for ax in range(vo.grid_rank):
                pts = [vo.grid[ax][0], vo.grid[ax][1]]
                for v in vis:
                    if v is None:
                        continue
                    key = self.key(v.alloc, v.comp_tuples()[ci], v.part)
                    org = v.grid[ax][0]
                    for c in self.cuts_for(key, ax):
                        p = c - org
                        if lt(pts[0], p) and lt(p, pts[1]):
                            pts.append(p)
                cuts.append(sort_bounds(pts))
            new = []
            for cell in itertools.product(*[list(zip(c[:-1], c[1:])) for c in cuts]):
                vals = []
                for o, v in zip(operands, vis):
                    if v is None:
                        vals.append(to_pw(o))
                        continue
                    key = self.key(v.alloc, v.comp_tuples()[ci], v.part)
                    iv = [(lo + v.grid[ax][0], hi + v.grid[ax][0]) for ax, (lo, hi) in enumerate(cell)]
                    e = self.lookup(key, Box(iv))
                    e = self.reexpress(e, v, vo, [0] * len(vo.view_grid_axes()))
                    vals.append(e)
                if op.fn in ("astype", "copy", "maybe_copy"):
                    val = vals[0]
                else:
                    val = _scalar_op(op.fn, vals)
                new.append((Box(cell), val))
            self.get(okey).write_many(new)
            self.merge(okey)
        return True

    def sum_axis(self, op):
        src = op.reads[0]
        axis = op.meta["axis"]
        vs = ViewInfo(src)
        out = op.out
        vo = ViewInfo(out)
        if axis != 0 or vs.cr != 1 or not vs.comp_is_view_axis[0]:
            return False
        if vo.grid_rank != vs.grid_rank:
            return False
        okey = self.key(vo.alloc, (), None)
        keys = [self.key(vs.alloc, c, vs.part) for c in vs.comp_tuples()]
        cuts = []
        for ax in range(vo.grid_rank):
            pts = [vo.grid[ax][0], vo.grid[ax][1]]
            for key in keys:
                for c in self.cuts_for(key, ax):
                    if lt(pts[0], c) and lt(c, pts[1]):
                        pts.append(c)
            cuts.append(sort_bounds(pts))
        new = []
        for cell in itertools.product(*[list(zip(c[:-1], c[1:])) for c in cuts]):
            tot = pconst(0)
            for key in keys:
                tot = tot + self.lookup(key, Box(cell))
            new.append((Box(cell), tot))
        self.get(okey).write_many(new)
        self.merge(okey)
        return True

    def op_NumbaCall(self, op):
        from .numba_fx import numba_effects
        eff = numba_effects(op.fn)
        snaps = {p: self.snapshot(v) for p, v in op.args.items() if isinstance(v, Arr)}
        order = sorted(eff["writes"], key=lambda q: eff["per"][q]["records"][0].lineno)
        for p in order:
            v = op.args.get(p)
            if not isinstance(v, Arr):
                continue
            info = eff["per"][p]
            mode = info["mode"]
            if mode == "overwrite" and info["comps"] is not None:
                lead = v.shape[:-1]
                comps = info["comps"]
                if not any("..." in c for c in comps):
                    want = set(itertools.product(*[range(int(simplify_scalar(n))) for n in lead])) if all(
                        isinstance(simplify_scalar(n), int) for n in lead) else None
                    if want is None or set(comps) != want:
                        mode = "update"   # some components keep their previous content
            deps = set(info["deps"])
            if mode == "update":
                deps.add(p)
            ins = {q: snaps[q] for q in deps if q in snaps}
            vi = ViewInfo(v)
            for comp in vi.comp_tuples():
                key = self.key(vi.alloc, comp, vi.part)
                name, atom = self.new_ext("numba:" + op.fn.fn.node.name, key, ins, op, {"param": p, "mode": mode})
                self.write(key, vi.box(), atom)
            # statements run in program order (A4): later reads of p in this kernel see the new content
            snaps[p] = self.snapshot(v)

    def op_AttrSet(self, op):
        self.scalar_defs.setdefault((op.inst.id, op.attr), []).append(op)


def _mergeable(a, b):
    """union box if a and b differ in exactly one axis and are adjacent/overlapping there"""
    diff = [k for k in range(a.rank) if not (a.iv[k][0] == b.iv[k][0] and a.iv[k][1] == b.iv[k][1])]
    if not diff:
        return a
    if len(diff) != 1:
        return None
    k = diff[0]
    (al, ah), (bl, bh) = a.iv[k], b.iv[k]
    if le(al, bl) and le(bl, ah):
        lo, hi = al, (ah if le(bh, ah) else bh)
    elif le(bl, al) and le(al, bh):
        lo, hi = bl, (bh if le(ah, bh) else ah)
    else:
        return None
    iv = list(a.iv)
    iv[k] = (lo, hi)
    return Box(iv)


def _is_single_atom(e):
    if not e.is_leaf() or not e.leaf.is_poly():
        return False
    p = as_poly(e.leaf)
    if len(p.t) != 1:
        return False
    (m, c), = p.t.items()
    return c == 1 and len(m) == 1 and m[0][1] == 1 and m[0][0][0] == "f" and all(o == 0 for o in m[0][0][2])


def _slice_bound(b, n, is_lo):
    if b is None:
        return bound(0) if is_lo else n
    b = simplify_scalar(b)
    if isinstance(b, int):
        return n + b if b < 0 else bound(b)
    return bound(b)


def _len(d):
    """length of an axis extent: clamp negative (empty) to 0; symbolic stays symbolic"""
    d = simplify_scalar(d)
    if isinstance(d, int):
        return max(d, 0)
    p = bound(d)
    from .regions import sign_large
    if sign_large(p) <= 0:
        return 0
    return p


def _shp(sh):
    return "(" + ", ".join(str(_len(s)) for s in sh) + ")"


def _scalar_value(v):
    if isinstance(v, bool):
        return int(v)
    return v


def _scalar_op(name, vals):
    if name == "add":
        return vals[0] + vals[1]
    if name == "sub":
        return vals[0] - vals[1]
    if name == "mul":
        return vals[0] * vals[1]
    if name == "div":
        return vals[0] / vals[1]
    if name == "neg":
        return -vals[0]
    if name in ("abs", "fabs"):
        return poly.fn("abs", vals[0])
    if name == "sqrt":
        return poly.fn("sqrt", vals[0])
    raise Unsupported("scalar op %s" % name)


# ---------------------------------------------------------------------------- queries
def visible(pieces, full):
    """disjoint cover of `full` by (Box, expr): the topmost piece of every cell"""
    cuts = []
    for k in range(full.rank):
        pts = [full.iv[k][0], full.iv[k][1]]
        for p in pieces:
            for b in p.box.iv[k]:
                if lt(full.iv[k][0], b) and lt(b, full.iv[k][1]):
                    pts.append(b)
        cuts.append(sort_bounds(pts))
    cells = []
    for cell in itertools.product(*[list(zip(c[:-1], c[1:])) for c in cuts]):
        cb = Box(cell)
        e = None
        for p in reversed(pieces):
            if p.box.contains(cb):
                e = p.expr
                break
        cells.append((cb, e))
    # greedy merge of neighbouring cells with equal expressions
    changed = True
    while changed:
        changed = False
        for i in range(len(cells)):
            for j in range(i + 1, len(cells)):
                (ba, ea), (bb, eb) = cells[i], cells[j]
                if (ea is None) != (eb is None) or (ea is not None and not ea.struct_eq(eb)):
                    continue
                diff = [k for k in range(ba.rank) if not (ba.iv[k][0] == bb.iv[k][0] and ba.iv[k][1] == bb.iv[k][1])]
                if len(diff) != 1:
                    continue
                k = diff[0]
                if ba.iv[k][1] == bb.iv[k][0]:
                    iv = list(ba.iv)
                    iv[k] = (ba.iv[k][0], bb.iv[k][1])
                elif bb.iv[k][1] == ba.iv[k][0]:
                    iv = list(ba.iv)
                    iv[k] = (bb.iv[k][0], ba.iv[k][1])
                else:
                    continue
                cells[i] = (Box(iv), ea)
                del cells[j]
                changed = True
                break
            if changed:
                break
    return cells


def interior_point(full):
    """a box of one cell deep in the interior (n/2 on every axis)"""
    iv = []
    for lo, hi in full.iv:
        mid = (lo + hi).scale(Fraction(1, 2))
        iv.append((mid, mid + 1))
    return Box(iv)


def expr_at(pieces, box):
    for p in reversed(pieces):
        if p.box.contains(box):
            return p.expr
    return None


def compose(outer, inner):
    """substitute every field atom ('f', name, off) of `outer` whose name is in `inner`
    by inner[name] shifted by off"""
    sub = {}
    for a in outer.all_atoms():
        if a[0] == "f" and a[1] in inner:
            off = a[2]
            if not all(isinstance(o, int) for o in off):
                raise Unsupported("compose through an absolute offset")
            sub[a] = shift_expr(inner[a[1]], list(off))
    return outer.subs(sub) if sub else outer


def _exprs_in(obj):
    """all Piece expressions inside a nested snapshot structure"""
    if isinstance(obj, Piece):
        yield obj.expr
    elif isinstance(obj, dict):
        if "pieces" in obj and isinstance(obj["pieces"], list):
            for p in obj["pieces"]:
                yield p.expr
        else:
            for v in obj.values():
                yield from _exprs_in(v)
    elif isinstance(obj, (list, tuple)):
        for v in obj:
            yield from _exprs_in(v)


def roots_of(store, exprs):
    """names of the *initial* array contents the expressions depend on, following version
    definitions (stages and external operations) transitively"""
    seen, out = set(), set()
    stack = []
    for e in exprs:
        stack.extend(deps_of(e))
    while stack:
        n = stack.pop()
        if n in seen:
            continue
        seen.add(n)
        d = store.defs.get(n)
        if d is None or d["kind"] == "init":
            out.add(n)
            continue
        if d["kind"] == "stage":
            for p in d["pieces"]:
                stack.extend(deps_of(p.expr))
        elif d["kind"] == "ext":
            for e in _exprs_in(d.get("inputs")):
                stack.extend(deps_of(e))
    return out
