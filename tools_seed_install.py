#!/usr/bin/env python3
"""Install a confirmed seeded change into /verif/seeded/<name>/ (patch.diff, demo.py, notes.md, meta.json)."""
import json, os, shutil, sys
src, pid, name, needs = sys.argv[1], sys.argv[2], sys.argv[3], sys.argv[4]
history = sys.argv[5] if len(sys.argv) > 5 else None
dst = os.path.join(os.path.dirname(os.path.abspath(__file__)), "seeded", name)
os.makedirs(dst, exist_ok=True)
for f in ("patch.diff", "demo.py", "notes.md"):
    if os.path.exists(os.path.join(src, f)):
        shutil.copy(os.path.join(src, f), os.path.join(dst, f))
ev = json.load(open(os.path.join(src, "eval.json")))
tests = open(os.path.join(src, "tests_confirmed.txt")).read().strip() if os.path.exists(os.path.join(src, "tests_confirmed.txt")) else "not re-run"
meta = {
    "property_broken": pid,
    "needs_to_manifest": needs,
    "author": "independent sub-agent given only the property text and a scratch worktree",
    "confirmed": {
        "demo_exit_on_clean_repo": ev["demo_clean_exit"],
        "demo_exit_with_patch": ev["demo_patched_exit"],
        "demo_command": "cd /repo && git apply <patch> && PYTHONPATH=/repo:<dir with pyst_shim.py> /venv/bin/python demo.py ; git checkout -- .",
        "baseline_tests_with_patch": tests,
    },
    "checks_run_with_patch": {p: v["exit"] for p, v in sorted(ev["checks"].items())},
    "checks_that_report_it": sorted(p for p, v in ev["checks"].items() if v["exit"] == 1),
    "first_report": {p: (v["first"][0].strip() if v["first"] else "") for p, v in ev["checks"].items() if v["exit"] == 1},
}
if history:
    meta["history"] = history
json.dump(meta, open(os.path.join(dst, "meta.json"), "w"), indent=1)
print(name, meta["checks_that_report_it"])
