#!/usr/bin/env python3
"""Mutation harness: apply one textual edit to a scratch copy of /repo's sopht package and run checks on it.
usage: tools_mutate.py <relative file> <old> <new> <PID> [<PID> ...]   (old must occur; --all replaces every occurrence)
"""
import os, shutil, subprocess, sys, tempfile

def run_mutant(relfile, old, new, pids, count=1, tier="quick", repo="/repo", verbose=True):
    tmp = tempfile.mkdtemp(prefix="sopht-mut-", dir=os.environ.get("TMPDIR", "/tmp"))
    try:
        shutil.copytree(os.path.join(repo, "sopht"), os.path.join(tmp, "sopht"))
        p = os.path.join(tmp, relfile)
        s = open(p).read()
        if old not in s:
            return {"error": "pattern not found in %s" % relfile}
        s2 = s.replace(old, new) if count == 0 else s.replace(old, new, count)
        open(p, "w").write(s2)
        import ast
        ast.parse(s2)
        res = {}
        for pid in pids:
            env = dict(os.environ, SOPHT_REPO=tmp, PYTHONPATH=os.path.dirname(os.path.abspath(__file__)))
            r = subprocess.run([sys.executable, "-m", "sa.check", pid, "--tier", tier, "--repo", tmp, "--no-evidence"],
                               capture_output=True, text=True, env=env, cwd=os.path.dirname(os.path.abspath(__file__)))
            lines = [l for l in r.stdout.splitlines() if l.startswith(("VIOLATION", "  ", "ANALYSIS-ERROR", "KNOWN")) and not l.startswith("  key=") and not l.startswith("  File") and not l.startswith("    ")]
            res[pid] = (r.returncode, lines[:9], r.stdout[-1500:] if r.returncode == 2 else "")
        return res
    finally:
        shutil.rmtree(tmp, ignore_errors=True)

if __name__ == "__main__":
    a = sys.argv[1:]
    count = 1
    if a[0] == "--all":
        count = 0
        a = a[1:]
    res = run_mutant(a[0], a[1], a[2], a[3:], count)
    if "error" in res:
        print(res["error"]); sys.exit(3)
    for pid, (rc, lines, tail) in res.items():
        print(pid, "exit", rc)
        for l in lines: print("   ", l[:300])
        if tail: print(tail)
